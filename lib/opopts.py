"""Per-operation options (OpOptions.tla): shared stage. Each check that relies on an operation option judges the fields its property speaks about;
every other option of the catalogue is noise that may stand anywhere in the list."""
from vlib import ToolError

CFG = "SPECIFICATION Spec\nCONSTANT MaxLen = %d\nCHECK_DEADLOCK FALSE\n"


def stage(ctx, prop, fields, thorough):
    """fields: e.g. {"channel.Timeout", "netconf.Timeout"}. Returns the number of option lists evaluated."""
    r = ctx.tlc("OpOptions", cfg="oo.cfg", files={"oo.cfg": CFG % (3 if thorough else 2)}, workers=1, timeout=1800)
    if r["violated"] or "order law fails" in r["stdout"]:
        ctx.violation("%s:model:OpOptions-order-law" % prop, "OpOptions.tla: the order law fails on the specification's own fold:\n" + r["stdout"][-1200:], {"kind": "model", "spec": "OpOptions"})
        return 0
    scns = r["scn"]
    want = 1 + 23 + 23 * 23 + (23 ** 3 if thorough else 0)
    if len(scns) != want:
        raise ToolError("OpOptions.tla produced %d of %d lists" % (len(scns), want))
    res = ctx.run_harness("opopts", scns, timeout=1800)
    if len(res) != len(scns):
        raise ToolError("opopts answered %d of %d; stderr:\n%s" % (len(res), len(scns), ctx.last_stderr[-2000:]))
    seen = set()
    for s, rr in zip(scns, res):
        ctx.count()
        if rr.get("sig") == "TOOL":
            raise ToolError(rr["detail"])
        if any(o.split(":")[0] in OPTION_OF for o in s["opts"] if OPTION_OF.get(o.split(":")[0], set()) & fields):
            ctx.nontriv("opopts/%d" % s["id"])
        dev = (rr.get("extra") or {}).get("deviations") or {}
        for key, what in sorted(dev.items()):
            if key in fields or key == "error":
                sig = "%s:operation-options:%s" % (prop, key)
                if sig not in seen or len(seen) < 40:
                    seen.add(sig)
                    ctx.violation(sig, "NewOperation with the option list %s: %s %s" % (s["opts"], key, what), dict(s, kind="opopts"))
    ctx.notes["operation_option_lists"] = len(scns)
    return len(scns)


def replay(ctx, prop, fields, rp):
    res = ctx.run_harness("opopts", [rp])
    ctx.count()
    for key, what in sorted(((res[0].get("extra") or {}).get("deviations") or {}).items()):
        if key in fields or key == "error":
            ctx.violation("%s:operation-options:%s" % (prop, key), "NewOperation with the option list %s: %s %s" % (rp["opts"], key, what), rp)


OPTION_OF = {
    "WithTimeoutOps": {"channel.Timeout", "netconf.Timeout"}, "WithPrivilegeLevel": {"network.PrivilegeLevel"},
    "WithFailedWhenContains": {"generic.FailedWhenContains"}, "WithStopOnFailed": {"generic.StopOnFailed"},
    "WithCompletePatterns": {"channel.CompletePatterns"}, "WithInterimPromptPattern": {"channel.InterimPromptPatterns"},
    "WithNoStripPrompt": {"channel.StripPrompt"}, "WithExactMatchInput": {"channel.ExactMatchInput"}, "WithEager": {"channel.Eager"},
    "WithFilterType": {"netconf.FilterType"}, "WithDefaultType": {"netconf.DefaultType"}, "WithFilter": {"netconf.Filter"},
    "WithCommitConfirmed": {"netconf.CommitConfirmed"}, "WithCommitConfirmTimeout": {"netconf.CommitConfirmTimeout"},
    "WithCommitConfirmedPersist": {"netconf.CommitConfirmedPersist"}, "WithCommitConfirmedPersistID": {"netconf.CommitConfirmedPersistID"},
}
