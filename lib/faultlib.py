"""Shared by C05 (stall) and C06 (loss): ops export, Stall.tla (mc + emit), scenario selection, crash-attributing batches."""
import json
import os
from vlib import ToolError

CFG = """SPECIFICATION Spec
CONSTANTS Fault = "%s"
 Mode = "%s"
INVARIANTS OutcomeIsFunction NoPartialSuccess
PROPERTY NeverStuck
CONSTRAINT Emit
VIEW View
CHECK_DEADLOCK FALSE
"""


def export_ops(ctx):
    out = os.path.join(ctx.tmp, "ops.json")
    res = ctx.run_harness("faultexport", args=["-out", out], timeout=300)
    if not os.path.exists(out):
        raise ToolError("fault-free export of the standard operations failed:\n" + ctx.last_stderr[-3000:])
    ops = json.load(open(out))
    return ops, open(out).read()


def thresholds(op):
    t = {0, 1, op["total"], max(op["total"] - 1, 0)}
    off = op["pre"]
    t |= {op["preneed"], max(op["preneed"] - 1, 0), op["pre"]}
    for e in op["exchanges"]:
        for v in (off, off + e["echolen"], off + e["echolen"] + e["need"], off + e["echolen"] + e["resplen"]):
            t |= {max(v - 1, 0), v, v + 1}
        off += e["echolen"] + e["resplen"]
    return {x for x in t if 0 <= x <= op["total"]}


def writepoints(op):
    """The stream positions at which the client writes: the input of every exchange and, once its echo is complete, the return."""
    t, off = set(), op["pre"]
    for e in op["exchanges"]:
        t |= {off, off + e["echolen"]}
        off += e["echolen"] + e["resplen"]
    return {x for x in t if 0 <= x <= op["total"]}


def model(ctx, fault, ops_text):
    """Runs Stall.tla in mc mode (all interleavings, compressed lengths) and emit mode (predictions for real lengths)."""
    r = ctx.tlc("Stall", cfg="c.cfg", files={"c.cfg": CFG % (fault, "mc"), "ops.json": ops_text}, timeout=900)
    mc_bad = r["violated"]
    r2 = ctx.tlc("Stall", cfg="c.cfg", files={"c.cfg": CFG % (fault, "emit"), "ops.json": ops_text}, timeout=900)
    pred = {}
    for s in r2["scn"]:
        pred.setdefault((s["op"], s["k"]), {"allowed": set(), "need": s["need"], "total": s["total"], "lastret": s["lastret"]})["allowed"].add(s["class"])
    return mc_bad, r, pred


def run_batches(ctx, scns, prop, timeout=3000, workers=8):
    """Runs the scenarios in isolated child processes (vh isolated fault): a panic in a library goroutine kills only the child that was
    running exactly one scenario, which is reported as died."""
    res = ctx.run_harness("isolated", scns, args=["fault"], timeout=timeout, env={"VERIF_WORKERS": str(workers)})
    results = {}
    died = []
    for r in res:
        if r.get("toolerror"):
            raise ToolError("harness child problem: " + r["toolerror"])
        results[r["id"]] = r
        if r.get("died"):
            died.append((r["id"], r.get("stderr", "")))
    if len(results) != len(scns):
        raise ToolError("isolated run answered %d of %d scenarios:\n%s" % (len(results), len(scns), ctx.last_stderr[-2000:]))
    return results, died
