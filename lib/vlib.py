"""Shared runner machinery: TLC invocation, harness build/run, evidence, known findings.

Exit codes of a check: 0 held (possibly KNOWN-FINDING lines), 1 VIOLATION, 2 the check could not run.
"""
import hashlib
import json
import os
import re
import shutil
import subprocess
import sys
import tempfile
import time

VERIF = os.path.dirname(os.path.dirname(os.path.abspath(__file__)))
SPEC = os.path.join(VERIF, "spec")
HARNESS = os.path.join(VERIF, "harness")
REPO = os.environ.get("VERIF_REPO", "/repo")
# a run against another tree (VERIF_REPO: a scratch worktree with a seeded change applied) never touches the committed evidence
EVID = os.path.join(VERIF, "evidence") if REPO == "/repo" else os.environ.get("VERIF_EVIDENCE", tempfile.mkdtemp(prefix="verif-evid-"))
REPLAY = os.path.join(EVID, "replay")
TLA_CP = "/opt/veriftools/tla/tla2tools.jar:/opt/veriftools/tla/CommunityModules-deps.jar"

GOENV = dict(os.environ)
GOENV.update({"GOFLAGS": "-mod=mod", "GOPROXY": "off", "GOSUMDB": "off", "GOTOOLCHAIN": "local"})


class ToolError(Exception):
    """The check itself could not run (V5): exit 2, never a violation."""


def log(*a):
    print(*a, file=sys.stderr, flush=True)


class Ctx:
    def __init__(self, prop, tier, seed, replay=None):
        self.prop = prop
        self.tier = tier
        self.seed = seed
        self.replay = replay
        self.t0 = time.time()
        self.tmp = tempfile.mkdtemp(prefix="verif-%s-" % prop)
        self.states = 0
        self.transitions = 0
        self.tlc_runs = []
        self.evaluations = 0
        self.nontrivial = set()
        self.traces_validated = 0
        self.samples = []
        self.violations = []   # dicts: sig, what, replay (object)
        self.notes = {}
        self.assumptions = []
        self.rule = ""
        self.exhaustive = False
        self.vacuous = []
        self._vh = None

    def cleanup(self):
        shutil.rmtree(self.tmp, ignore_errors=True)

    # ---------------------------------------------------------------- TLC
    def tlc(self, module, cfg=None, workers="auto", simulate=None, depth=None, timeout=600,
            files=None, deadlock=None, coverage=False, extra=None, dfs=False, expect_violation=False):
        """Run TLC on spec/<module>.tla with spec/<cfg> in a scratch copy. Returns a dict with
        stdout, scn (list of parsed 'SCN ' JSON prints), generated, distinct, ok (no error), violated
        (invariant/property violated or deadlock), errtext."""
        d = tempfile.mkdtemp(prefix="tlc-", dir=self.tmp)
        for f in os.listdir(SPEC):
            p = os.path.join(SPEC, f)
            if os.path.isfile(p):
                shutil.copy(p, d)
        for name, content in (files or {}).items():
            with open(os.path.join(d, name), "w") as fh:
                fh.write(content)
        cfg = cfg or (module + ".cfg")
        cmd = ["java", "-XX:+UseParallelGC", "-Xss64m"]
        if dfs:
            cmd.append("-Dtlc2.tool.queue.IStateQueue=StateDeque")
        cmd += ["-cp", TLA_CP, "tlc2.TLC", "-config", cfg, "-workers", str(workers),
                "-metadir", os.path.join(d, "states"), "-seed", str(self.seed), "-noGenerateSpecTE"]
        if simulate:
            cmd += ["-simulate", simulate]
        if depth:
            cmd += ["-depth", str(depth)]
        if deadlock is False:
            cmd += ["-deadlock"]
        if coverage:
            cmd += ["-coverage", "1"]
        cmd += (extra or [])
        cmd.append(module + ".tla")
        t0 = time.time()
        try:
            r = subprocess.run(cmd, cwd=d, stdout=subprocess.PIPE, stderr=subprocess.STDOUT, timeout=timeout)
        except subprocess.TimeoutExpired:
            subprocess.run(["pkill", "-f", "tlc2.TL[C].*" + re.escape(d)], check=False)
            raise ToolError("TLC timeout after %ss on %s/%s" % (timeout, module, cfg))
        out = r.stdout.decode("utf-8", "replace")
        res = {"stdout": out, "scn": [], "generated": 0, "distinct": 0, "wall": time.time() - t0,
               "module": module, "cfg": cfg, "rc": r.returncode}
        for line in out.splitlines():
            if line.startswith('"SCN '):
                body = line[5:-1]
                body = body.replace('\\"', '"').replace("\\\\", "\\")
                try:
                    res["scn"].append(json.loads(body))
                except ValueError as e:
                    raise ToolError("unparsable SCN line from %s: %s (%s)" % (module, line[:200], e))
        m = None
        for m in re.finditer(r"(\d+) states generated, (\d+) distinct states found", out):
            pass
        if m:
            res["generated"], res["distinct"] = int(m.group(1)), int(m.group(2))
        if simulate:
            m2 = None
            for m2 in re.finditer(r"(\d+) states checked", out):
                pass
            if m2:
                res["generated"] = res["distinct"] = int(m2.group(1))
        res["violated"] = bool(re.search(r"Error: (Invariant|Action property|Temporal propert|Deadlock|Property|Postcondition)", out)
                               or "is violated" in out or "Deadlock reached" in out)
        hard = re.search(r"(Error: .*|Parsing or semantic analysis failed|java\.lang\.\w+Error|Exception in thread)", out)
        res["ok"] = (r.returncode == 0)
        if r.returncode != 0 and not res["violated"]:
            raise ToolError("TLC failed on %s/%s (rc=%s):\n%s" % (module, cfg, r.returncode, out[-3000:]))
        if res["violated"] and not expect_violation:
            res["errtext"] = out[-4000:]
        if coverage:
            res["vacuous"] = re.findall(r"^<(\w+) line .*>: 0:0$", out, re.M)
        self.states += res["distinct"]
        self.transitions += res["generated"]
        self.tlc_runs.append({"module": module, "cfg": cfg, "generated": res["generated"],
                              "distinct": res["distinct"], "wall_s": round(res["wall"], 2),
                              "scenarios": len(res["scn"]), "violated": res["violated"]})
        shutil.rmtree(d, ignore_errors=True)
        return res

    def tlc_must_hold(self, module, cfg=None, **kw):
        """Exhaustive model-level check: a violation here means spec and code disagree with the property at
        design level. The counterexample is only a candidate (V1); callers replay it against the code."""
        r = self.tlc(module, cfg, **kw)
        return r

    # ---------------------------------------------------------------- harness
    def build_harness(self):
        if self._vh:
            return self._vh
        out = os.path.join(self.tmp, "vh")
        t0 = time.time()
        cmd = ["go", "build", "-race", "-tags", "verif", "-o", out, "."]
        if REPO != "/repo":
            # same harness, library taken from the other tree: an alternative go.mod whose replace points there
            mf = os.path.join(self.tmp, "alt.mod")
            with open(os.path.join(HARNESS, "go.mod")) as fh:
                mod = fh.read().replace("=> /repo", "=> " + REPO)
            with open(mf, "w") as fh:
                fh.write(mod)
            shutil.copy(os.path.join(HARNESS, "go.sum"), os.path.join(self.tmp, "alt.sum"))
            cmd = ["go", "build", "-modfile=" + mf, "-race", "-tags", "verif", "-o", out, "."]
        r = subprocess.run(cmd, cwd=HARNESS, env=GOENV, stdout=subprocess.PIPE, stderr=subprocess.STDOUT)
        if r.returncode != 0:
            raise ToolError("harness build failed:\n" + r.stdout.decode("utf-8", "replace")[-4000:])
        self.notes["harness_build_s"] = round(time.time() - t0, 1)
        self._vh = out
        return out

    def run_harness(self, sub, scenarios=None, args=None, timeout=1200, env=None, stdin_text=None, allow_crash=False):
        """Runs `vh <sub> [args]` feeding scenarios as NDJSON on stdin; returns list of JSON result objects."""
        vh = self.build_harness()
        e = dict(GOENV)
        racelog = os.path.join(self.tmp, "race-%s" % sub)
        e["GORACE"] = "halt_on_error=0 exitcode=0 log_path=%s" % racelog
        e["VERIF_SEED"] = str(self.seed)
        e["VERIF_TIER"] = self.tier
        e["VERIF_TMP"] = self.tmp
        if env:
            e.update(env)
        data = stdin_text if stdin_text is not None else "".join(json.dumps(s) + "\n" for s in (scenarios or []))
        try:
            r = subprocess.run([vh, sub] + (args or []), input=data.encode(), env=e, cwd=self.tmp,
                               stdout=subprocess.PIPE, stderr=subprocess.PIPE, timeout=timeout)
        except subprocess.TimeoutExpired:
            raise ToolError("harness %s timed out after %ss" % (sub, timeout))
        res = []
        for line in r.stdout.decode("utf-8", "replace").splitlines():
            line = line.strip()
            if line.startswith("{"):
                try:
                    res.append(json.loads(line))
                except ValueError:
                    raise ToolError("unparsable harness output: " + line[:300])
        self.last_stderr = r.stderr.decode("utf-8", "replace")
        self.last_rc = r.returncode
        self.race_reports = []
        for f in os.listdir(self.tmp):
            if f.startswith("race-%s" % sub):
                with open(os.path.join(self.tmp, f), errors="replace") as fh:
                    self.race_reports.append(fh.read())
        if r.returncode not in (0,) and not allow_crash:
            where = library_panic(self.last_stderr)
            if where:
                # the harness process was brought down by a panic raised in library code (typically in a library goroutine, where
                # nobody can recover it): that is the library's behaviour, not tool trouble
                raise LibraryCrash(where, self.last_stderr)
        if r.returncode not in (0,) and not res and not allow_crash:
            raise ToolError("harness %s failed rc=%s:\n%s" % (sub, r.returncode, self.last_stderr[-4000:]))
        return res

    # ---------------------------------------------------------------- verdicts
    def violation(self, sig, what, replay_obj):
        if sig == "TOOL" or sig.endswith(":TOOL"):
            # a harness could not set its scenario up: never a verdict about the library
            raise ToolError("harness reported tool trouble: %s" % what)
        self.violations.append({"sig": sig, "what": what, "replay": replay_obj})

    def count(self, n=1):
        self.evaluations += n

    def nontriv(self, key):
        self.nontrivial.add(key if isinstance(key, str) else json.dumps(key, sort_keys=True))

    def sample(self, s, cap=6):
        if len(self.samples) < cap:
            self.samples.append(s)


class LibraryCrash(Exception):
    def __init__(self, where, stderr):
        Exception.__init__(self, where)
        self.where, self.stderr = where, stderr


def library_panic(stderr):
    """If stderr holds a Go panic / fatal error whose innermost non-runtime frame is library code, returns that function's name."""
    m = re.search(r"^(panic: |fatal error: )", stderr, flags=re.M)
    if not m:
        return None
    rest = stderr[m.start():]
    g = re.search(r"^goroutine \d+ .*\[running\]:\n", rest, flags=re.M)
    if not g:
        return None
    for ln in rest[g.end():].split("\n"):
        if not ln.strip():
            break
        if ln.startswith("\t") or ln.startswith("created by"):
            continue
        fn = ln.rsplit("(", 1)[0].strip()
        if fn.startswith("runtime.") or fn.startswith("panic") or fn.startswith("sync.") or fn.startswith("internal/"):
            continue
        if fn.startswith("github.com/scrapli/scrapligo/"):
            return fn[len("github.com/scrapli/scrapligo/"):]
        return None
    return None


def split_blocks(lines):
    blocks, cur = [], []
    for ln in lines:
        if json.loads(ln).get("ev") == "reset" and cur:
            blocks.append(cur)
            cur = []
        cur.append(ln)
    if cur:
        blocks.append(cur)
    return blocks


def validate_traces(ctx, module, lines, sig_prefix, what, dfs=True, maxrej=5, sigfn=None):
    """Validates concatenated trace blocks; returns number accepted. Rejected blocks become violations."""
    blocks = split_blocks(lines)
    accepted = 0
    rej = 0
    while blocks:
        text = "".join(l if l.endswith("\n") else l + "\n" for b in blocks for l in b)
        r = ctx.tlc(module, workers=1, files={"trace.ndjson": text}, dfs=dfs, expect_violation=True, timeout=1200)
        rejected = [s for s in r["scn"] if "rejectedAt" in s]
        if not rejected:
            if r["violated"]:
                raise ToolError("trace spec %s reported an error without a rejection index:\n%s" % (module, r["stdout"][-2000:]))
            accepted += len(blocks)
            break
        k = rejected[0]["rejectedAt"]  # 1-based index of the first event that could not be consumed
        pos = 0
        bad = None
        for i, b in enumerate(blocks):
            if pos < k <= pos + len(b):
                bad = i
                break
            pos += len(b)
        if bad is None:
            bad = len(blocks) - 1
        off = k - pos
        ev = blocks[bad][off - 1] if 0 < off <= len(blocks[bad]) else ""
        ctx.violation(sig_prefix if not sigfn else sigfn(json.loads(ev) if ev else {}), "%s: trace rejected at event %d of its block: %s" % (what, off, ev.strip()[:300]),
                      {"kind": "trace", "module": module, "rejected_event_index": off, "trace": [json.loads(x) for x in blocks[bad]]})
        accepted += bad
        blocks = blocks[bad + 1:]
        rej += 1
        if rej >= maxrej:
            break
    ctx.traces_validated += accepted + rej
    return accepted



def confirm(ctx, sub, rp, args=None, env=None):
    """V2: re-executes one candidate scenario alone; returns the failing verdict if it reproduces, else records it as unreproduced."""
    again = ctx.run_harness(sub, [rp], args=args, env=env)
    bad = [r for r in again if not r.get("ok", True)]
    if bad:
        return bad[0]
    ctx.notes.setdefault("unreproduced_candidates", []).append({"scenario": rp})
    return None


def load_findings():
    p = os.path.join(VERIF, "known_findings.json")
    if not os.path.exists(p):
        return []
    with open(p) as fh:
        return json.load(fh)


def finish(ctx, level="model_checking"):
    """Prints KNOWN-FINDING / VIOLATION lines, writes evidence, returns exit code."""
    os.makedirs(REPLAY, exist_ok=True)
    known = {f["signature"]: f for f in load_findings() if f.get("property") == ctx.prop and f.get("status") == "known"}
    hit = {}
    new = {}
    for v in ctx.violations:
        if v["sig"] in known:
            hit.setdefault(v["sig"], []).append(v)
        else:
            new.setdefault(v["sig"], []).append(v)
    for sig, vs in sorted(hit.items()):
        print("KNOWN-FINDING: property=%s %s (%d occurrence(s)): %s" % (ctx.prop, sig, len(vs), known[sig].get("what", "")), flush=True)
    nviol = 0
    for sig, vs in sorted(new.items()):
        v = vs[0]
        h = hashlib.sha1((ctx.prop + sig + json.dumps(v["replay"], sort_keys=True)).encode()).hexdigest()[:10]
        path = os.path.join(REPLAY, "%s-%s.json" % (ctx.prop, h))
        with open(path, "w") as fh:
            json.dump({"property": ctx.prop, "signature": sig, "what": v["what"], "seed": ctx.seed,
                       "tier": ctx.tier, "occurrences": len(vs), "scenario": v["replay"]}, fh, indent=1)
        print("VIOLATION property=%s replay=%s" % (ctx.prop, path), flush=True)
        log("  signature=%s occurrences=%d: %s" % (sig, len(vs), v["what"][:600]))
        nviol += 1
    cov = {
        "states": ctx.states, "transitions": ctx.transitions,
        "traces_validated_against_impl": ctx.traces_validated,
        "samples": ctx.samples or ["(none)"],
        "evaluations": ctx.evaluations, "distinct_nontrivial": len(ctx.nontrivial),
        "rule": ctx.rule, "exhaustive": ctx.exhaustive,
        "tlc_runs": ctx.tlc_runs, "known_findings_hit": sorted(hit.keys()),
        "new_violation_signatures": sorted(new.keys()),
        "vacuous_actions": ctx.vacuous,
    }
    cov.update(ctx.notes)
    ev = {"property_id": ctx.prop, "tier": ctx.tier, "seed": ctx.seed, "level": level, "coverage": cov,
          "assumptions": ctx.assumptions, "wall_s": round(time.time() - ctx.t0, 2), "violations": nviol}
    os.makedirs(EVID, exist_ok=True)
    with open(os.path.join(EVID, ctx.prop + ".json"), "w") as fh:
        json.dump(ev, fh, indent=1)
    log("[%s] tier=%s seed=%s states=%d evaluations=%d nontrivial=%d traces=%d known=%d violations=%d wall=%.1fs" % (
        ctx.prop, ctx.tier, ctx.seed, ctx.states, ctx.evaluations, len(ctx.nontrivial), ctx.traces_validated,
        len(hit), nviol, time.time() - ctx.t0))
    return 1 if nviol else 0


def main(prop, run, level="model_checking"):
    import argparse
    ap = argparse.ArgumentParser()
    ap.add_argument("--tier", default=os.environ.get("VERIF_TIER", "quick"))
    ap.add_argument("--replay")
    a = ap.parse_args(sys.argv[2:])
    seed = int(os.environ.get("VERIF_SEED", "1") or 1)
    ctx = Ctx(prop, a.tier if a.tier in ("quick", "thorough") else "quick", seed, a.replay)
    try:
        run(ctx)
        rc = finish(ctx, level)
    except LibraryCrash as e:
        ctx.violation("%s:process-died:%s" % (prop, e.where), "the harness process was brought down by a panic in library code (%s):\n%s" % (e.where, e.stderr[-2500:]),
                      {"kind": "crash", "where": e.where})
        rc = finish(ctx, level)
    except ToolError as e:
        log("[%s] TOOL ERROR (exit 2): %s" % (prop, e))
        rc = 2
    finally:
        ctx.cleanup()
    sys.exit(rc)
