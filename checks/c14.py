"""C14 — SSH connections honour strict host-key checking and the configured identity. HostKey.tla: the decision table (checked against the property's wording) enumerated over all cells; each cell
is executed against an in-process SSH server with a fresh host key: standard transport directly, system transport through the real /usr/bin/ssh and through a stand-in binary for the exact argv."""
import json
import os
from vlib import ToolError


def run(ctx):
    ctx.rule = ("exhaustive: {system, standard} x {strict, not strict} x {known-hosts has the key, has another key, is empty, not given, cannot be loaded, does not exist} x {password, key, both, both with the key rejected by the server} = 96 "
                "cells, each one real connection attempt (plus the argv contract for the system transport); every cell is non-trivial; distinct by cell")
    ctx.assumptions += ["TLA+ contributes the decision table and the cell enumeration; the weight of this check is in the conformance run (real ssh handshakes against golang.org/x/crypto/ssh)",
                        "'no known-hosts file available' for the system transport relies on ~/.ssh/known_hosts not listing the loopback server's random port"]
    if not os.path.exists("/usr/bin/ssh"):
        raise ToolError("/usr/bin/ssh is not available")
    if ctx.replay:
        rp = json.load(open(ctx.replay))["scenario"]
        if rp.get("kind") == "home":
            for r in ctx.run_harness("c14home", []):
                ctx.count()
                if not r["ok"]:
                    ctx.violation(r["sig"], r["detail"], rp)
            return
        for r in ctx.run_harness("c14", [rp]):
            ctx.count()
            if not r["ok"]:
                ctx.violation(r["sig"], r["detail"], rp)
        return
    r = ctx.tlc("HostKey", workers=4)
    if r["violated"]:
        ctx.violation("C14:model:table", "HostKey.tla: the table disagrees with the property's wording:\n" + r["stdout"][-1200:], {"kind": "model"})
    scns = r["scn"]
    if len(scns) != 96:
        raise ToolError("HostKey produced %d cells, expected 96" % len(scns))
    res = ctx.run_harness("c14", scns, timeout=1800)
    if len(res) != 96:
        raise ToolError("c14 answered %d of 96; stderr:\n%s" % (len(res), ctx.last_stderr[-3000:]))
    for rr in res:
        ctx.count()
        ctx.nontriv(rr["variant"])
        if not rr["ok"]:
            ctx.violation(rr["sig"], rr["detail"], dict(scns[rr["id"]], idx=rr["id"]))
    # the two "system default" file options (resolved through the home directory), in a process of their own
    for rr in ctx.run_harness("c14home", [], timeout=300):
        ctx.count()
        if rr.get("skipped"):
            continue
        ctx.nontriv("home/" + rr["variant"])
        if not rr["ok"]:
            ctx.violation(rr["sig"], rr["detail"], {"kind": "home", "variant": rr["variant"]})
    ctx.exhaustive = True
    ctx.traces_validated = len(res)
    ctx.sample({"cell": scns[10]})
