"""C20 — util.Queue is a lossless FIFO under concurrent use.
MC: Queue.tla (PlusCal, statement level) all interleavings; G: every sequential history of QueueSeq.tla replayed on
util.Queue; V: recorded two-goroutine histories checked for linearizability by QueueTrace.tla."""
import json
import os
from vlib import ToolError

QCFG = """SPECIFICATION Spec
CONSTANTS NProd = %d
 NCons = %d
 EMPTY = EMPTY
INVARIANTS NoPanic Lossless DepthIsLen TokenConsistent
PROPERTY Finishes
"""
SEQCFG = """SPECIFICATION Spec
CONSTANT N = %d
INVARIANTS NoDup NoInvent DepthRight
CONSTRAINT Emit
CHECK_DEADLOCK FALSE
"""


from vlib import split_blocks, validate_traces  # noqa: E402,F401


def run(ctx):
    thorough = ctx.tier == "thorough"
    ctx.rule = ("sequential: every history of length N over {enq,deq,all,req,depth} (exhaustive), non-trivial = hands out at least one chunk; "
                "concurrent: recorded 2-goroutine histories, distinct by content hash")
    ctx.assumptions += ["single producer / single consumer (the discipline the channel uses)",
                        "real-time order of invocation/response events = order of appends to one mutex-protected log"]
    if ctx.replay:
        rp = json.load(open(ctx.replay))["scenario"]
        if rp.get("kind") == "login":
            rp.pop("kind")
            for rr in ctx.run_harness("c10", [{"style": "ssh", "script": ["shell"], "class": "ok", "sent": []}] * 0 + [rp]):
                ctx.count()
                if not rr["ok"] and "bytes-after-login" in rr.get("sig", ""):
                    ctx.violation("C20:channel-open:requeue-order", rr["detail"], dict(rp, kind="login"))
            return
        if rp.get("kind") == "chan":
            rp.pop("kind")
            for rr in ctx.run_harness("c20chan", [rp]):
                ctx.count()
                if not rr["ok"]:
                    ctx.violation(rr["sig"], rr["detail"], dict(rp, kind="chan"))
            return
        if rp.get("kind") == "trace":
            lines = [json.dumps(e) for e in rp["trace"]]
            validate_traces(ctx, "QueueTrace", lines, "C20:stress:not-linearizable", "replayed history")
        else:
            res = ctx.run_harness("c20seq", [rp])
            for r in res:
                ctx.count()
                if not r["ok"]:
                    ctx.violation(r["sig"], r["detail"], rp)
        return
    # 1. model level: all interleavings of the statement-level model
    nc = 6 if thorough else 5
    r = ctx.tlc("Queue", files={"Queue.cfg": QCFG % (3, nc)}, coverage=thorough, timeout=1500)
    if r["violated"]:
        # model-level counterexample: candidate only; the stress + sequential runs below decide (V1)
        ctx.notes["model_counterexample"] = r["stdout"][-1500:]
    ctx.vacuous += r.get("vacuous", [])
    # 2. G: sequential histories
    n = 7 if thorough else 5
    r = ctx.tlc("QueueSeq", files={"QueueSeq.cfg": SEQCFG % n})
    if r["violated"]:
        raise ToolError("QueueSeq abstraction violates its own invariants:\n" + r["stdout"][-1500:])
    scns = r["scn"]
    if len(scns) != 5 ** n:
        raise ToolError("expected %d sequential histories, TLC printed %d" % (5 ** n, len(scns)))
    res = ctx.run_harness("c20seq", scns, timeout=1800)
    if len(res) != len(scns):
        raise ToolError("harness answered %d of %d scenarios; stderr:\n%s" % (len(res), len(scns), ctx.last_stderr[-2000:]))
    for s, rr in zip(scns, res):
        ctx.count()
        if rr.get("nontrivial"):
            ctx.nontriv("seq:" + json.dumps(s["ops"]))
        if not rr["ok"]:
            ctx.violation(rr["sig"], rr["detail"], s)
    ctx.sample({"kind": "sequential-history", "scenario": scns[len(scns) // 3]})
    ctx.exhaustive = True
    # 3. V: concurrent histories
    trace = os.path.join(ctx.tmp, "c20trace.ndjson")
    nh, nops = (120, 400) if thorough else (24, 160)
    res = ctx.run_harness("c20stress", args=["-hist", str(nh), "-ops", str(nops), "-out", trace], timeout=1800)
    for rr in res:
        ctx.count()
        if not rr["ok"]:
            ctx.violation(rr["sig"], rr["detail"], {"kind": "stress", "hist": nh, "ops": nops, "seed": ctx.seed})
    lines = open(trace).read().splitlines()
    for b in split_blocks(lines):
        ctx.nontriv("conc:" + str(hash("".join(b))))
    if lines:
        blk = split_blocks(lines)[0]
        ctx.sample({"kind": "concurrent-history-prefix", "events": [json.loads(x) for x in blk[:12]]})
    validate_traces(ctx, "QueueTrace", lines, "C20:stress:not-linearizable", "concurrent history of util.Queue")
    # 3b. V with forced orderings: Enqueue against Dequeue / DequeueAll / Requeue, every pair of statement labels of Queue.tla
    #     (yield points in util/queue.go) in both orders, queue holding 0..2 chunks, each run ending with a drain
    ftrace = os.path.join(ctx.tmp, "c20forced.ndjson")
    res = ctx.run_harness("c20forced", args=["-out", ftrace, "-reps", "3" if thorough else "1"], timeout=1800)
    for rr in res:
        ctx.count()
        if not rr["ok"]:
            ctx.violation(rr["sig"], rr["detail"], {"kind": "forced"})
        else:
            ctx.notes["forced_orderings"] = {"histories": rr.get("histories"), "runs_in_which_the_order_was_forced": rr.get("forced")}
    flines = open(ftrace).read().splitlines()
    for b in split_blocks(flines):
        ctx.nontriv("forced:" + str(hash("".join(b))))
    validate_traces(ctx, "QueueTrace", flines, "C20:forced:not-linearizable", "forced ordering of Enqueue against a consumer call on util.Queue")
    # 4. the queue as the channel uses it: what the in-channel login read is put back IN FRONT of what the read loop queued
    #    meanwhile (Requeue at the end of Channel.Open); admitted logins whose device goes on talking after the first prompt
    logins = []
    for style, script, sent in (("telnet", ["banner", "askuser", "askpass", "shell"], ["askuser", "askpass"]), ("telnet", ["askuser", "askpass", "shell"], ["askuser", "askpass"]),
                                ("ssh", ["banner", "askpass", "shell"], ["askpass"]), ("ssh", ["askpassphrase", "askpass", "shell"], ["askpassphrase", "askpass"]),
                                ("ssh", ["shell"], []), ("telnet", ["banner", "askpass", "shell"], ["askpass"])):
        for seg in ("one", "rand", "rand"):
            for _ in range(2):       # scenarios with an even index carry the trailer
                logins.append({"style": style, "script": script, "class": "ok", "sent": sent, "seg": seg})
    res = ctx.run_harness("c10", logins, timeout=600)
    for rr in res:
        ctx.count()
        if not rr["ok"] and "bytes-after-login" in rr.get("sig", ""):
            sc = logins[rr["id"]]
            ctx.violation("C20:channel-open:requeue-order", "what the login read was not put back in front of the queue: " + rr["detail"], dict(sc, kind="login"))
    # 5. the queue as the channel's read loop feeds it: the producer far ahead of the consumer (enqueue x N, then dequeue x N or
    #    dequeue-all), through a transport that hands out the same buffer on every Read - a held chunk is the chunk produced
    chans = [{"style": st, "take": tk, "n": n, "reuse": ru} for st in ("plain", "cr", "esc", "mixed") for tk in ("read", "readall") for ru in (True, False) for n in (3, 40)]
    chans += [{"style": st, "take": tk, "n": 6, "reuse": False, "failat": 2} for st in ("plain", "cr") for tk in ("read", "readall")]
    res = ctx.run_harness("c20chan", chans, timeout=600)
    if len(res) != len(chans):
        raise ToolError("c20chan answered %d of %d; stderr:\n%s" % (len(res), len(chans), ctx.last_stderr[-2000:]))
    for rr in res:
        ctx.count()
        ctx.nontriv("chan:" + rr["variant"] + str(chans[rr["id"]]["n"]) + str(chans[rr["id"]].get("failat", "")))
        if rr.get("sig") == "TOOL":
            raise ToolError(rr.get("detail"))
        if not rr["ok"]:
            ctx.violation(rr["sig"], rr["detail"], dict(chans[rr["id"]], kind="chan"))
    for rep in ctx.race_reports:
        if "util/queue.go" in rep or "util.(*Queue)" in rep:
            ctx.violation("C20:race:queue", "race detector report involving util.Queue:\n" + rep[:1500],
                          {"kind": "stress", "hist": nh, "ops": nops, "seed": ctx.seed})
            break
