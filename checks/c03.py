"""C03 — NETCONF requests on the wire are correctly framed and carry the caller's content. NcReqScn.tla generates sessions (version x self-closing x header x operation/argument
sequences); the harness records what the server model received; NcRequestTrace.tla validates every request (NcFraming!Strict, id sequence, round trip, tree, option effects)."""
import json
import os
from vlib import ToolError, validate_traces, confirm

SCN = """SPECIFICATION Spec
CONSTANTS Seed = %d
 Count = %d
CHECK_DEADLOCK FALSE
"""


def sig_of(ev):
    if not ev or ev.get("ev") != "req":
        return "C03:trace-rejected"
    op = ev.get("op", "?")
    if ev.get("streamerrors"):
        return "C03:stream-separator"
    if ev.get("msgid") != 100 + ev.get("n", 0) + ev.get("skipped", 0):
        return "C03:message-id-sequence"
    if not ev.get("wf"):
        return "C03:%s:not-well-formed:%s" % (op, ev.get("arg"))
    if ev.get("tree") != ev.get("expect"):
        return "C03:%s:content-altered:%s" % (op, ev.get("arg"))
    if not ev.get("inputeq"):
        return "C03:input-differs-from-wire"
    if not ev.get("framedeq"):
        return "C03:framed-input-differs-from-wire"
    return "C03:framing-or-option-effect:%s" % op


def _run_main(ctx):
    thorough = ctx.tier == "thorough"
    ctx.rule = ("session = {1.0,1.1} x self-closing x header x 2-6 operations from 17 kinds with 11 argument kinds (ASCII, multi-byte, 5 kB, attributes, namespaces, empty elements, comment/CDATA/PI "
                "before a closing tag, white-space-only, mixed content); every request is one validated trace event; non-trivial = every request; distinct by session id x position")
    ctx.assumptions += ["XML well-formedness and the element tree are decided by encoding/xml in the harness (trusted projection); white-space-only character data is ignored in the comparison",
                        "datastore names are valid XML names"]
    if ctx.replay:
        rp = json.load(open(ctx.replay))["scenario"]
        if rp.get("kind") == "trace":
            validate_traces(ctx, "NcRequestTrace", [json.dumps(e) for e in rp["trace"]], "C03:trace-rejected", "replayed session", sigfn=sig_of)
            return
        scns = [rp]
    else:
        count = 1200 if thorough else 150
        r = ctx.tlc("NcReqScn", cfg="s.cfg", files={"s.cfg": SCN % (ctx.seed, count)}, workers=1)
        scns = r["scn"]
        if len(scns) != count:
            raise ToolError("NcReqScn produced %d of %d" % (len(scns), count))
    trace = os.path.join(ctx.tmp, "c03trace.ndjson")
    res = ctx.run_harness("c03", scns, args=["-out", trace], timeout=3000)
    if len(res) != len(scns):
        raise ToolError("c03 answered %d of %d; stderr:\n%s" % (len(res), len(scns), ctx.last_stderr[-3000:]))
    byid = {s["id"]: s for s in scns}
    confirmed = {}
    nreq = 0
    for rr in res:
        ctx.count()
        if not rr["ok"]:
            st = confirmed.setdefault(rr["sig"], {"ok": 0, "tries": 0})
            if st["ok"]:
                ctx.violation(rr["sig"], rr["detail"], byid[rr["id"]])
            elif st["tries"] < 4:
                st["tries"] += 1
                bad = confirm(ctx, "c03", byid[rr["id"]], args=["-out", os.path.join(ctx.tmp, "c03again.ndjson")])      # a candidate must reproduce alone
                if bad:
                    st["ok"] += 1
                    ctx.violation(bad["sig"], bad["detail"], byid[rr["id"]])
        else:
            nreq += rr.get("extra", 1) - 1
    lines = open(trace).read().splitlines()
    for i in range(nreq):
        ctx.nontriv("req%d" % i)
    if lines:
        ev = json.loads(lines[1]) if len(lines) > 1 else {}
        if "wire" in ev:
            ev["wire"] = "".join(ev["wire"])[:120] + "..."
        ctx.sample({"session": json.loads(lines[0]), "first_request": ev})
    validate_traces(ctx, "NcRequestTrace", lines, "C03:trace-rejected", "recorded NETCONF session", dfs=False, maxrej=8, sigfn=sig_of)
    ctx.notes["requests_validated"] = nreq


OPOPT_FIELDS = {"netconf.Filter", "netconf.FilterType", "netconf.DefaultType", "netconf.CommitConfirmed", "netconf.CommitConfirmTimeout", "netconf.CommitConfirmedPersist", "netconf.CommitConfirmedPersistID"}   # the operation options this property relies on (OpOptions.tla; every other option is noise in any position)


def run(ctx):
    import json as _json
    import opopts
    if ctx.replay:
        rp = _json.load(open(ctx.replay))["scenario"]
        if rp.get("kind") == "opopts":
            opopts.replay(ctx, "C03", OPOPT_FIELDS, rp)
            return
    _run_main(ctx)
    if not ctx.replay:
        opopts.stage(ctx, "C03", OPOPT_FIELDS, ctx.tier == "thorough")
