"""C10 — in-channel login succeeds iff the device admits us; attempts are bounded. Auth.tla enumerates every login dialogue (script) up to a bound for both dialogue styles with the
predicted outcome and the answers the device must receive; each is replayed on generic.Driver.Open through a transport that declares in-channel authentication."""
import json
from vlib import ToolError, confirm

CFG = """SPECIFICATION Spec
CONSTANTS Style = "%s"
 MaxLen = %d
INVARIANTS Bounded Paired OkIffShell NoTaint
PROPERTY Ends
CONSTRAINT Emit
CHECK_DEADLOCK FALSE
"""


def dialogues(ctx, maxlen):
    scns = []
    for style in ("telnet", "ssh"):
        r = ctx.tlc("Auth", cfg="a.cfg", files={"a.cfg": CFG % (style, maxlen)}, workers=8, timeout=1800)
        if r["violated"]:
            ctx.violation("C10:model:Auth-invariant:" + style, "Auth.tla violates Bounded/Paired/OkIffShell/Ends:\n" + r["stdout"][-1500:], {"kind": "model", "style": style})
        seen = set()
        for s in r["scn"]:
            k = json.dumps(s, sort_keys=True)
            if k not in seen:
                seen.add(k)
                scns.append(s)
    return scns


def run(ctx):
    thorough = ctx.tier == "thorough"
    ctx.rule = ("exhaustive: every well-formed login script of <= 5 (quick) / 6 (thorough) steps over {banner, ask-user, ask-password, ask-passphrase, reject, ssh error line, shell, silence} for the "
                "telnet and the ssh dialogue style, prompt spellings and error lines rotated by position; non-trivial = at least one credential must be sent; distinct by script x segmentation")
    ctx.assumptions += ["banners contain no line that a login or shell prompt pattern accepts; the device does not echo secrets",
                        "a recognised ssh failure line anywhere in the dialogue means connection error (that is what the code documents)"]
    if ctx.replay:
        rp = json.load(open(ctx.replay))["scenario"]
        for r in ctx.run_harness("c10", [rp]):
            ctx.count()
            if not r["ok"]:
                ctx.violation(r["sig"], r["detail"], rp)
        return
    scns = dialogues(ctx, 6 if thorough else 5)
    if len(scns) < 2000:
        raise ToolError("Auth.tla produced only %d dialogues" % len(scns))
    res = ctx.run_harness("c10", scns, timeout=3300)
    per = 2 if thorough else 1
    if len(res) != len(scns) * per:
        raise ToolError("c10 answered %d of %d; stderr:\n%s" % (len(res), len(scns) * per, ctx.last_stderr[-3000:]))
    confirmed = {}
    for rr in res:
        ctx.count()
        if rr.get("nontrivial"):
            ctx.nontriv("%s/%s" % (rr["id"], rr["variant"]))
        if not rr["ok"]:
            rp = dict(scns[rr["id"]])
            rp["seg"] = rr["variant"].split("/")[1]
            rp["idx"] = rr["id"]          # prompt spellings and the segmentation seed derive from the position
            # outcomes depend on a timeout: a candidate must reproduce alone (at most 4 re-executions per signature)
            st = confirmed.setdefault(rr["sig"], {"ok": 0, "tries": 0})
            if st["ok"]:
                ctx.violation(rr["sig"], rr["detail"], rp)
            elif st["tries"] < 4:
                st["tries"] += 1
                bad = confirm(ctx, "c10", rp)
                if bad:
                    st["ok"] += 1
                    ctx.violation(bad["sig"], bad["detail"], rp)
    # histories: every admitted dialogue (a sample of them in the quick tier) once more - login, close while the device prints a
    # late message and redraws its prompt, open the same driver again: the second login is a login like the first
    adm = [(i, s) for i, s in enumerate(scns) if s["class"] == "ok"]
    if not thorough:
        adm = adm[::max(1, len(adm) // 40)]
    hist = [dict(s, history="reopen", idx=i) for i, s in adm]
    resh = ctx.run_harness("c10", hist, timeout=3000)
    if len(resh) != len(hist):
        raise ToolError("c10 answered %d of %d histories; stderr:\n%s" % (len(resh), len(hist), ctx.last_stderr[-3000:]))
    for h, rr in zip(hist, resh):
        ctx.count()
        ctx.nontriv("reopen/%s" % h["idx"])
        if rr.get("sig") == "TOOL":
            raise ToolError("history %s: %s" % (h["idx"], rr["detail"]))
        if not rr["ok"]:
            st = confirmed.setdefault(rr["sig"], {"ok": 0, "tries": 0})
            if st["ok"]:
                ctx.violation(rr["sig"], rr["detail"], h)
            elif st["tries"] < 4:
                st["tries"] += 1
                bad = confirm(ctx, "c10", h)
                if bad:
                    st["ok"] += 1
                    ctx.violation(bad["sig"], bad["detail"], h)
    ctx.notes["reopen_histories"] = len(hist)
    ctx.exhaustive = True
    ctx.traces_validated = len(res) + len(resh)
    ctx.sample({"scenario": scns[len(scns) // 2]})
    ctx.sample({"scenario": scns[17]})
