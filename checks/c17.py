"""C17 — every advertised platform definition loads and drives a matching device. The harness exports every advertised name and variant as the real loader sees it (levels, canonical prompts sampled
from the patterns, the acceptance relation evaluated with the real regexes, on-open/close steps, variant merge comparison); Platform.tla checks well-formedness and runs the AcquirePriv loop model on every
(start, target) pair under the acceptance relation; pairs that succeed under every map order are driven on the real network driver against a device built from the definition."""
import json
import os
from vlib import ToolError


def run(ctx):
    ctx.rule = ("exhaustive over the advertised names and their variants: static well-formedness per definition, every (start, target) pair of enterable levels in the model, and on the real driver: open with "
                "on-open steps, all model-deterministic pairs, close with on-close steps; non-trivial = definitions with at least one level pair; distinct by definition")
    ctx.assumptions += ["canonical prompts are sampled from each level's regular expression (shortest match preferring 'r')", "the start level of a pair is reached through the driver (warm cache)",
                        "success = the device's final prompt is accepted by the target level's matcher (levels with indistinguishable prompts count as one)"]
    if ctx.replay:
        rp = json.load(open(ctx.replay))["scenario"]
        for r in ctx.run_harness("c17", [rp]):
            ctx.count()
            if not r["ok"]:
                ctx.violation(r["sig"], r["detail"], rp)
        return
    out = os.path.join(ctx.tmp, "platforms.json")
    penv = {"VERIF_PROMPTS": os.path.join(os.path.dirname(os.path.dirname(os.path.abspath(__file__))), "spec", "platform_prompts.json")}
    ctx.run_harness("c17export", args=["-out", out], timeout=300, env=penv)
    if not os.path.exists(out):
        raise ToolError("platform export failed:\n" + ctx.last_stderr[-2000:])
    defs = json.load(open(out))
    r = ctx.tlc("Platform", files={"platforms.json": open(out).read()}, workers=4, timeout=900)
    static = [s for s in r["scn"] if s.get("static")]
    if not static:
        raise ToolError("Platform.tla did not report its static check:\n" + r["stdout"][-1500:])
    for name, variant in static[0]["bad"]:
        dd = [x for x in defs if x["name"] == name and x["variant"] == variant][0]
        docbad = [(l["name"], l["documentedbad"]) for l in dd["levels"] if l.get("documentedbad")]
        why = "does-not-load" if not dd["loads"] else ("variant-merge" if not dd["mergeok"] else ("typical-prompt-rejected:" + docbad[0][0] if docbad else
                                                        ("unknown-key:" + dd["unknownkeys"][0] if dd.get("unknownkeys") else "ill-formed")))
        ctx.violation("C17:%s%s:%s" % (name, "/" + variant if variant else "", why),
                      "Platform.tla WellFormed fails for %s %s: %s %s %s" % (name, variant, dd.get("loaderror", ""), dd.get("mergediff", ""), docbad),
                      {"name": name, "variant": variant, "pairs": []})
    pairs = {}
    for s in r["scn"]:
        if s.get("static"):
            continue
        pairs.setdefault((s["name"], s["variant"]), {}).setdefault((s["start"], s["target"]), set()).add(s["outcome"])
    order_dependent = []
    scns = []
    for dd in defs:
        if not dd["loads"]:
            continue
        key = (dd["name"], dd["variant"])
        ok_pairs = []
        for (a, b), outs in sorted(pairs.get(key, {}).items()):
            if outs == {"ok"}:
                ok_pairs.append([a, b])
            else:
                order_dependent.append({"name": dd["name"], "variant": dd["variant"], "start": a, "target": b, "outcomes": sorted(outs)})
        # levels that cannot be entered through the driver (no escalate command): the device is put there by hand and every
        # level that can be entered must be reachable from there (the way out is the de-escalate command)
        names = [l["name"] for l in dd["levels"]]
        for l in dd["levels"]:
            if l.get("escalate", "") == "" and l.get("previous"):
                for t in names:
                    tl = [x for x in dd["levels"] if x["name"] == t][0]
                    if t != l["name"] and (tl.get("escalate") or not tl.get("previous")) and [t, t] in ok_pairs:
                        ok_pairs.append([l["name"], t])
        scns.append({"name": dd["name"], "variant": dd["variant"], "pairs": ok_pairs})
        if any(l.get("auth") for l in dd["levels"]):
            # the same walk on a device that has no secret configured: authenticated escalations are granted without a question
            scns.append({"name": dd["name"], "variant": dd["variant"], "pairs": ok_pairs, "grants": True})
    ctx.notes["pairs_whose_outcome_depends_on_map_order_in_the_model"] = order_dependent
    ctx.notes["definitions"] = len(defs)
    res = ctx.run_harness("c17", scns, timeout=1800)
    if len(res) != len(scns):
        raise ToolError("c17 answered %d of %d; stderr:\n%s" % (len(res), len(scns), ctx.last_stderr[-3000:]))
    for rr in res:
        ctx.count()
        if rr.get("nontrivial"):
            ctx.nontriv(rr["variant"])
        if not rr["ok"]:
            ctx.violation(rr["sig"], rr["detail"], scns[rr["id"]])
    ctx.exhaustive = True
    ctx.traces_validated = sum(len(s["pairs"]) for s in scns)
    ctx.sample({"scenario": scns[2]})
