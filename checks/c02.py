"""C02 — NETCONF replies decode to exactly the payload, or are explicitly failed.
NcFraming.tla: strict and lenient RFC 6242 decoders over byte classes; MCNcFraming enumerates every raw string up to a bound and every single edit
of every legal frame, with class and decoded data; NcReplyScn generates replies (payload, partition, version) for the whole driver."""
import json
from vlib import ToolError

MC = """SPECIFICATION Spec
CONSTANTS Mode = "%s"
 MaxLen = %d
 MaxPay = %d
INVARIANTS FramesLegal StrictImpliesLenient
CONSTRAINT Emit
CHECK_DEADLOCK FALSE
"""
SCN = """SPECIFICATION Spec
CONSTANTS Seed = %d
 Count = %d
CHECK_DEADLOCK FALSE
"""


def run(ctx):
    thorough = ctx.tier == "thorough"
    ctx.rule = ("record level: every byte-class string up to MaxLen and every single-symbol edit of every legal frame (exhaustive), non-trivial = class legal or malformed; "
                "driver level: generated replies x read segmentations, distinct by id x segmentation")
    ctx.assumptions += ["byte classes: '#', digits 0-2, '-', LF, space, one opaque byte; sizes therefore <= 22 in the exhaustive tier",
                        "driver level: one server message per RPC, server frames strictly per RFC 6242"]
    if ctx.replay:
        rp = json.load(open(ctx.replay))["scenario"]
        sub = "c02drv" if "payload" in rp else "c02rec"
        for r in ctx.run_harness(sub, [rp]):
            if r.get("summary"):
                continue
            ctx.count()
            if not r["ok"]:
                ctx.violation(r["sig"], r["detail"], rp)
        return
    maxlen, maxpay = (7, 4) if thorough else (6, 3)
    total = 0
    for mode in ("raw", "edit", "hdr"):
        r = ctx.tlc("MCNcFraming", cfg="c.cfg", files={"c.cfg": MC % (mode, maxlen, maxpay)}, timeout=3000)
        if r["violated"]:
            raise ToolError("NcFraming.tla violates its own invariants (encoder/decoder round trip):\n" + r["stdout"][-1500:])
        scns = r["scn"]
        if len(scns) < (1000 if mode != "hdr" else 200):
            raise ToolError("MCNcFraming(%s) produced only %d cases" % (mode, len(scns)))
        res = ctx.run_harness("c02rec", scns, timeout=3000)
        summ = [x for x in res if x.get("summary")]
        if not summ or summ[0]["n"] != len(scns):
            raise ToolError("c02rec did not process all cases; stderr:\n" + ctx.last_stderr[-3000:])
        ctx.count(summ[0]["n"])
        total += summ[0]["nontrivial"]
        ctx.notes["byclass_" + mode] = summ[0]["byclass"]
        for x in res:
            if x.get("summary"):
                continue
            ctx.violation(x["sig"], x["detail"], x["extra"])
        ctx.sample({"mode": mode, "case": scns[len(scns) // 2]})
    ctx.notes["record_nontrivial"] = total
    for i in range(min(total, 100000)):
        pass
    ctx.exhaustive = True
    # driver level
    count = 1500 if thorough else 160
    r = ctx.tlc("NcReplyScn", cfg="s.cfg", files={"s.cfg": SCN % (ctx.seed, count)}, workers=1)
    scns = r["scn"]
    res = ctx.run_harness("c02drv", scns, timeout=3000)
    nseg = 5 if thorough else 3
    if len(res) != len(scns) * nseg:
        raise ToolError("c02drv answered %d of %d; stderr:\n%s" % (len(res), len(scns) * nseg, ctx.last_stderr[-3000:]))
    byid = {s["id"]: s for s in scns}
    for rr in res:
        ctx.count()
        ctx.nontriv("drv:%s/%s" % (rr["id"], rr["variant"]))
        if not rr["ok"]:
            rp = dict(byid[rr["id"]])
            rp["variant"] = rr["variant"]
            ctx.violation(rr["sig"], rr["detail"], rp)
    ctx.sample({"mode": "driver", "case": scns[3]})
    ctx.traces_validated = len(res)
    # record-level distinct non-trivial cases are counted by the harness summary
    for k in range(total):
        ctx.nontrivial.add("rec:%d" % k)
