"""C15 — telnet option negotiation is answered and kept out of the data stream. Telnet.tla: the per-byte negotiation machine run on EVERY opening up to a bound (plus a sample of longer ones),
with AnsweredOnce / DataKept / BackToData as invariants; each opening is sent by a loopback TCP server in several TCP segmentations to the real telnet transport."""
import json
from vlib import ToolError, confirm

CFG = """SPECIFICATION Spec
CONSTANTS MaxItems = %d
 Mode = "%s"
 Count = %d
 Seed = %d
INVARIANTS AnsweredOnce DataKept BackToData
CONSTRAINT Emit
CHECK_DEADLOCK FALSE
"""


def run(ctx):
    thorough = ctx.tier == "thorough"
    ctx.rule = ("exhaustive: every opening of <= 2 (quick) / 3 (thorough) items over 12 negotiations (4 verbs x {SGA, ECHO, other}), IAC NOP, IAC GA, IAC IAC and two data bytes, plus a sample of openings "
                "of 3-6 items; each under 1-3 TCP segmentations (whole, byte-wise, cut after every IAC, halves, halves with a 65 ms pause) and read sizes {8192, 2, 1}; non-trivial = a reply or data is expected; distinct by opening x segmentation")
    ctx.assumptions += ["socket timeout 240 ms (negotiation ends after 60 / 120 ms of silence); segments follow each other within 3 ms",
                        "what happens to the two bytes of a two-byte command and to an escaped 0xFF is left open by the property"]
    if ctx.replay:
        rp = json.load(open(ctx.replay))["scenario"]
        for r in ctx.run_harness("c15", [rp]):
            ctx.count()
            if not r["ok"]:
                ctx.violation(r["sig"], r["detail"], rp)
        return
    r = ctx.tlc("Telnet", cfg="t.cfg", files={"t.cfg": CFG % (3 if thorough else 2, "all", 0, ctx.seed)}, workers=8, timeout=1800)
    if r["violated"]:
        ctx.violation("C15:model:Telnet-invariant", "Telnet.tla violates its invariants:\n" + r["stdout"][-1200:], {"kind": "model"})
    scns = r["scn"]
    r2 = ctx.tlc("Telnet", cfg="t.cfg", files={"t.cfg": CFG % (3, "sample", 1500 if thorough else 250, ctx.seed)}, workers=8, timeout=1800)
    if r2["violated"]:
        ctx.violation("C15:model:Telnet-invariant", "Telnet.tla violates its invariants (sample):\n" + r2["stdout"][-1200:], {"kind": "model"})
    scns = scns + r2["scn"]
    if len(scns) < 400:
        raise ToolError("Telnet.tla produced only %d openings" % len(scns))
    res = ctx.run_harness("c15", scns, timeout=3300)
    confirmed = {}
    for rr in res:
        ctx.count()
        if rr.get("nontrivial"):
            ctx.nontriv("%s/%s" % (rr["id"], rr["variant"]))
        if not rr["ok"]:
            rp = dict(scns[rr["id"]])
            parts = rr["variant"].split("/") + ["8192", "false"]
            rp["cut"], rs, rt = parts[0], parts[1], parts[2]
            rp["readsize"] = int(rs)
            rp["retry"] = rt == "true"
            st = confirmed.setdefault(rr["sig"], {"ok": 0, "tries": 0})
            if st["ok"]:
                ctx.violation(rr["sig"], rr["detail"], rp)
            elif st["tries"] < 4:
                st["tries"] += 1
                bad = confirm(ctx, "c15", rp)      # socket timing: candidates must reproduce alone
                if bad:
                    st["ok"] += 1
                    ctx.violation(bad["sig"], bad["detail"], rp)
    ctx.exhaustive = True
    ctx.traces_validated = len(res)
    ctx.sample({"scenario": scns[100]})
