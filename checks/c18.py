"""C18 — callback sends fire the right callback on the right trigger. CallbackScn.tla generates callback lists and device dialogues; the harness records every firing (index, argument), the
delivered stream and the outcome; CallbackTrace.tla decides membership in the firing rule (trigger, list priority, once, complete, reset, legitimate time-out) for any coalescing of reads."""
import json
import os
from vlib import ToolError, validate_traces

SCN = """SPECIFICATION Spec
CONSTANTS Seed = %d
 Count = %d
CHECK_DEADLOCK FALSE
"""


def sig_of(ev):
    if ev.get("ev") == "fire":
        return "C18:wrong-firing"
    if ev.get("ev") == "return":
        return "C18:wrong-outcome:%s" % ev.get("class")
    return "C18:trace-rejected"


def run(ctx):
    thorough = ctx.tier == "thorough"
    ctx.rule = ("scenario = 1-3 callbacks from 9 templates (contains / not-contains / regex class / case sensitivity / once / complete / reset-output) x 2-4 device segments from 11 (incl. several triggers "
                "becoming true at once, a once-trigger returning, no trigger at all); every firing and every outcome is a validated trace event; distinct by scenario id")
    ctx.assumptions += ["regex triggers are case-agnostic classes (digit, trailing '#'); callbacks answer by typing a line; a list that re-fires more than 10 times is stopped by the harness (outcome aborted)"]
    if ctx.replay:
        rp = json.load(open(ctx.replay))["scenario"]
        if rp.get("kind") == "no-function":
            for r in ctx.run_harness("c18nil", []):
                ctx.count()
                if not r["ok"] and r["variant"] == rp["variant"]:
                    ctx.violation(r["sig"], r["detail"], rp)
            return
        if rp.get("kind") == "trace":
            validate_traces(ctx, "CallbackTrace", [json.dumps(e) for e in rp["trace"]], "C18:trace-rejected", "replayed operation", sigfn=sig_of)
            return
        scns = [rp]
    else:
        count = 2500 if thorough else 300
        r = ctx.tlc("CallbackScn", cfg="s.cfg", files={"s.cfg": SCN % (ctx.seed, count)}, workers=1)
        scns = r["scn"]
        if len(scns) != count:
            raise ToolError("CallbackScn produced %d of %d" % (len(scns), count))
    trace = os.path.join(ctx.tmp, "c18trace.ndjson")
    # every scenario in a process of its own: a panic in a library goroutine (two readers on the queue, say) is a verdict about
    # that scenario, not the end of the run
    res = ctx.run_harness("isolated", scns, args=["c18"], timeout=3000, env={"VERIF_WORKERS": "8"})
    if len(res) != len(scns):
        raise ToolError("c18 answered %d of %d; stderr:\n%s" % (len(res), len(scns), ctx.last_stderr[-3000:]))
    res.sort(key=lambda r: r["id"])
    classes = {}
    with open(trace, "w") as fh:
        for rr in res:
            for e in (rr.get("extra") or {}).get("trace") or []:
                fh.write(json.dumps(e) + "\n")
    for rr in res:
        ctx.count()
        if rr.get("toolerror") or rr.get("sig") == "TOOL":
            raise ToolError(rr.get("toolerror") or rr.get("detail"))
        if rr.get("died"):
            st = rr.get("stderr", "")
            ctx.violation("C18:process-died", "the process died during this scenario (panic in a library goroutine):\n" + st[-1800:], scns[rr["id"]])
        elif not rr["ok"]:
            ctx.violation(rr["sig"], rr["detail"], scns[rr["id"]])
        else:
            c = rr["extra"]["class"]
            classes[c] = classes.get(c, 0) + 1
            if rr["extra"]["fires"] > 0:
                ctx.nontriv("scn%s" % rr["id"])
    ctx.notes["outcome_classes"] = classes
    # callbacks without a function of their own: judged by the outcome of directed dialogues (c18nil.go)
    resn = ctx.run_harness("c18nil", [], timeout=300)
    if len(resn) != 9:
        raise ToolError("c18nil answered %d of 9; stderr:\n%s" % (len(resn), ctx.last_stderr[-2000:]))
    for rr in resn:
        ctx.count()
        ctx.nontriv("no-function/" + rr["variant"])
        if not rr["ok"]:
            again = [x for x in ctx.run_harness("c18nil", [], timeout=300) if x["variant"] == rr["variant"] and not x["ok"]]
            if again:
                ctx.violation(again[0]["sig"], again[0]["detail"], {"kind": "no-function", "variant": rr["variant"]})
    lines = open(trace).read().splitlines()
    validate_traces(ctx, "CallbackTrace", lines, "C18:trace-rejected", "recorded SendWithCallbacks operation", dfs=False, maxrej=12, sigfn=sig_of)
    if lines:
        ev = json.loads(lines[0])
        ctx.sample({"reset": {"t": ev.get("t"), "segs": ev.get("segs"), "ncbs": len(ev.get("cbs", []))}})
