"""C04 — privilege navigation reaches the target level along the tree path. Privilege.tla: the AcquirePriv loop over every rooted labelled tree (exhaustive);
PrivScn.tla: generated trees x operation sequences with the device-side expectation; replayed on network.Driver against a device whose modes form the tree."""
import json
from vlib import ToolError, confirm

MC = """SPECIFICATION Spec
CONSTANTS Levels = %s
 Exact = TRUE
INVARIANTS Reached AlongPath InPlace NoError
PROPERTY Terminates
CHECK_DEADLOCK FALSE
"""
MCAMB = """SPECIFICATION Spec
CONSTANTS Levels = {"a", "b", "c"}
 Exact = FALSE
INVARIANTS NoError
CHECK_DEADLOCK FALSE
"""
SCN = """SPECIFICATION Spec
CONSTANTS Seed = %d
 Count = %d
CHECK_DEADLOCK FALSE
"""


def _run_main(ctx):
    thorough = ctx.tier == "thorough"
    ctx.rule = ("scenario = privilege tree (2-4 levels, recursive trees), authenticated edges, default/configuration level, start mode, 1-4 operations from {acquire, command, configs, "
                "configs-at-level, config, interactive, acquire-unknown}; non-trivial = some operation needs a path of >= 2 device lines or must be refused; distinct by scenario x segmentation")
    ctx.assumptions += ["prompts of distinct levels are distinguishable (Exact); a secondary secret is configured", "the device changes mode only through the driver"]
    if ctx.replay:
        rp = json.load(open(ctx.replay))["scenario"]
        if rp.get("kind") == "platform-variant":
            for r in ctx.run_harness("c04variant", []):
                ctx.count()
                if not r["ok"] and r["variant"] == rp["variant"]:
                    ctx.violation(r["sig"], r["detail"], rp)
            return
        for r in ctx.run_harness("c04", [rp]):
            ctx.count()
            if not r["ok"]:
                ctx.violation(r["sig"], r["detail"], rp)
        return
    lv = '{"a", "b", "c", "d", "e"}' if thorough else '{"a", "b", "c", "d"}'
    r = ctx.tlc("Privilege", cfg="mc.cfg", files={"mc.cfg": MC % lv}, workers=16, timeout=3000)
    if r["violated"]:
        ctx.violation("C04:model:Privilege-invariant", "Privilege.tla: the acquire loop does not follow the tree path for some tree:\n" + r["stdout"][-1500:], {"kind": "model"})
    # the ambiguity model must exhibit the map-order error (vacuity guard for Exact = FALSE, used by C17)
    r2 = ctx.tlc("Privilege", cfg="amb.cfg", files={"amb.cfg": MCAMB}, workers=8, timeout=600, expect_violation=True)
    ctx.notes["ambiguous_prompts_can_exhaust_loop_bound"] = bool(r2["violated"])
    count = 3000 if thorough else 400
    r = ctx.tlc("PrivScn", cfg="s.cfg", files={"s.cfg": SCN % (ctx.seed, count)}, workers=1, timeout=1200)
    scns = r["scn"]
    if len(scns) != count:
        raise ToolError("PrivScn produced %d of %d scenarios" % (len(scns), count))
    res = ctx.run_harness("c04", scns, timeout=3000)
    per = 2 if thorough else 1
    if len(res) != len(scns) * per:
        raise ToolError("c04 answered %d of %d; stderr:\n%s" % (len(res), len(scns) * per, ctx.last_stderr[-3000:]))
    byid = {s["id"]: s for s in scns}
    confirmed = {}
    for rr in res:
        ctx.count()
        if rr.get("nontrivial"):
            ctx.nontriv("%s/%s" % (rr["id"], rr["variant"]))
        if rr.get("sig") == "TOOL":
            again = confirm(ctx, "c04", dict(byid[rr["id"]], seg=rr["variant"]))
            if again and again.get("sig") == "TOOL":
                raise ToolError(again.get("detail"))
            if again:
                ctx.violation(again["sig"], again["detail"], dict(byid[rr["id"]], seg=rr["variant"]))
            continue
        if not rr["ok"]:
            rp = dict(byid[rr["id"]])
            rp["seg"] = rr["variant"]
            # some operations meet a short timeout on purpose (stalled transition, late answer): a candidate must reproduce alone
            st = confirmed.setdefault(rr["sig"], {"ok": 0, "tries": 0})
            if st["ok"]:
                ctx.violation(rr["sig"], rr["detail"], rp)
            elif st["tries"] < 4:
                st["tries"] += 1
                bad = confirm(ctx, "c04", rp)
                if bad:
                    st["ok"] += 1
                    ctx.violation(bad["sig"], bad["detail"], rp)
    # drivers built from a platform definition and its variants: the default desired level in force is the variant's exactly when
    # the variant names one
    resv = ctx.run_harness("c04variant", [], timeout=300)
    if len(resv) != 5:
        raise ToolError("c04variant answered %d of 5; stderr:\n%s" % (len(resv), ctx.last_stderr[-2000:]))
    for rr in resv:
        ctx.count()
        ctx.nontriv("platform/" + rr["variant"])
        if not rr["ok"]:
            again = [x for x in ctx.run_harness("c04variant", [], timeout=300) if x["variant"] == rr["variant"] and not x["ok"]]
            if again:
                ctx.violation(again[0]["sig"], again[0]["detail"], {"kind": "platform-variant", "variant": rr["variant"]})
    ctx.traces_validated = len(res) + len(resv)
    ctx.sample({"scenario": scns[1]})


OPOPT_FIELDS = {"network.PrivilegeLevel"}   # the operation options this property relies on (OpOptions.tla; every other option is noise in any position)


def run(ctx):
    import json as _json
    import opopts
    if ctx.replay:
        rp = _json.load(open(ctx.replay))["scenario"]
        if rp.get("kind") == "opopts":
            opopts.replay(ctx, "C04", OPOPT_FIELDS, rp)
            return
    _run_main(ctx)
    if not ctx.replay:
        opopts.stage(ctx, "C04", OPOPT_FIELDS, ctx.tier == "thorough")
