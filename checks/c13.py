"""C13 — failure marking and stop-on-failed. FailMark.tla enumerates every (outputs, driver list, operation list, stop) combination
over its templates with the predicted observables; the harness replays each on every send-commands/configs variant."""
import json
from vlib import ToolError

CFG = """SPECIFICATION Spec
CONSTANTS MaxN = %d
 OutT <- %s
 Prompt <- MCPrompt
INVARIANTS StopIsPrefix OpWins AggregateExact
CHECK_DEADLOCK FALSE
"""


def _run_main(ctx):
    thorough = ctx.tier == "thorough"
    ctx.rule = ("exhaustive: every list of 1..N outputs over the output templates x 3 driver lists x 3 operation lists x stop flag; each on 3 (quick, rotating) or 6 "
                "(thorough) API variants; non-trivial = at least one member failed; distinct by scenario x variant")
    ctx.assumptions += ["failure strings are matched on the post-processed output (Response.Result)"]
    if ctx.replay:
        rp = json.load(open(ctx.replay))["scenario"]
        for r in ctx.run_harness("c13", [rp]):
            ctx.count()
            if not r["ok"]:
                ctx.violation(r["sig"], r["detail"], rp)
        return
    n, outt = (4, "MCOutTQuick") if thorough else (3, "MCOutTQuick")
    if thorough:
        # all 7 templates up to 3, plus lists of 4 over the 5 quick templates
        r1 = ctx.tlc("MCFailMark", cfg="c.cfg", files={"c.cfg": CFG % (3, "MCOutT")})
        r2 = ctx.tlc("MCFailMark", cfg="c.cfg", files={"c.cfg": CFG % (4, "MCOutTQuick")})
        scns = r1["scn"] + [s for s in r2["scn"] if s["n"] == 4]
        bad = r1["violated"] or r2["violated"]
    else:
        r1 = ctx.tlc("MCFailMark", cfg="c.cfg", files={"c.cfg": CFG % (n, outt)})
        scns = r1["scn"]
        bad = r1["violated"]
    if bad:
        raise ToolError("FailMark.tla violates its own sanity invariants")
    if len(scns) < 1000:
        raise ToolError("FailMark produced only %d scenarios" % len(scns))
    res = ctx.run_harness("c13", scns, timeout=3000)
    # eight call variants; quick: every second one, rotating with the scenario, and always the network commands-from-file one
    want = len(scns) * 8 if thorough else sum(4 if i % 2 == 0 else 5 for i in range(len(scns)))
    if len(res) != want:
        raise ToolError("harness answered %d of %d runs; stderr:\n%s" % (len(res), want, ctx.last_stderr[-3000:]))
    for rr in res:
        ctx.count()
        if rr.get("nontrivial"):
            ctx.nontriv("%s/%s" % (rr["id"], rr["variant"]))
        if not rr["ok"]:
            rp = dict(scns[rr["id"]])
            rp["variant"] = rr["variant"]
            rp["idx"] = rr["id"]
            ctx.violation(rr["sig"], rr["detail"], rp)
    ctx.exhaustive = True
    ctx.traces_validated = len(res)
    ctx.sample({"scenario": scns[len(scns) // 3]})
    ctx.sample({"scenario": scns[-1]})


OPOPT_FIELDS = {"generic.FailedWhenContains", "generic.StopOnFailed"}   # the operation options this property relies on (OpOptions.tla; every other option is noise in any position)


def run(ctx):
    import json as _json
    import opopts
    if ctx.replay:
        rp = _json.load(open(ctx.replay))["scenario"]
        if rp.get("kind") == "opopts":
            opopts.replay(ctx, "C13", OPOPT_FIELDS, rp)
            return
    _run_main(ctx)
    if not ctx.replay:
        opopts.stage(ctx, "C13", OPOPT_FIELDS, ctx.tier == "thorough")
