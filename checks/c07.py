"""C07 — Close always completes: no panic, deadlock, leaked goroutine or data race.
Lifecycle.tla (PlusCal, labels = yield points of the code under tag verif) is checked for every interleaving over the matrix
feed x closes x close behaviour x driver; the harness forces orderings of pairs of yield points on the real goroutines in every
connection state and observes Close returning, process death, goroutine census, transport Close, race detector."""
import json
import os
import re
import subprocess
from vlib import ToolError, REPO

PROTOCOL = "v2"
MCL = """---- MODULE MCL ----
EXTENDS Lifecycle
MCFeed == %s
====
"""
CFG = """SPECIFICATION Spec
CONSTANTS Feed <- MCFeed
 Closes = %d
 CloseUnblocks = "%s"
 Netconf = %s
 OpReads = 2
 Protocol = "%s"
INVARIANT NoPanic
PROPERTIES %s
CHECK_DEADLOCK FALSE
"""
FEEDS = {"none": '<<>>', "data": '<<"data">>', "err": '<<"err">>', "eof": '<<"eof">>', "dataerr": '<<"data","err">>', "dataeof": '<<"data","eof">>'}
STATE_OF_FEED = {"none": "idle", "data": "data-arriving", "err": "err", "eof": "eof", "dataerr": "err-arriving", "dataeof": "eof-arriving"}
TOUCH = {
    "Errs": ["R_send", "R_sent", "O_errs", "N_read", "C_done"],
    "done": ["R_top", "R_chk", "R_send", "C_done", "C_wait"],
    "exited": ["R_exit", "C_wait", "O_flag", "N_read", "R_eof"],
    "transport": ["R_read", "C_tclose", "C_tforce"],
    "ncdone": ["N_top", "N_send", "N_sent", "NC_done", "NC_wait"],
}


def family(p):
    return p.split("_")[0]


def hook_points():
    out = subprocess.run(["grep", "-rhoE", r'verifYield\("[A-Za-z0-9_]+"\)', os.path.join(REPO, "channel"), os.path.join(REPO, "driver/netconf")],
                         stdout=subprocess.PIPE).stdout.decode()
    return sorted(set(re.findall(r'"(\w+)"', out)))


def pairs(points, allpairs):
    ps = set()
    if allpairs:
        for a in points:
            for b in points:
                if family(a) != family(b):
                    ps.add((a, b))
    else:
        for obj, members in TOUCH.items():
            ms = [m for m in members if m in points]
            for a in ms:
                for b in ms:
                    if a != b and family(a) != family(b):
                        ps.add((a, b))
    return sorted(ps)


MCCFG = """SPECIFICATION Spec
CONSTANTS Feeds <- %s
 OpReads = %d
 Protocol = "%s"
INVARIANT NoPanic
PROPERTIES CloseReturns NoLeak TransportClosed OpEnds
CHECK_DEADLOCK FALSE
"""


def model_matrix(ctx, thorough):
    """One TLC run over the whole matrix (feed x closes x close behaviour x driver are chosen in Init)."""
    bad = []
    r = ctx.tlc("MCLifecycle", cfg="mc.cfg", files={"mc.cfg": MCCFG % ("MCFeeds", 3 if thorough else 2, PROTOCOL)}, workers=16, timeout=1800, coverage=thorough)
    ctx.vacuous += r.get("vacuous", [])
    if r["violated"]:
        which = "NoPanic" if "Invariant NoPanic is violated" in r["stdout"] else "temporal"
        mt = re.search(r"Temporal property (\w+) was violated", r["stdout"])
        if mt:
            which = mt.group(1)
        m = re.findall(r'panic = "([^"]+)"', r["stdout"])
        cfgm = {}
        for key in ("Netconf", "CloseUnblocks", "Closes", "Feed"):
            mm = re.search(r"/\\ %s = ([^\n]+)" % key, r["stdout"])
            cfgm[key.lower()] = mm.group(1) if mm else "?"
        bad.append({"netconf": cfgm["netconf"], "closebeh": cfgm["closeunblocks"], "closes": cfgm["closes"], "feed": cfgm["feed"], "property": which,
                    "panic": m[-1] if m else "", "tail": r["stdout"][-1200:]})
    # vacuity guard: the same properties must be violated by the protocol of the pinned commit (v0)
    r0 = ctx.tlc("MCLifecycle", cfg="mc.cfg", files={"mc.cfg": MCCFG % ("MCFeeds" if thorough else "MCFeedsSmall", 2, "v0")}, workers=16, timeout=600, expect_violation=True)
    ctx.notes["v0_protocol_rejected_by_model"] = bool(r0["violated"])
    if not r0["violated"]:
        raise ToolError("Lifecycle.tla accepts the pinned commit's shutdown protocol (v0): the properties have become vacuous")
    # second guard: the protocol before the in-flight fixes (v1) keeps an operation alive after Close (OpEnds)
    r1 = ctx.tlc("MCLifecycle", cfg="mc.cfg", files={"mc.cfg": MCCFG % ("MCFeeds" if thorough else "MCFeedsSmall", 2, "v1")}, workers=16, timeout=600, expect_violation=True)
    ctx.notes["v1_protocol_rejected_by_model"] = bool(r1["violated"]) and "OpEnds" in r1["stdout"]
    if not ctx.notes["v1_protocol_rejected_by_model"]:
        raise ToolError("Lifecycle.tla accepts protocol v1 for OpEnds: the property has become vacuous")
    return bad


REOPEN = """SPECIFICATION Spec
CONSTANTS MaxSess = %d
 QueueFlush = "%s"
 CapsReset = %s
 DelimReset = "%s"
 IdReset = %s
 StoreReset = %s
 PrivReset = %s
 OpenOnOpen = "%s"
INVARIANTS TypeOK Clean OneLoop
CHECK_DEADLOCK FALSE
"""
REOPEN_CODE = dict(flush="open-after-wait", caps="TRUE", delim="always", idr="FALSE", store="FALSE", priv="TRUE", oo="shutdown-first")
REOPEN_ALTERNATIVES = {          # each must be rejected by the model; the history that replays the counterexample on the code is named in Reopen.tla
    "queue flushed before the wait for the old read loop": dict(flush="open-before-wait"),
    "queue flushed by Close before the read loop has gone": dict(flush="close-before-wait"),
    "queue never flushed": dict(flush="never"),
    "capability list not started afresh": dict(caps="FALSE"),
    "1.0 delimiter restored only after a Close by the user": dict(delim="after-close"),
    "1.0 delimiter never restored": dict(delim="never"),
    "message-ids restart while unfetched replies stay filed": dict(idr="TRUE"),
    "cached privilege level kept": dict(priv="FALSE"),
    "Open on a session that is still up goes straight on (no shutdown of that session first)": dict(oo="as-is"),
}


def reopen_model(ctx, thorough):
    """Reopen.tla: what one driver object carries from one session into the next; the code's choices hold, every alternative is rejected."""
    def cfg(**kw):
        c = dict(REOPEN_CODE, **kw)
        return REOPEN % (4 if thorough else 3, c["flush"], c["caps"], c["delim"], c["idr"], c["store"], c["priv"], c["oo"])
    r = ctx.tlc("Reopen", cfg="ro.cfg", files={"ro.cfg": cfg()}, workers=8, timeout=1200)
    if r["violated"]:
        ctx.violation("C07:model:Reopen:Clean", "Reopen.tla: with the resets the code makes an operation can observe something of an earlier session:\n" + r["stdout"][-2000:],
                      {"kind": "model", "spec": "Reopen"})
    rejected = {}
    for name, kw in REOPEN_ALTERNATIVES.items():
        ra = ctx.tlc("Reopen", cfg="ro.cfg", files={"ro.cfg": cfg(**kw)}, workers=4, timeout=600, expect_violation=True)
        rejected[name] = bool(ra["violated"])
        if not ra["violated"]:
            raise ToolError("Reopen.tla accepts the alternative '%s': the invariant Clean has become vacuous" % name)
    # a legitimate alternative (ids restart AND the store is emptied) must be accepted: Clean does not prescribe the code's way
    rl = ctx.tlc("Reopen", cfg="ro.cfg", files={"ro.cfg": cfg(idr="TRUE", store="TRUE")}, workers=4, timeout=600)
    if rl["violated"]:
        raise ToolError("Reopen.tla rejects restarting the ids together with emptying the store: Clean demands more than 'nothing of an earlier session'")
    ctx.notes["reopen_model"] = {"code_choices_clean": not r["violated"], "alternatives_rejected": rejected}


CLOSETWICE = """SPECIFICATION Spec
CONSTANT Guard = "%s"
INVARIANTS NoPanic TransportClosedOnce
PROPERTY BothReturn
CHECK_DEADLOCK FALSE
"""


def close_twice_model(ctx):
    """CloseTwice.tla: two overlapping callers of Close; the code's guard (sync.Once) and an atomic flag are fine, check-then-act is rejected."""
    r = ctx.tlc("CloseTwice", cfg="ct.cfg", files={"ct.cfg": CLOSETWICE % "once"}, workers=2, timeout=300)
    if r["violated"]:
        ctx.violation("C07:model:CloseTwice", "CloseTwice.tla: two overlapping Close calls behind the code's guard panic, close the transport twice or never return:\n" + r["stdout"][-1500:],
                      {"kind": "model", "spec": "CloseTwice"})
    rc = ctx.tlc("CloseTwice", cfg="ct.cfg", files={"ct.cfg": CLOSETWICE % "cas"}, workers=2, timeout=300)
    ra = ctx.tlc("CloseTwice", cfg="ct.cfg", files={"ct.cfg": CLOSETWICE % "check-then-act"}, workers=2, timeout=300, expect_violation=True)
    if rc["violated"] or not ra["violated"]:
        raise ToolError("CloseTwice.tla: the atomic-flag guard must be accepted (%s) and check-then-act rejected (%s)" % (not rc["violated"], bool(ra["violated"])))
    ctx.notes["close_twice_model"] = {"once": "holds", "cas": "holds", "check-then-act": "rejected (NoPanic)"}


LT_LATE = ["data", "data"]   # bytes of the session so far that the read loop is still working through when Close is called (seen under load)
LT_FEED = {"idle": ([], LT_LATE), "eof": (["eof"], []), "err": (["err"], []), "data-arriving": ([], ["data"] * 32), "err-arriving": ([], LT_LATE + ["err"]),
           "eof-arriving": ([], LT_LATE + ["eof"]), "inflight": ([], LT_LATE), "after-error-op": (["err"], []), "after-timeout-op": ([], LT_LATE + ["data"])}
LT_ROLE = {"R": "reader", "C": "closer", "NC": "closer", "N": "ncreader", "O": "op"}


def lifecycle_blocks(scns, res):
    """Projection of the recorded yield sequences for LifecycleTrace.tla (see the module header): one block per run on the scripted
    pipe with sequential Closes; the header is the cell of the model's matrix the run belongs to."""
    blocks = []
    for r in res:
        sc = scns[r["id"]]
        seq = (r.get("extra") or {}).get("seq")
        if not r.get("ok") or seq is None or sc["state"] not in LT_FEED:
            continue
        if sc.get("transport") or sc.get("meet") or sc.get("poll") or len(seq) >= 400:
            continue
        nc = sc["driver"] == "netconf"
        hasop = sc["state"] == "inflight"
        feed, arrive = LT_FEED[sc["state"]]
        b = [json.dumps({"ev": "reset", "netconf": nc, "hasop": hasop, "closes": sc["closes"], "closebeh": sc["closebeh"], "feed": feed, "arrive": arrive,
                         "scn": r["id"]})]
        for lab in seq:
            fam = family(lab)
            if lab in ("R_sent", "N_sent") or fam not in LT_ROLE:
                continue
            if fam == "O" and (nc or not hasop):
                continue
            b.append(json.dumps({"ev": "y", "p": LT_ROLE[fam], "l": lab}))
        blocks.append(b)
    return blocks


def lifecycle_traces(ctx, scns, res):
    """V: every recorded yield sequence must be a behaviour of Lifecycle.tla (protocol v2). A rejection is model drift (V3), a note.
    The log is validated in chunks by parallel TLC runs (depth first, stopping at the first accepting path); only a chunk that
    contains a rejection has to be explored completely."""
    import concurrent.futures
    blocks = lifecycle_blocks(scns, res)
    if os.environ.get("VERIF_LT_DUMP"):
        with open(os.environ["VERIF_LT_DUMP"], "w") as fh:
            fh.write("".join(l + "\n" for b in blocks for l in b))

    def chunk(rest):
        drift, accepted, events = [], 0, 0
        while rest and len(drift) < 3:
            text = "".join(l + "\n" for b in rest for l in b)
            r = ctx.tlc("LifecycleTrace", workers=1, files={"trace.ndjson": text}, dfs=True, expect_violation=True, timeout=1500)
            rej = [s for s in r["scn"] if "rejectedAt" in s]
            if not rej:
                if r["violated"] or not r["ok"]:
                    raise ToolError("LifecycleTrace.tla failed without a rejection index:\n" + r["stdout"][-2000:])
                accepted += len(rest)
                events += sum(len(b) - 1 for b in rest)
                break
            k = rej[0]["rejectedAt"]
            pos = 0
            bad = len(rest) - 1
            for i, b in enumerate(rest):
                if pos < k <= pos + len(b):
                    bad = i
                    break
                pos += len(b)
            off = k - pos
            hdr = json.loads(rest[bad][0])
            drift.append({"scenario": scns[hdr["scn"]], "rejected_event_index": off, "event": rest[bad][off - 1] if 0 < off <= len(rest[bad]) else "",
                          "trace": [json.loads(x).get("l", "reset") for x in rest[bad]][:80]})
            accepted += bad
            events += sum(len(b) - 1 for b in rest[:bad])
            rest = rest[bad + 1:]
        return drift, accepted, events

    size = 100
    chunks = [blocks[i:i + size] for i in range(0, len(blocks), size)]
    drift, accepted, events = [], 0, 0
    with concurrent.futures.ThreadPoolExecutor(8) as ex:
        for d, a, e in ex.map(chunk, chunks):
            drift += d
            accepted += a
            events += e
    # binding guard: a log in which the orderly transport close (C_tclose) is claimed although the read loop left only afterwards
    # must be rejected, and so must a log from which one hook of the closer has been removed
    guard = {}
    for b in blocks:
        labs = [json.loads(x).get("l") for x in b]
        if "C_tforce" in labs and "R_exit" in labs and labs.index("R_exit") > labs.index("C_tforce") and "claimed-orderly" not in guard:
            bad = [x.replace('"C_tforce"', '"C_tclose"') for x in b]
            guard["claimed-orderly"] = bool(chunk([bad])[0])
        if "C_wait" in labs and "hook-removed" not in guard:
            bad = [x for x in b if '"C_wait"' not in x]
            guard["hook-removed"] = bool(chunk([bad])[0])
        if len(guard) == 2:
            break
    if blocks and not all(guard.values()):      # a guard for which no suitable log was recorded is simply not run
        raise ToolError("LifecycleTrace.tla accepts a corrupted yield sequence (%s): the trace validation has become vacuous" % guard)
    ctx.notes["lifecycle_trace_validation"] = {"blocks": len(blocks), "accepted": accepted, "yield_events_accepted": events, "model_drift": drift[:8],
                                               "corrupted_logs_rejected": guard}
    ctx.traces_validated += accepted
    if drift:
        import sys
        print("[C07] model_drift: %d recorded yield sequence(s) are not behaviours of Lifecycle.tla (a note, not a verdict): %s" % (len(drift), json.dumps(drift[0])[:600]), file=sys.stderr, flush=True)
    return drift


def scenarios(ctx, thorough):
    points = hook_points()
    ps = pairs(points, thorough)
    scns = []
    states = ["idle", "eof", "err", "data-arriving", "err-arriving", "eof-arriving", "inflight", "after-error-op", "after-timeout-op"]
    k = 0
    for drv in ("generic", "network", "netconf"):
        for st in states:
            for closes in (1, 2):
                for cb in ("eof", "err", "stay"):
                    for rd in ((40, 300) if thorough else (40,)):
                        base = {"driver": drv, "state": st, "closes": closes, "closebeh": cb, "readdelay_us": rd}
                        scns.append(dict(base, before="", after=""))
                        if thorough:
                            sel = ps
                        else:
                            sel = [ps[(k * 5 + j * 7) % len(ps)] for j in range(4)]
                            k += 1
                        for a, b in sel:
                            scns.append(dict(base, before=a, after=b))
    # the same driver object opened again after Close (and closed again)
    for drv in ("generic", "network", "netconf"):
        for cb in ("eof", "err"):
            for rd in (40, 300):
                scns.append({"driver": drv, "state": "reopen", "closes": 1, "closebeh": cb, "readdelay_us": rd, "before": "", "after": ""})
    # on-close hooks that fail (generic and network level): the close must go on and reach the transport
    for drv in ("generic", "network"):
        for st in ("idle", "eof", "err", "inflight"):
            for closes in (1, 2):
                for cb in (("eof", "stay") if not thorough else ("eof", "err", "stay")):
                    scns.append({"driver": drv, "state": st, "closes": closes, "closebeh": cb, "readdelay_us": 40, "before": "", "after": "", "onclose": True})
    # the transport's own Close reports an error (connection reset by peer, child already reaped) although it did close: whatever
    # Close returns then, it has shut everything down
    for drv in ("generic", "network", "netconf"):
        for st in ("idle", "eof", "inflight", "after-error-op"):
            for closes in (1, 2):
                for cb in ("eof", "stay"):
                    scns.append({"driver": drv, "state": st, "closes": closes, "closebeh": cb, "readdelay_us": 40, "before": "", "after": "", "closeerr": True})
    # two callers close at the same moment; both are held at the entry of the shutdown until the other is there too
    for drv in ("generic", "network", "netconf"):
        for st in ("idle", "inflight", "eof", "data-arriving"):
            for cb in ("eof", "stay"):
                for meet in (("C_done", "NC_done") if drv == "netconf" else ("C_done",)):
                    for rd in ((40, 300) if thorough else (40,)):
                        scns.append({"driver": drv, "state": st, "closes": 2, "closebeh": cb, "readdelay_us": rd, "before": "", "after": "", "meet": meet})
    # a transport whose Read polls (short deadline, comes back empty-handed): the read loop sees the done signal at once and the
    # close is the orderly one - the transport's Close never runs under a Read
    for drv in ("generic", "network", "netconf"):
        for st in ("idle", "data-arriving", "after-timeout-op"):
            for rd in (300, 900):          # grace period 90 ms / 810 ms: far beyond any scheduling hiccup (40 us would give 1.6 ms)
                for rep in range(4 if thorough else 3):
                    scns.append({"driver": drv, "state": st, "closes": 1 + rep % 2, "closebeh": "eof", "readdelay_us": rd, "before": "", "after": "", "poll": True})
    # a larger read delay (3 ms): the time Close gives a read loop that is stuck in a blocking read before it closes the transport
    # under it grows with the SQUARE of the read delay in the pinned code (9 s here, 100 s at 10 ms); "within a bounded time" is
    # judged with the same 3 s as everywhere else
    for drv in ("generic", "network", "netconf"):
        for st in ("idle", "inflight"):
            for cb in ("eof", "stay"):
                scns.append({"driver": drv, "state": st, "closes": 1, "closebeh": cb, "readdelay_us": 3000, "before": "", "after": ""})
    # an Open that fails half way (read error in the middle of the hello / the login dialogue), then Close: nothing should be
    # left behind. The property starts "after a successful open", so what is observed here is a note, not a verdict (it showed the
    # reader goroutine of the NETCONF hello exchange being left behind, repaired with fix 795418f)
    for drv in ("generic", "netconf"):
        for closes in (1, 2):
            for cb in ("eof", "err", "stay"):
                for rd in ((40, 300) if thorough else (40,)):
                    scns.append({"driver": drv, "state": "open-fails", "closes": closes, "closebeh": cb, "readdelay_us": rd, "before": "", "after": ""})
    # the built-in transports under the same contract (real telnet over loopback, standard SSH against the in-process server)
    for tr in ("telnet", "standard"):
        for st in ("idle", "inflight", "eof"):
            for closes in (1, 2):
                for oc in (False, True):
                    for _ in range(2 if thorough else 1):
                        scns.append({"driver": "generic", "transport": tr, "state": st, "closes": closes, "onclose": oc, "closebeh": "real", "readdelay_us": 200, "before": "", "after": ""})
    # standard SSH transport: the device ended the session (logout) and kept the connection; Close closes the connection
    for closes in (1, 2):
        for oc in (False, True):
            scns.append({"driver": "generic", "transport": "standard", "state": "session-ended", "closes": closes, "onclose": oc, "closebeh": "real", "readdelay_us": 200, "before": "", "after": ""})
    return scns, points, ps


def run(ctx):
    thorough = ctx.tier == "thorough"
    ctx.rule = ("(driver, connection state at Close, number of Closes, transport close behaviour, read delay, ordering constraint a-before-b over the yield points); "
                "quick: free run + 4 rotating conflicting pairs per state, thorough: every cross-goroutine pair; non-trivial = every run (each closes a live session); distinct by tuple")
    ctx.assumptions += ["yield points are no-ops without the build tag; the gate delays the goroutine reaching b until a has been reached (15 ms bound)",
                        "with a transport whose blocked Read never returns, the reader goroutine stuck in that foreign Read is not counted as a leak"]
    if ctx.replay:
        rp = json.load(open(ctx.replay))["scenario"]
        if rp.get("kind") == "model":
            bad = model_matrix(ctx, False)
            for b in bad:
                ctx.violation("C07:model:%s:%s" % (b["property"], b["panic"] or "liveness"), json.dumps(b)[:1500], {"kind": "model", "cfg": {k: b[k] for k in ("netconf", "closebeh", "closes", "feed")}})
            return
        racelog = os.path.join(ctx.tmp, "race-c07")
        for _ in range(3):
            res = ctx.run_harness("isolated", [rp], args=["c07"], env={"VERIF_WORKERS": "1", "VERIF_RACELOG": racelog,
                                  "GORACE": "halt_on_error=0 exitcode=0 log_path=%s" % racelog})
            ctx.count()
            for r in res:
                if r.get("died"):
                    ctx.violation("C07:%s:%s:process-died" % (rp["driver"], rp["state"]), "process died:\n" + r.get("stderr", "")[-1500:], rp)
                    return
                if not r["ok"]:
                    ctx.violation(r["sig"], r["detail"], rp)
                    return
        return
    reopen_model(ctx, thorough)
    close_twice_model(ctx)
    bad = model_matrix(ctx, thorough)
    for b in bad:
        ctx.violation("C07:model:%s:%s" % (b["property"], b["panic"] or "liveness"),
                      "Lifecycle.tla (%s) violates %s for netconf=%s closes=%s closebeh=%s feed=%s:\n%s" % (PROTOCOL, b["property"], b["netconf"], b["closes"], b["closebeh"], b["feed"], b["tail"]),
                      {"kind": "model", "cfg": {k: b[k] for k in ("netconf", "closebeh", "closes", "feed")}})
    scns, points, ps = scenarios(ctx, thorough)
    ctx.notes["yield_points"] = points
    ctx.notes["pairs"] = len(ps)
    racelog = os.path.join(ctx.tmp, "race-c07")
    res = ctx.run_harness("isolated", scns, args=["c07"], timeout=3400,
                          env={"VERIF_WORKERS": "8", "VERIF_RACELOG": racelog, "GORACE": "halt_on_error=0 exitcode=0 log_path=%s" % racelog})
    if len(res) != len(scns):
        raise ToolError("isolated c07 answered %d of %d:\n%s" % (len(res), len(scns), ctx.last_stderr[-2000:]))
    forced = 0
    for r in res:
        sc = scns[r["id"]]
        ctx.count()
        ctx.nontriv(json.dumps(sc, sort_keys=True))
        if r.get("sig") == "TOOL" and sc["state"] == "open-fails":
            # the state after a failed Open is outside the property (a note at most): a prelude that did not go as scripted there
            # must not keep the rest of the check from being judged
            ctx.notes.setdefault("after_a_failed_open_outside_the_property", []).append({"scenario": sc, "observed": "prelude: " + str(r.get("detail"))[:200]})
            continue
        if r.get("toolerror") or r.get("sig") == "TOOL":
            raise ToolError(r.get("toolerror") or r.get("detail"))
        if r.get("died"):
            st = r.get("stderr", "")
            m = re.search(r"panic: ([^\n]+)", st)
            where = re.search(r"scrapligo/([\w/]+\.\(\*?\w+\)\.\w+)", st)
            ctx.violation("C07:%s:%s:closes=%d:%s:process-died:%s" % (sc["driver"], sc["state"], sc["closes"], sc["closebeh"], (m.group(1) if m else "?")[:60]),
                          "the process died during this scenario (%s):\n%s" % (where.group(1) if where else "", st[-1800:]), sc)
        elif not r["ok"] and sc["state"] == "open-fails":
            # outside the property (it speaks about a driver that was opened successfully): recorded, never a verdict
            ctx.notes.setdefault("after_a_failed_open_outside_the_property", []).append({"scenario": sc, "observed": r["sig"]})
        elif not r["ok"] and "goroutine-leak" in r.get("sig", ""):
            # V2: the goroutine census of a run on a loaded machine can contain a goroutine of a set-up attempt that was given up
            # (the set-up is retried with a generous budget); a leak of the library shows again when the scenario runs alone
            again = ctx.run_harness("isolated", [sc], args=["c07"], env={"VERIF_WORKERS": "1", "VERIF_RACELOG": racelog, "GORACE": "halt_on_error=0 exitcode=0 log_path=%s" % racelog})
            if again and (again[0].get("died") or not again[0].get("ok", True)):
                ctx.violation(again[0].get("sig", r["sig"]), again[0].get("detail", r["detail"]), sc)
            else:
                ctx.notes.setdefault("unreproduced_candidates", []).append({"scenario": sc, "first": r["detail"][:300]})
        elif not r["ok"]:
            ctx.violation(r["sig"], r["detail"], sc)
        elif r.get("extra", {}).get("forced"):
            forced += 1
    ctx.notes["runs_with_forced_order"] = forced
    ctx.traces_validated = len(scns)
    try:
        lifecycle_traces(ctx, scns, res)
    except ToolError as e:
        if "vacuous" in str(e):
            raise
        # the validation of the yield sequences reports drift (a note); trouble running it must not take the verdicts above with it
        ctx.notes["lifecycle_trace_validation"] = {"not_run": str(e)[:400]}
    ctx.sample({"scenario": scns[5]})
    ok = [r for r in res if r.get("ok") and r.get("extra")]
    if ok:
        ctx.sample({"yield_sequence": ok[len(ok) // 2]["extra"]["seq"][:40], "scenario": scns[ok[len(ok) // 2]["id"]]})
