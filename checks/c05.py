"""C05 — every blocking operation honours its timeout. Stall.tla: an operation as device-paced exchanges under a stall after byte k; the outcome is a
function of (operation, k) for every cut (mc mode) and is predicted for every k of the real operations (emit mode); the harness stalls the scripted device
at that byte for every standard operation and compares error class, duration against the effective timeout, completeness of a success, and recovery."""
import json
import sys, os
sys.path.insert(0, os.path.join(os.path.dirname(os.path.dirname(os.path.abspath(__file__))), "lib"))
import faultlib
from vlib import ToolError

LEVEL = "model_checking"


def select(ctx, ops, pred, thorough):
    scns = []
    for op in ops:
        name, total = op["name"], op["total"]
        if name.endswith(".stale"):
            continue
        ks = set(faultlib.thresholds(op))
        step = 1 if thorough or name.endswith(".helpout") else (5 if total > 100 else 3)     # helpout: the byte that matters is one particular byte
        ks |= set(range(0, total + 1, step))
        segs = ["whole", "one", "rand"] if thorough else ["rand"]
        for k in sorted(ks):
            p = pred.get((name, k))
            if p is None:
                continue
            allowed = set(p["allowed"])
            if p["need"] <= k < p["total"]:
                allowed |= {"ok", "timeout"}   # trailing white space: completion before the last byte is legitimate either way
            for si, seg in enumerate(segs):
                scns.append({"op": name, "fault": "stall", "k": k, "allowed": sorted(allowed), "need": p["need"], "total": p["total"],
                             "lastret": p["lastret"], "setting": "conn", "seg": seg if not thorough else segs[(si + k) % 3], "result": op["result"]})
        if name.startswith("g.sendcommand") and not name.startswith("g.sendcommands"):
            # one exchange, one clock: the device is slow (70 % of the timeout for what comes before the stall), the stall lies in
            # the wait for the prompt - the timeout is counted from the start of the operation
            for k in (pred[(name, 0)]["lastret"] + 2, pred[(name, 0)]["lastret"] + 3):
                pp = pred.get((name, k))
                if pp and k < pp["need"]:
                    scns.append({"op": name, "fault": "stall", "k": k, "allowed": sorted(pp["allowed"]), "need": pp["need"], "total": pp["total"],
                                 "lastret": pp["lastret"], "setting": "paced", "seg": "one", "result": op["result"]})
        if op["perop"]:
            lo, hi = op["peropfrom"], pred[(name, 0)]["need"]
            pts = sorted({lo, (lo + hi) // 2, max(hi - 1, lo)}) if not thorough else sorted(set(range(lo, hi, max(1, (hi - lo) // 8))))
            for k in pts:
                for setting in ("opshort", "oplong", "zero"):
                    pp = pred[(name, k)]
                    scns.append({"op": name, "fault": "stall", "k": k, "allowed": sorted(pp["allowed"]), "need": pp["need"], "total": pp["total"],
                                 "lastret": pp["lastret"], "setting": setting, "seg": "rand", "result": op["result"]})
    return scns


def _run_main(ctx):
    thorough = ctx.tier == "thorough"
    ctx.rule = ("(operation, stall point k, timeout setting, segmentation): every threshold of the exchange structure +-1 and every 3rd/5th byte (quick) or every byte (thorough) "
                "for 18 standard operations; non-trivial = k below the byte at which the exchange completes; distinct by tuple")
    ctx.assumptions += ["timeouts 90-260 ms, slack 400 ms; the deadline is long compared with delivery (Expire only at quiescence)",
                        "exchange structure (lengths) is taken from the device side of a fault-free run of each operation",
                        "per-operation timeout 0 = maximum is exercised only as a per-operation value"]
    if ctx.replay:
        rp = json.load(open(ctx.replay))["scenario"]
        if rp.get("kind") == "next-timeout":
            for r in ctx.run_harness("c05next", []):
                ctx.count()
                if not r["ok"] and r["variant"] == rp["variant"]:
                    ctx.violation(r["sig"], r["detail"], rp)
            return
        for _ in range(2):  # V2: timing candidates must reproduce
            res = ctx.run_harness("fault", [rp], env={"VERIF_WORKERS": "1"})
            ctx.count()
            bad = [r for r in res if not r["ok"]]
            if not bad:
                return
        ctx.violation(bad[0]["sig"], bad[0]["detail"], rp)
        return
    ops, text = faultlib.export_ops(ctx)
    mc_bad, r, pred = faultlib.model(ctx, "stall", text)
    if mc_bad:
        ctx.violation("C05:model:Stall-invariant", "Stall.tla: outcome is not a function of (operation, k) / partial success possible:\n" + r["stdout"][-1500:], {"kind": "model"})
    scns = select(ctx, ops, pred, thorough)
    ctx.notes["operations"] = [o["name"] for o in ops]
    results, died = faultlib.run_batches(ctx, scns, "C05", workers=8)
    cand = []
    for i, sc in enumerate(scns):
        rr = results.get(i)
        ctx.count()
        if sc["k"] < sc["need"]:
            ctx.nontriv("%s/%d/%s/%s" % (sc["op"], sc["k"], sc["setting"], sc["seg"]))
        if rr is None:
            raise ToolError("no result for scenario %d" % i)
        if rr.get("died"):
            ctx.violation("C05:%s:process-died" % sc["op"], "the process died (panic in a library goroutine) during this scenario:\n" + [d[1] for d in died if d[0] == i][0], sc)
        elif not rr["ok"]:
            cand.append((i, sc, rr))
    # V2: re-execute every candidate alone; only reproduced ones count
    unrepro = []
    for i, sc, rr in cand[:40]:
        again = ctx.run_harness("fault", [sc], env={"VERIF_WORKERS": "1"})
        if again and not again[0]["ok"]:
            ctx.violation(again[0]["sig"], again[0]["detail"], sc)
        else:
            unrepro.append({"scenario": sc, "first": rr["detail"][:300]})
    ctx.notes["unreproduced_candidates"] = unrepro
    # callback sends: the timeout a callback sets for the step after it (directed dialogues, see c05next.go)
    resn = ctx.run_harness("c05next", [], timeout=300)
    if len(resn) != 6:
        raise ToolError("c05next answered %d of 6; stderr:\n%s" % (len(resn), ctx.last_stderr[-2000:]))
    for rr in resn:
        ctx.count()
        ctx.nontriv("next-timeout/" + rr["variant"])
        if rr.get("sig") == "TOOL":
            raise ToolError(rr["detail"])
        if not rr["ok"]:
            again = [x for x in ctx.run_harness("c05next", [], timeout=300) if x["variant"] == rr["variant"] and not x["ok"]]
            if again:
                ctx.violation(again[0]["sig"], again[0]["detail"], {"kind": "next-timeout", "variant": rr["variant"]})
    ctx.traces_validated = len(scns)
    ctx.sample({"scenario": scns[len(scns) // 2]})
    ctx.sample({"operation": ops[1]})


OPOPT_FIELDS = {"channel.Timeout", "netconf.Timeout"}   # the operation options this property relies on (OpOptions.tla; every other option is noise in any position)


def run(ctx):
    import json as _json
    import opopts
    if ctx.replay:
        rp = _json.load(open(ctx.replay))["scenario"]
        if rp.get("kind") == "opopts":
            opopts.replay(ctx, "C05", OPOPT_FIELDS, rp)
            return
    _run_main(ctx)
    if not ctx.replay:
        opopts.stage(ctx, "C05", OPOPT_FIELDS, ctx.tier == "thorough")
