"""C09 — NETCONF session establishment negotiates the right version or fails cleanly. NcHello.tla: the decision table (checked against the property's wording)
and the exhaustive scenario space 12 cells x layouts x prefix x extra capabilities x session-id x echo; each replayed on netconf.Driver.Open."""
import json
from vlib import ToolError, confirm


def run(ctx):
    ctx.rule = ("exhaustive: 4 advertised subsets x 3 preferences x 4 layouts x 2 prefixes x 4 extra-capability sets (one of them forty capabilities long) x 3 session-ids x echo x {nothing, a line feed} behind the delimiter = 4608 hellos, each under 1 (quick) / 3 (thorough) "
                "read segmentations; every case is non-trivial (a full Open against a live server model); distinct by scenario x segmentation")
    ctx.assumptions += ["white space only between elements of the hello, never inside a capability URI", "server model decodes the client's stream strictly in the framing the two hellos imply"]
    if ctx.replay:
        rp = json.load(open(ctx.replay))["scenario"]
        for r in ctx.run_harness("c09", [rp]):
            ctx.count()
            if not r["ok"]:
                ctx.violation(r["sig"], r["detail"], rp)
        return
    r = ctx.tlc("NcHello", workers=4)
    if r["violated"]:
        ctx.violation("C09:model:table", "NcHello.tla: Select disagrees with the property's wording:\n" + r["stdout"][-1200:], {"kind": "model"})
    scns = r["scn"]
    if len(scns) != 4608:
        raise ToolError("NcHello produced %d scenarios, expected 4608" % len(scns))
    res = ctx.run_harness("c09", scns, timeout=3000)
    per = 3 if ctx.tier == "thorough" else 1
    if len(res) != len(scns) * per:
        raise ToolError("c09 answered %d of %d; stderr:\n%s" % (len(res), len(scns) * per, ctx.last_stderr[-3000:]))
    tried = {}
    for rr in res:
        ctx.count()
        ctx.nontriv("%s/%s" % (rr["id"], rr["variant"]))
        if rr.get("sig") == "TOOL":
            raise ToolError(rr["detail"])
        if not rr["ok"]:
            rp = dict(scns[rr["id"]])
            rp["seg"] = rr["variant"]
            rp["idx"] = rr["id"]          # several dimensions derive from the position
            st = tried.setdefault(rr["sig"], {"ok": 0, "tries": 0})
            if st["ok"]:
                ctx.violation(rr["sig"], rr["detail"], rp)
            elif st["tries"] < 4:
                st["tries"] += 1
                again = confirm(ctx, "c09", rp)             # V2: a candidate must reproduce when run alone
                if again:
                    st["ok"] += 1
                    ctx.violation(again["sig"], again["detail"], rp)
    ctx.exhaustive = True
    ctx.traces_validated = len(res)
    ctx.sample({"scenario": scns[700]})
