"""C01 — CLI exchanges return exactly the device's output, aligned per command.
MC: Channel.tla (every cut of the stream into reads, queue, echo wait, prompt wait, post-processing) checked exhaustively;
G: scenarios of ChannelScn.tla with the contract's predicted results replayed on generic and network drivers."""
import json
from vlib import ToolError

MC = """SPECIFICATION Spec
CONSTANTS
 CmdSet <- %(cmds)s
 OutSet <- %(outs)s
 NCmd = %(ncmd)d
 Prompt <- MCPrompt
 Banner <- MCBanner
 ReadSizes = %(rs)s
 Depths = %(depths)s
 Strips = {TRUE, FALSE}
 Exacts = {TRUE, FALSE}
 Wraps = {TRUE, FALSE}
 QMax = 3
INVARIANTS Aligned DeviceGot NoForeign
PROPERTY AllDone
VIEW View
CHECK_DEADLOCK FALSE
"""
SCN = """SPECIFICATION Spec
CONSTANTS Seed = %d
 Count = %d
CHECK_DEADLOCK FALSE
"""


def _run_main(ctx):
    thorough = ctx.tier == "thorough"
    ctx.rule = ("scenario = scripted session from ChannelScn.tla (commands, outputs, prompt, read size, depth, strip/exact/echo style) satisfying the "
                "preconditions; each run under 4 (quick) / 8 (thorough) segmentation x delay x driver x API variants; non-trivial = some expected result non-empty; "
                "distinct by scenario id x variant")
    ctx.assumptions += ["device model is causal and echoes input; outputs obey Text!PreOut (no proper prefix looks like a prompt, depth > longest line + prompt)",
                        "cuts never fall inside an escape sequence; read size >= 8 whenever outputs contain escape sequences"]
    rp = json.load(open(ctx.replay))["scenario"] if ctx.replay else None
    if rp is not None and rp.get("kind") not in ("kernel", "model"):
        res = ctx.run_harness("c01", [rp])
        for r in res:
            ctx.count()
            if not r["ok"]:
                ctx.violation(r["sig"], r["detail"], rp)
        return
    # 1. model level
    if thorough:
        p = dict(cmds="MCCmds", outs="MCOuts", ncmd=2, rs="{1, 3, 40}", depths="{12, 60}")
    else:
        p = dict(cmds="MCCmdsQuick", outs="MCOutsQuick", ncmd=2, rs="{1, 40}", depths="{12}")
    r = ctx.tlc("MCChannel", cfg="mc.cfg", files={"mc.cfg": MC % p}, timeout=3000)
    if r["violated"]:
        ctx.notes["model_counterexample_Channel"] = r["stdout"][-2500:]
        ctx.violation("C01:model:Channel-invariant", "Channel.tla violates Aligned/DeviceGot/NoForeign/AllDone within the bounds (model-level; the "
                      "specification of the algorithm no longer meets the contract):\n" + r["stdout"][-1500:], {"kind": "model", "cfg": p})
    r = ctx.tlc("MCChannel", cfg="MCChannelEarly.cfg")
    if r["violated"]:
        ctx.violation("C01:model:EarlyEcho-not-exact", "the named deviation Text!EarlyEcho no longer explains every misalignment of the model:\n" + r["stdout"][-1500:],
                      {"kind": "model", "cfg": "MCChannelEarly"})
    # 1b. kernel conformance: the abstract matchers of Text.tla against the public Go functions on every short string
    KCFG = "SPECIFICATION Spec\nCONSTANTS Mode = \"%s\"\n MaxLen = %d\nCONSTRAINT Emit\nCHECK_DEADLOCK FALSE\n"
    for mode, ml in (("unary", 6 if thorough else 5), ("binary", 6 if thorough else 5)):
        rk = ctx.tlc("TextKernel", cfg="k.cfg", files={"k.cfg": KCFG % (mode, ml)}, workers=8, timeout=1800)
        resk = ctx.run_harness("kernel", rk["scn"], timeout=1800)
        summ = [x for x in resk if x.get("summary")]
        if not summ or summ[0]["n"] != len(rk["scn"]):
            raise ToolError("kernel conformance did not process all %d cases" % len(rk["scn"]))
        ctx.count(summ[0]["n"])
        ctx.notes["kernel_cases_" + mode] = summ[0]["n"]
        for x in resk:
            if not x.get("summary"):
                ctx.violation(x["sig"], x["detail"], {"kind": "kernel", "mode": mode})
    # 2. scenarios
    count = 2500 if thorough else 260
    r = ctx.tlc("ChannelScn", cfg="scn.cfg", files={"scn.cfg": SCN % (ctx.seed, count)}, workers=1)
    scns = r["scn"]
    if len(scns) < count * 0.5:
        raise ToolError("ChannelScn produced only %d of %d scenarios" % (len(scns), count))
    res = ctx.run_harness("c01", scns, timeout=3000)
    nvar = 8 if thorough else 4
    if len(res) != len(scns) * nvar:
        raise ToolError("harness answered %d of %d runs; stderr:\n%s" % (len(res), len(scns) * nvar, ctx.last_stderr[-3000:]))
    byid = {s["id"]: s for s in scns}
    early = sum(1 for s in scns if s.get("early"))
    ctx.notes["scenarios"] = len(scns)
    ctx.notes["scenarios_flagged_early_echo"] = early
    for rr in res:
        ctx.count()
        s = byid[rr["id"]]
        if rr.get("nontrivial"):
            ctx.nontriv("%s/%s" % (rr["id"], rr["variant"]))
        if not rr["ok"]:
            rp = dict(s)
            rp["variant"] = rr["variant"]
            ctx.violation(rr["sig"], rr["detail"], rp)
    # 3. histories: the first send times out on a busy device, its late bytes arrive while the driver is being closed, the same
    # object is opened again and the command repeated (the contract of the second session is that of a first one)
    hv = ["reopen/generic/rand", "reopen/network/whole", "reopen/generic/whole", "reopen/network/rand"]
    hist = []
    for s in scns:
        if not s.get("early") and s["expect"][0].strip() and len(hist) < (160 if thorough else 32):
            h = dict(s)
            h["variant"] = hv[len(hist) % 4]
            hist.append(h)
    resh = ctx.run_harness("c01", hist, timeout=1800)
    if len(resh) != len(hist):
        raise ToolError("harness answered %d of %d histories; stderr:\n%s" % (len(resh), len(hist), ctx.last_stderr[-3000:]))
    for h, rr in zip(hist, resh):
        ctx.count()
        if rr.get("sig") == "TOOL":
            raise ToolError("history %s/%s: %s" % (h["id"], h["variant"], rr["detail"]))
        ctx.nontriv("%s/%s" % (h["id"], h["variant"]))
        if not rr["ok"]:
            ctx.violation(rr["sig"], rr["detail"], h)
    ctx.notes["reopen_histories"] = len(hist)
    ctx.sample({"scenario": scns[0]})
    ctx.sample({"scenario": scns[len(scns) // 2]})
    ctx.traces_validated = len(res) + len(resh)


OPOPT_FIELDS = {"channel.StripPrompt", "channel.ExactMatchInput", "channel.Eager"}   # the operation options this property relies on (OpOptions.tla; every other option is noise in any position)


def run(ctx):
    import json as _json
    import opopts
    if ctx.replay:
        rp = _json.load(open(ctx.replay))["scenario"]
        if rp.get("kind") == "opopts":
            opopts.replay(ctx, "C01", OPOPT_FIELDS, rp)
            return
    _run_main(ctx)
    if not ctx.replay:
        opopts.stage(ctx, "C01", OPOPT_FIELDS, ctx.tier == "thorough")
