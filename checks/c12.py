"""C12 — interactive dialogues are paced by the device; secrets go only to their prompt. InteractiveScn.tla generates dialogues, plain commands and escalations; the harness records,
for every client write, how much of the device's stream had been delivered when it arrived (reactions are produced after a delay); PacingTrace.tla validates the enabling conditions."""
import json
import os
from vlib import ToolError, validate_traces

SCN = """SPECIFICATION Spec
CONSTANTS Seed = %d
 Count = %d
CHECK_DEADLOCK FALSE
"""


def sig_of(ev):
    if ev.get("ev") == "write":
        if ev.get("secret") and not ev.get("asking"):
            return "C12:secret-typed-outside-its-prompt"
        return "C12:%s-sent-before-the-device-delivered-what-it-must-wait-for" % ev.get("part")
    if ev.get("ev") == "done":
        return "C12:result-not-the-whole-dialogue"
    return "C12:trace-rejected"


def _run_main(ctx):
    thorough = ctx.tier == "thorough"
    ctx.rule = ("scenario = interactive dialogue (1-3 events, visible/hidden, with/without expected response, prompt-looking noise before a response, early completion), plain command (eager or not) or "
                "privilege escalation with a secret against a device that asks / grants / refuses / rejects; every client write is a validated trace event; distinct by scenario id")
    ctx.assumptions += ["device reactions are produced 0.3-2.3 ms after the input that causes them, so typing ahead is observable as a write arriving before the delivery it must wait for",
                        "exchange structure and `need` are taken from the device side (response length minus trailing white space)"]
    if ctx.replay:
        rp = json.load(open(ctx.replay))["scenario"]
        if rp.get("kind") == "trace":
            validate_traces(ctx, "PacingTrace", [json.dumps(e) for e in rp["trace"]], "C12:trace-rejected", "replayed dialogue", sigfn=sig_of)
            return
        scns = [rp]
    else:
        count = 1500 if thorough else 220
        r = ctx.tlc("InteractiveScn", cfg="s.cfg", files={"s.cfg": SCN % (ctx.seed, count)}, workers=1)
        scns = [dict(s, fault="") for s in r["scn"]]      # fault variants belong to C11
        if len(scns) != count:
            raise ToolError("InteractiveScn produced %d of %d" % (len(scns), count))
    trace = os.path.join(ctx.tmp, "c12trace.ndjson")
    res = ctx.run_harness("c12", scns, args=["-out", trace], timeout=3000)
    if len(res) != len(scns):
        raise ToolError("c12 answered %d of %d; stderr:\n%s" % (len(res), len(scns), ctx.last_stderr[-3000:]))
    byid = {s["id"]: s for s in scns}
    for rr in res:
        ctx.count()
        ctx.nontriv("scn%s" % rr["id"])
        if not rr["ok"]:
            ctx.violation(rr["sig"], rr["detail"], byid[rr["id"]])
    lines = open(trace).read().splitlines()
    if lines:
        ctx.sample({"trace_prefix": [json.loads(x) for x in lines[:6]]})
    validate_traces(ctx, "PacingTrace", lines, "C12:trace-rejected", "recorded dialogue", dfs=False, maxrej=8, sigfn=sig_of)
    ctx.notes["write_events"] = sum(1 for x in lines if '"ev":"write"' in x)


OPOPT_FIELDS = {"channel.CompletePatterns", "channel.InterimPromptPatterns"}   # the operation options this property relies on (OpOptions.tla; every other option is noise in any position)


def run(ctx):
    import json as _json
    import opopts
    if ctx.replay:
        rp = _json.load(open(ctx.replay))["scenario"]
        if rp.get("kind") == "opopts":
            opopts.replay(ctx, "C12", OPOPT_FIELDS, rp)
            return
    _run_main(ctx)
    if not ctx.replay:
        opopts.stage(ctx, "C12", OPOPT_FIELDS, ctx.tier == "thorough")
