"""C11 — credentials never reach the logs. The dialogues of Auth.tla (login) and InteractiveScn.tla (interactive hidden inputs, privilege escalation with the secondary secret, also inside a network
on-open hook), with and without injected failures around the secret, are run with a debug-level logger and a channel log attached; every log message becomes a trace event whose taint set
LogTrace.tla requires to be empty."""
import json
import os
from vlib import ToolError, validate_traces
from checks.c10 import dialogues

SCN = """SPECIFICATION Spec
CONSTANTS Seed = %d
 Count = %d
CHECK_DEADLOCK FALSE
"""


def run(ctx):
    thorough = ctx.tier == "thorough"
    ctx.rule = ("session = login dialogue of Auth.tla (all scripts <= 4 / 5 steps, plus a variant where the write carrying the first secret fails) or dialogue/escalation of InteractiveScn.tla (asks/grants/"
                "refuses/rejects, plain and inside the network on-open hook, plus variants where the secret's write fails or the connection breaks right after the secret); every log message and the channel "
                "log are validated trace events; non-trivial = sessions in which at least one secret was transmitted; distinct by session")
    ctx.assumptions += ["secrets are random-looking strings with format verbs and regex metacharacters; the device never echoes them", "taint = substring search of every secret in every message (projection)"]
    logtrace = os.path.join(ctx.tmp, "c11log.ndjson")
    lines = []
    if ctx.replay:
        rp = json.load(open(ctx.replay))["scenario"]
        if rp.get("kind") == "trace":
            validate_traces(ctx, "LogTrace", [json.dumps(e) for e in rp["trace"]], "C11:secret-in-log", "replayed session")
            return
    # login dialogues
    dl = [s for s in dialogues(ctx, 5 if thorough else 4)]
    withsecret = [s for s in dl if any(c != "askuser" for c in s["sent"])]
    faulty = [dict(s, fault="werr-on-cred") for s in withsecret[::2 if thorough else 5]]
    scns = dl + faulty
    res = ctx.run_harness("c10", scns, args=["-logtrace", logtrace], timeout=3000)
    if len(res) < len(scns):
        raise ToolError("c10 answered %d of %d; stderr:\n%s" % (len(res), len(scns), ctx.last_stderr[-2000:]))
    lines += open(logtrace).read().splitlines()
    ctx.count(len(res))
    for i, s in enumerate(scns):
        if any(c != "askuser" for c in s["sent"]):
            ctx.nontriv("login%d" % i)
    # dialogues and escalations
    count = 900 if thorough else 150
    r = ctx.tlc("InteractiveScn", cfg="s.cfg", files={"s.cfg": SCN % (ctx.seed, count)}, workers=1)
    iscn = r["scn"]
    extra = []
    for s in iscn:
        if s["kind"] != "escalate":
            s["fault"] = ""
        else:
            extra.append(dict(s, kind="escalate-onopen", id=100000 + s["id"]))
    iscn += extra
    logtrace2 = os.path.join(ctx.tmp, "c11log2.ndjson")
    res = ctx.run_harness("c12", iscn, args=["-logtrace", logtrace2], timeout=3000)
    if len(res) < len(iscn):
        raise ToolError("c12 answered %d of %d; stderr:\n%s" % (len(res), len(iscn), ctx.last_stderr[-2000:]))
    lines += open(logtrace2).read().splitlines()
    ctx.count(len(res))
    for s in iscn:
        if s["kind"].startswith("escalate") or any(e["hidden"] for e in s["events"]):
            ctx.nontriv("dlg%d" % s["id"])
    # platform definitions whose on-open / on-close steps write a redacted value (a string, and an all-digit one)
    logtrace3 = os.path.join(ctx.tmp, "c11log3.ndjson")
    res = ctx.run_harness("c11plat", [], args=["-logtrace", logtrace3], timeout=600)
    for rr in res:
        ctx.count()
        ctx.nontriv("plat/" + rr["variant"])
        if not rr["ok"]:
            ctx.violation(rr["sig"], rr["detail"], {"kind": "platform", "variant": rr["variant"]})
    lines += open(logtrace3).read().splitlines()
    ctx.notes["log_messages"] = sum(1 for x in lines if '"ev":"log"' in x)
    if lines:
        ctx.sample({"trace_prefix": [json.loads(x) for x in lines[:4]]})

    def sig(ev):
        return "C11:secret-in-%s" % ev.get("sink", "log")
    validate_traces(ctx, "LogTrace", lines, "C11:secret-in-log", "logged session", dfs=False, maxrej=10, sigfn=sig)
