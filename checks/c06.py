"""C06 — connection loss surfaces as an error, never as a hang or a truncated success. Same Stall.tla with the Lose actions (eof / persistent error / write error)
at byte k; the harness drops the scripted device's connection at that byte for every standard operation."""
import json
import sys, os
sys.path.insert(0, os.path.join(os.path.dirname(os.path.dirname(os.path.abspath(__file__))), "lib"))
import faultlib
from vlib import ToolError


def run(ctx):
    thorough = ctx.tier == "thorough"
    ctx.rule = ("(operation, loss kind, loss point k, segmentation): thresholds +-1 and every 4th/8th byte (quick) or every byte (thorough) x {eof, err, an error that reports itself as a timeout, werr, eof/err with writes still accepted} for 18 standard operations; "
                "non-trivial = k below completion; distinct by tuple")
    ctx.assumptions += ["loss kinds: Read returns io.EOF / a persistent non-EOF error from byte k on; werr: Write fails from byte k on while reads stay silent",
                        "an error must arrive within 1 s although the configured timeout is 4 s; the session is not closed afterwards (closing is C07)"]
    if ctx.replay:
        rp = json.load(open(ctx.replay))["scenario"]
        if rp.get("kind") == "real":
            rp.pop("kind")
            for rr in ctx.run_harness("isolated", [rp], args=["c06real"], env={"VERIF_WORKERS": "1"}):
                ctx.count()
                if rr.get("died"):
                    ctx.violation("C06:real:%s:%s:process-died" % (rp["transport"], rp["when"]), "process died:\n" + rr.get("stderr", "")[-1800:], dict(rp, kind="real"))
                elif not rr["ok"]:
                    ctx.violation(rr["sig"], rr["detail"], dict(rp, kind="real"))
            return
        res, died = faultlib.run_batches(ctx, [rp], "C06", workers=1)
        ctx.count()
        r = res[0]
        if r.get("died"):
            ctx.violation("C06:%s:%s:process-died" % (rp["op"], rp["fault"]), "process died:\n" + died[0][1], rp)
        elif not r["ok"]:
            ctx.violation(r["sig"], r["detail"], rp)
        return
    ops, text = faultlib.export_ops(ctx)
    scns = []
    # "errtmo": a persistent read error that calls itself a timeout (what a dead peer looks like once the kernel gave up)
    for fault in ("eof", "err", "werr", "eofhalf", "errhalf", "errtmo"):
        mc_bad, r, pred = faultlib.model(ctx, fault.replace("half", "").replace("tmo", ""), text)
        if mc_bad:
            ctx.violation("C06:model:Stall-invariant:" + fault, "Stall.tla (%s): %s" % (fault, r["stdout"][-1500:]), {"kind": "model", "fault": fault})
        for op in ops:
            name, total = op["name"], op["total"]
            ks = set(faultlib.thresholds(op))
            step = 1 if thorough or (name.endswith(".helpout") and fault == "eof") else (8 if total > 100 else 4)
            ks |= set(range(0, total + 1, step))
            if name.endswith(".stale"):
                ks = {0}     # only the idle-loss case is deterministic when queued stale data can satisfy the operation
            for k in sorted(ks):
                p = pred.get((name, k))
                if p is None:
                    continue
                allowed = set(p["allowed"])
                if p["need"] <= k <= p["total"]:
                    allowed |= {"ok", "error"}        # loss exactly at the end of a complete exchange: either
                if fault == "werr" and k < p["need"]:
                    allowed |= {"error", "timeout"}
                seg = ["whole", "one", "rand"][(k + len(name)) % 3] if thorough else "rand"
                scns.append({"op": name, "fault": fault, "k": k, "allowed": sorted(allowed), "need": p["need"], "total": p["total"],
                             "lastret": p["lastret"], "setting": "conn", "seg": seg, "result": op["result"]})
    if fault == "werr":
        pass
    # werr runs that legitimately wait out a (short) timeout: give them a short connection timeout? they use 4 s; keep them few
    if not thorough:
        for fk, stride in (("werr", 4), ("eofhalf", 3), ("errhalf", 3), ("errtmo", 3)):
            sub = [s for s in scns if s["fault"] == fk]
            keep = set(id(s) for s in sub[::stride]) | set(id(s) for s in sub if s["op"].endswith(".stale") or s["k"] == 0)
            if fk == "werr":
                # a write error shows at the first write behind the loss point: every position at which the client writes (the input
                # of an exchange, the return once the echo is complete) is kept - each of those writes has an error path of its own
                wp = {o["name"]: faultlib.writepoints(o) for o in ops}
                keep |= set(id(s) for s in sub if s["k"] in wp[s["op"]])
            scns = [s for s in scns if s["fault"] != fk or id(s) in keep]
    results, died = faultlib.run_batches(ctx, scns, "C06", workers=12)
    tried = {}
    for i, sc in enumerate(scns):
        rr = results.get(i)
        ctx.count()
        if sc["k"] < sc["need"]:
            ctx.nontriv("%s/%s/%d/%s" % (sc["op"], sc["fault"], sc["k"], sc["seg"]))
        if rr is None:
            raise ToolError("no result for scenario %d" % i)
        if rr.get("died"):
            ctx.violation("C06:%s:%s:process-died" % (sc["op"], sc["fault"]),
                          "the process died (panic in a library goroutine) during this scenario:\n" + [d[1] for d in died if d[0] == i][0][-1800:], sc)
        elif not rr["ok"]:
            # V2: a candidate must reproduce when it runs alone (at most 4 re-executions per signature)
            st = tried.setdefault(rr["sig"], {"ok": 0, "tries": 0})
            if st["ok"]:
                ctx.violation(rr["sig"], rr["detail"], sc)
            elif st["tries"] < 4:
                st["tries"] += 1
                again = ctx.run_harness("isolated", [sc], args=["fault"], env={"VERIF_WORKERS": "1"})
                if again and (again[0].get("died") or not again[0].get("ok", True)):
                    st["ok"] += 1
                    ctx.violation(again[0].get("sig", rr["sig"]), again[0].get("detail", rr["detail"]), sc)
                else:
                    ctx.notes.setdefault("unreproduced_candidates", []).append({"scenario": sc, "first": rr["detail"][:300]})
    # the built-in transports: a real telnet connection over loopback and the standard SSH transport against the in-process
    # server; the peer closes the connection while the session is idle / while an operation waits for the device
    real = [{"transport": tr, "when": wh, "later": lt} for tr in ("telnet", "standard") for wh in ("idle", "inflight") for lt in (1, 3) for _ in range(2 if thorough else 1)]
    rres = ctx.run_harness("isolated", real, args=["c06real"], timeout=900, env={"VERIF_WORKERS": "4"})
    if len(rres) != len(real):
        raise ToolError("isolated c06real answered %d of %d:\n%s" % (len(rres), len(real), ctx.last_stderr[-2000:]))
    for rr in rres:
        sc = dict(real[rr["id"]], kind="real")
        ctx.count()
        ctx.nontriv("real:%s/%s/%d" % (sc["transport"], sc["when"], sc["later"]))
        if rr.get("toolerror") or rr.get("sig") == "TOOL":
            raise ToolError(rr.get("toolerror") or rr.get("detail"))
        if rr.get("died"):
            st = rr.get("stderr", "")
            ctx.violation("C06:real:%s:%s:process-died" % (sc["transport"], sc["when"]), "the process died during this scenario:\n" + st[-1800:], sc)
        elif not rr["ok"]:
            again = ctx.run_harness("isolated", [real[rr["id"]]], args=["c06real"], env={"VERIF_WORKERS": "1"})
            if again and (again[0].get("died") or not again[0].get("ok", True)):
                ctx.violation(again[0].get("sig", rr["sig"]) if not again[0].get("died") else "C06:real:%s:%s:process-died" % (sc["transport"], sc["when"]),
                              again[0].get("detail", rr.get("detail", "")) or again[0].get("stderr", "")[-1500:], sc)
            else:
                ctx.notes.setdefault("unreproduced_candidates", []).append({"scenario": sc, "first": rr.get("detail", "")[:300]})
    ctx.traces_validated = len(scns) + len(real)
    ctx.sample({"scenario": scns[len(scns) // 2]})
    ctx.notes["operations"] = [o["name"] for o in ops]
