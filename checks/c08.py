"""C08 — each NETCONF call gets the reply to its own request. NcSession.tla (ids, store, late replies, echo; all interleavings of delivery, fetch and expiry) and its terminal
states as scenarios (every reply-policy vector x echo), replayed on netconf.Driver for both versions."""
import json
import random
from vlib import ToolError

RL_CFG = """SPECIFICATION %s
CONSTANTS Loop = "%s"
 DataLines = FALSE
 Echo = %s
 N = %d
 PromptEcho = %s
 Notifs = %d
 Pre = %s
 SplitEcho = %s
 IdFrom = "%s"
 Errs = %d
 ErrLoop = "%s"
 Policies = {"now", "late", "never"}
INVARIANTS TypeOK OwnReply NoLoss
%s
CHECK_DEADLOCK FALSE
"""


def rl_cfg(spec, loop, echo, n, prompt, extra, notifs=0, pre=False, split=False, idfrom="reply", errs=0, errloop="continue"):
    return RL_CFG % (spec, loop, "TRUE" if echo else "FALSE", n, "TRUE" if prompt else "FALSE", notifs, "TRUE" if pre else "FALSE", "TRUE" if split else "FALSE", idfrom, errs, errloop, extra)


def notifications(ctx, thorough, rng):
    """Outside the listed properties (a notification is not a reply): NcReadLoop.tla with asynchronous notifications of a
    subscription. TLC: every notification is filed whole and in order when the transport does not echo (NotifExact); with an
    echoing transport it finds behaviours in which a notification still in the buffer is dropped together with the echo of
    the next request. The behaviours are replayed and the code must agree with the model about WHICH notifications survive;
    disagreements are recorded as notes, never as verdicts."""
    note = ctx.notes.setdefault("notifications_outside_property", {})
    r = ctx.tlc("MCNcReadLoop", cfg="rl.cfg", files={"rl.cfg": rl_cfg("Spec", "v2", False, 2, False, "INVARIANT NotifExact", notifs=2)}, workers=8, timeout=900)
    note["model_no_echo_NotifExact_holds"] = not r["violated"]
    r = ctx.tlc("MCNcReadLoop", cfg="rl.cfg", files={"rl.cfg": rl_cfg("Spec", "v2", True, 2, False, "INVARIANT NotifExact", notifs=1)}, workers=8, timeout=900)
    note["model_echo_NotifExact_violated"] = bool(r["violated"])
    scns = []
    for echo in (True, False):
        r = ctx.tlc("NcReadLoopScn", cfg="rls.cfg", files={"rls.cfg": rl_cfg("HSpec", "v2", echo, 1, False, "CONSTRAINT Emit", notifs=2 if thorough else 1)}, workers=8, timeout=1500)
        if r["violated"] or not r["ok"]:
            raise ToolError("NcReadLoopScn (notifications) failed:\n" + r["stdout"][-1500:])
        scns += r["scn"]
    lost = [s for s in scns if not all(s["nstored"])]
    kept = [s for s in scns if all(s["nstored"])]
    pick = rng.sample(lost, min(len(lost), 400 if thorough else 100)) + rng.sample(kept, min(len(kept), 400 if thorough else 60))
    out = []
    for i, s in enumerate(pick):
        d = dict(s)
        d["version"] = ("1.0", "1.1")[i % 2]
        d["burst"] = i % 4 < 2
        out.append(d)
    res = ctx.run_harness("isolated", out, args=["c08rl"], timeout=3000, env={"VERIF_WORKERS": "12"})
    agree = disagree = 0
    examples = []
    for rr in res:
        sc = out[rr["id"]]
        ctx.count()
        if rr.get("died"):
            ctx.violation("C08:readloop:process-died", "the process died replaying a read-loop behaviour with notifications:\n" + rr.get("stderr", "")[-1500:], sc)
            continue
        if not rr.get("ok") and rr.get("sig") not in (None, "TOOL"):
            # the replies of these behaviours are judged as always (own reply, nothing lost)
            again = ctx.run_harness("isolated", [sc], args=["c08rl"], env={"VERIF_WORKERS": "1"})
            if again and not again[0].get("ok") and again[0].get("sig") not in (None, "TOOL"):
                ctx.violation(again[0]["sig"], again[0]["detail"], sc)
            continue
        got = (rr.get("extra") or {}).get("nstored")
        if got is None:
            continue
        if list(got) == list(sc["nstored"]):
            agree += 1
        else:
            disagree += 1
            if len(examples) < 3:
                examples.append({"scenario": sc, "code_stored": got})
    note.update({"behaviours": len(scns), "predicting_a_lost_notification": len(lost), "replayed": len(out), "code_agrees": agree, "code_disagrees": disagree, "disagreements": examples})
    ctx.traces_validated += len(res)



def readloop(ctx, thorough):
    """NcReadLoop.tla: the read loop at the granularity of transport reads. (1) TLC: the current loop ("v2") keeps OwnReply /
    NoLoss / Done for every cut of the stream into reads, with and without echo, also when echoes are delayed past the
    timeout; the two older loop versions must be rejected (the model can tell them apart). (2) its behaviours replayed
    on the real loop through a scripted transport (vh c08rl)."""
    n = 4 if thorough else 3
    for echo in (True, False):
        r = ctx.tlc("MCNcReadLoop", cfg="rl.cfg", files={"rl.cfg": rl_cfg("Spec", "v2", echo, n, False, "PROPERTY Done")}, workers=8, timeout=1200)
        ctx.notes.setdefault("readloop_model", []).append({"loop": "v2", "echo": echo, "n": n, "distinct": r["distinct"]})
        if r["violated"] or not r["ok"]:
            ctx.violation("C08:model:NcReadLoop-invariant", "NcReadLoop.tla (Loop = v2, the current code) violates its properties:\n" + r["stdout"][-2500:], {"kind": "model"})
            return
    # a transient transport error: the loop hands it to the waiting (or next) call and goes on reading; a loop that leaves instead
    # must be rejected (every later call would wait for a reply that is never filed)
    for echo in (True, False):
        r = ctx.tlc("MCNcReadLoop", cfg="rl.cfg", files={"rl.cfg": rl_cfg("Spec", "v2", echo, 3, False, "PROPERTY Done", errs=1)}, workers=8, timeout=1200)
        if r["violated"] or not r["ok"]:
            ctx.violation("C08:model:NcReadLoop-transient-error", "NcReadLoop.tla (Loop = v2, one transient read error) violates its properties:\n" + r["stdout"][-2500:], {"kind": "model"})
            return
    r = ctx.tlc("MCNcReadLoop", cfg="rl.cfg", files={"rl.cfg": rl_cfg("Spec", "v2", False, 2, False, "PROPERTY Done", errs=1, errloop="exit")}, workers=8, timeout=600, expect_violation=True)
    if not r["violated"]:
        raise ToolError("NcReadLoop.tla accepts a read loop that leaves after a transient error: Done has become vacuous")
    for loop, prompt, what in (("v1", False, "one echo dropped per iteration"), ("v0", True, "remainder examined one iteration late")):
        r = ctx.tlc("MCNcReadLoop", cfg="rl.cfg", files={"rl.cfg": rl_cfg("Spec", loop, True, 3, prompt, "")}, workers=8, timeout=600)
        if not r["violated"]:
            raise ToolError("NcReadLoop.tla no longer rejects the older loop version %s (%s): the model lost its teeth" % (loop, what))
    scns = []
    for echo in (True, False):
        r = ctx.tlc("NcReadLoopScn", cfg="rls.cfg", files={"rls.cfg": rl_cfg("HSpec", "v2", echo, 2, False, "CONSTRAINT Emit")}, workers=8, timeout=1500)
        if r["violated"] or not r["ok"]:
            raise ToolError("NcReadLoopScn failed:\n" + r["stdout"][-1500:])
        scns += r["scn"]
    ctx.notes["readloop_behaviours"] = len(scns)
    # finer cuts: with the framing prefix of a message (1.1 chunk header line / 1.0 XML declaration) as a token of its own, one
    # request, every behaviour, both versions
    fine = []
    for echo in (True, False):
        r = ctx.tlc("NcReadLoopScn", cfg="rls.cfg", files={"rls.cfg": rl_cfg("HSpec", "v2", echo, 2 if thorough and not echo else 1, False, "CONSTRAINT Emit", pre=True)}, workers=8, timeout=1500)
        if r["violated"] or not r["ok"]:
            raise ToolError("NcReadLoopScn (Pre) failed:\n" + r["stdout"][-1500:])
        fine += r["scn"]
    ctx.notes["readloop_behaviours_with_prefix_token"] = len(fine)
    # the echo of a request in two pieces (its head carries the request's message-id), a late reply may be read in between: the
    # model with the id taken from rpc-reply start tags only (fix 2e0bedd) must hold, with "the first message-id attribute in the
    # buffer" it must be rejected; behaviours are sampled by TLC's simulator (the exhaustive set has millions)
    r = ctx.tlc("MCNcReadLoop", cfg="rl.cfg", files={"rl.cfg": rl_cfg("Spec", "v2", True, 3 if thorough else 2, False, "PROPERTY Done", split=True)}, workers=8, timeout=1500)
    if r["violated"] or not r["ok"]:
        ctx.violation("C08:model:NcReadLoop-invariant", "NcReadLoop.tla (split echo, id from rpc-reply start tags) violates its properties:\n" + r["stdout"][-2500:], {"kind": "model"})
        return
    r = ctx.tlc("MCNcReadLoop", cfg="rl.cfg", files={"rl.cfg": rl_cfg("Spec", "v2", True, 2, False, "", split=True, idfrom="any")}, workers=8, timeout=600)
    if not r["violated"]:
        raise ToolError("NcReadLoop.tla no longer rejects taking the message-id from anywhere in the buffer: the model lost its teeth")
    r = ctx.tlc("NcReadLoopScn", cfg="rls.cfg", files={"rls.cfg": rl_cfg("HSpec", "v2", True, 2, False, "CONSTRAINT Emit", split=True)}, workers=1,
                simulate="num=%d" % (12000 if thorough else 1500), depth=80, timeout=1500)
    seen, split = set(), []
    for s2 in r["scn"]:
        k = json.dumps(s2, sort_keys=True)
        if k not in seen:
            seen.add(k)
            split.append(s2)

    def between(s2):
        for e in s2["h"]:
            if e["a"] == "read":
                ks = [(t["k"], t["i"]) for t in e["toks"]]
                heads = [i for k2, i in ks if k2 == "rpch"]
                if heads and any(k2 in ("hdr", "body", "sbody", "end") and i != heads[-1] for k2, i in ks) and not any(k2 == "rpc" and i == heads[-1] for k2, i in ks):
                    return True
        return False
    hot = [s2 for s2 in split if between(s2)]
    cold = [s2 for s2 in split if not between(s2)]
    if not hot:
        raise ToolError("the simulator produced no behaviour with a reply between the two pieces of an echo (%d behaviours)" % len(split))
    ctx.notes["readloop_split_echo"] = {"sampled": len(split), "with_a_reply_between_the_pieces": len(hot)}
    fine2 = hot[:(2000 if thorough else 150)] + cold[:(400 if thorough else 50)]
    k1 = [s for s in scns if "v1" in s["kills"]]
    k0 = [s for s in scns if "v0" in s["kills"] and "v1" not in s["kills"]]
    rest = [s for s in scns if not s["kills"]]
    if not k1 or not k0:
        raise ToolError("no behaviour distinguishes the older loop versions (%d / %d)" % (len(k1), len(k0)))
    rng = random.Random(ctx.seed)
    pick = list(k1)
    pick += k0 if thorough else rng.sample(k0, min(len(k0), 150))
    pick += rng.sample(rest, min(len(rest), 4000 if thorough else 200))
    out = []
    for i, s in enumerate(pick):
        d = dict(s)
        d["version"] = ("1.0", "1.1")[i % 2]
        d["burst"] = bool(s["kills"]) or (i % 4 < 2)
        out.append(d)
        if thorough and s["kills"]:
            d2 = dict(d)
            d2["version"] = ("1.1", "1.0")[i % 2]
            out.append(d2)
    for i, s2 in enumerate(fine2):
        d = dict(s2)
        d["version"] = ("1.0", "1.1")[i % 2]
        d["burst"] = i % 4 >= 2
        out.append(d)
    for i, s2 in enumerate(fine):
        for ver in ("1.0", "1.1"):
            d = dict(s2)
            d["version"] = ver
            d["burst"] = i % 2 == 0
            out.append(d)
    ctx.notes["readloop_replayed"] = {"kills_v1": len(k1), "kills_v0": len(k0) if thorough else min(len(k0), 150), "total": len(out)}
    res = ctx.run_harness("isolated", out, args=["c08rl"], timeout=3000, env={"VERIF_WORKERS": "12"})
    if len(res) != len(out):
        raise ToolError("isolated c08rl answered %d of %d:\n%s" % (len(res), len(out), ctx.last_stderr[-2000:]))
    tries = {}
    for rr in res:
        ctx.count()
        sc = out[rr["id"]]
        ctx.nontriv("rl/%s" % rr["id"])
        if rr.get("toolerror") or rr.get("sig") == "TOOL" or rr.get("died"):
            again = ctx.run_harness("isolated", [sc], args=["c08rl"], env={"VERIF_WORKERS": "1"})
            if again and again[0].get("ok"):
                continue
            if again and again[0].get("died"):
                ctx.violation("C08:readloop:process-died", "the process died replaying a read-loop behaviour:\n" + again[0].get("stderr", "")[-1500:], sc)
                continue
            raise ToolError("c08rl: %s" % json.dumps(again[0] if again else rr)[:600])
        if not rr["ok"]:
            kind = rr["sig"]
            st = tries.setdefault(kind, {"ok": 0, "tries": 0})
            if st["ok"]:
                ctx.violation(rr["sig"], rr["detail"], sc)
            elif st["tries"] < 4:
                st["tries"] += 1
                again = ctx.run_harness("isolated", [sc], args=["c08rl"], env={"VERIF_WORKERS": "1"})     # V2
                if again and not again[0].get("ok") and again[0].get("sig") not in (None, "TOOL"):
                    st["ok"] += 1
                    ctx.violation(again[0]["sig"], again[0]["detail"], sc)
                else:
                    ctx.notes.setdefault("unreproduced_candidates", []).append({"scenario": sc, "first": rr["detail"][:300]})
    ctx.traces_validated += len(res)
    notifications(ctx, thorough, rng)


CFG = """SPECIFICATION Spec
CONSTANT N = %d
INVARIANTS IdsIncrease OwnReply NoLoss ServerSawAll
PROPERTY Done
CONSTRAINT Emit
CHECK_DEADLOCK FALSE
"""


def run(ctx):
    thorough = ctx.tier == "thorough"
    ctx.rule = ("exhaustive: every vector of policies {now, late, late-with-the-echo-delayed-too, never, write-error-after-the-request-went-out} for N = 3 (quick) / 4 (thorough) requests x echoing / non-echoing transport, each for NETCONF 1.0 and 1.1 under "
                "1 / 3 read segmentations; non-trivial = at least one request is answered late or never; distinct by scenario x version x segmentation")
    ctx.assumptions += ["a late reply is released when the server sees the next request (or at the end), in reads of its own; calls answered late or never use a 250 ms per-operation timeout, the others 4 s",
                        "one read never carries bytes of two server messages (the echo of the client's own request is not a server message)",
                        "read-loop behaviours (NcReadLoop.tla, N = 2): every behaviour on which one of the two older loop versions loses a reply is replayed (quick: all v1-killers + 150 v0-killers), the rest by seeded sampling; "
                        "consecutive reads of a behaviour are handed to the library together (burst) or one per settled loop iteration"]
    if ctx.replay:
        rp = json.load(open(ctx.replay))["scenario"]
        if rp.get("kind") == "model":
            readloop(ctx, False)
            return
        if "h" in rp:
            for r in ctx.run_harness("isolated", [rp], args=["c08rl"], env={"VERIF_WORKERS": "1"}):
                ctx.count()
                if r.get("died"):
                    ctx.violation("C08:readloop:process-died", r.get("stderr", "")[-1500:], rp)
                elif r.get("sig") == "TOOL":
                    raise ToolError(r["detail"])
                elif not r["ok"]:
                    ctx.violation(r["sig"], r["detail"], rp)
            return
        for r in ctx.run_harness("c08", [rp]):
            ctx.count()
            if not r["ok"]:
                ctx.violation(r["sig"], r["detail"], rp)
        return
    n = 4 if thorough else 3
    r = ctx.tlc("NcSession", cfg="c.cfg", files={"c.cfg": CFG % n}, workers=8, timeout=1200)
    if r["violated"]:
        ctx.violation("C08:model:NcSession-invariant", "NcSession.tla violates its invariants:\n" + r["stdout"][-1500:], {"kind": "model"})
    seen, scns = set(), []
    for s in r["scn"]:
        key = json.dumps(s, sort_keys=True)
        if key not in seen:
            seen.add(key)
            scns.append(s)
    if len(scns) != 5 ** n + 4 ** n:
        raise ToolError("NcSession produced %d distinct scenarios, expected %d" % (len(scns), 5 ** n + 4 ** n))
    # a long history in one session (beyond the bound of the exhaustive run; the law is the same - OwnReply, NoLoss): eighteen
    # calls that time out with their replies arriving late (filed, never fetched), then calls that are answered at once
    longs = [["late"] * 16 + ["now", "now"], ["late"] * 18 + ["now", "late", "now"], ["late", "now"] * 20]
    for k, pol in enumerate(longs):
        scns.append({"n": len(pol), "echo": k == 1, "policy": pol, "outcome": ["timeout" if p == "late" else "ok" for p in pol], "ids": list(range(101, 101 + len(pol)))})
    res = ctx.run_harness("c08", scns, timeout=3000)
    per = 6 if thorough else 2
    if len(res) != len(scns) * per:
        raise ToolError("c08 answered %d of %d; stderr:\n%s" % (len(res), len(scns) * per, ctx.last_stderr[-3000:]))
    confirmed = {}
    for rr in res:
        ctx.count()
        if rr.get("nontrivial"):
            ctx.nontriv("%s/%s" % (rr["id"], rr["variant"]))
        if not rr["ok"]:
            rp = dict(scns[rr["id"]])
            rp["version"], rp["seg"] = rr["variant"].split("/")
            rp["idx"] = rr["id"]
            kind = rr["sig"].split(":")[-1]
            st = confirmed.setdefault(kind, {"ok": 0, "tries": 0})
            if st["ok"]:
                ctx.violation(rr["sig"], rr["detail"], rp)
            elif st["tries"] < 4:
                st["tries"] += 1
                again = ctx.run_harness("c08", [rp])        # V2: candidates must reproduce alone
                if again and not again[0]["ok"]:
                    st["ok"] += 1
                    ctx.violation(again[0]["sig"], again[0]["detail"], rp)
                else:
                    ctx.notes.setdefault("unreproduced_candidates", []).append({"scenario": rp, "first": rr["detail"][:300]})
    ctx.exhaustive = True
    ctx.traces_validated = len(res)
    ctx.sample({"scenario": scns[50]})
    readloop(ctx, thorough)
