"""C08 — each NETCONF call gets the reply to its own request. NcSession.tla (ids, store, late replies, echo; all interleavings of delivery, fetch and expiry) and its terminal
states as scenarios (every reply-policy vector x echo), replayed on netconf.Driver for both versions."""
import json
from vlib import ToolError

CFG = """SPECIFICATION Spec
CONSTANT N = %d
INVARIANTS IdsIncrease OwnReply NoLoss ServerSawAll
PROPERTY Done
CONSTRAINT Emit
CHECK_DEADLOCK FALSE
"""


def run(ctx):
    thorough = ctx.tier == "thorough"
    ctx.rule = ("exhaustive: every vector of policies {now, late, never, write-error-after-the-request-went-out} for N = 3 (quick) / 4 (thorough) requests x echoing / non-echoing transport, each for NETCONF 1.0 and 1.1 under "
                "1 / 3 read segmentations; non-trivial = at least one request is answered late or never; distinct by scenario x version x segmentation")
    ctx.assumptions += ["a late reply is released when the server sees the next request (or at the end), in reads of its own; calls answered late or never use a 250 ms per-operation timeout, the others 4 s",
                        "one read never carries bytes of two server messages (the echo of the client's own request is not a server message)"]
    if ctx.replay:
        rp = json.load(open(ctx.replay))["scenario"]
        for r in ctx.run_harness("c08", [rp]):
            ctx.count()
            if not r["ok"]:
                ctx.violation(r["sig"], r["detail"], rp)
        return
    n = 4 if thorough else 3
    r = ctx.tlc("NcSession", cfg="c.cfg", files={"c.cfg": CFG % n}, workers=8, timeout=1200)
    if r["violated"]:
        ctx.violation("C08:model:NcSession-invariant", "NcSession.tla violates its invariants:\n" + r["stdout"][-1500:], {"kind": "model"})
    seen, scns = set(), []
    for s in r["scn"]:
        key = json.dumps(s, sort_keys=True)
        if key not in seen:
            seen.add(key)
            scns.append(s)
    if len(scns) != 2 * 4 ** n:
        raise ToolError("NcSession produced %d distinct scenarios, expected %d" % (len(scns), 2 * 4 ** n))
    res = ctx.run_harness("c08", scns, timeout=3000)
    per = 6 if thorough else 2
    if len(res) != len(scns) * per:
        raise ToolError("c08 answered %d of %d; stderr:\n%s" % (len(res), len(scns) * per, ctx.last_stderr[-3000:]))
    confirmed = {}
    for rr in res:
        ctx.count()
        if rr.get("nontrivial"):
            ctx.nontriv("%s/%s" % (rr["id"], rr["variant"]))
        if not rr["ok"]:
            rp = dict(scns[rr["id"]])
            rp["version"], rp["seg"] = rr["variant"].split("/")
            kind = rr["sig"].split(":")[-1]
            st = confirmed.setdefault(kind, {"ok": 0, "tries": 0})
            if st["ok"]:
                ctx.violation(rr["sig"], rr["detail"], rp)
            elif st["tries"] < 4:
                st["tries"] += 1
                again = ctx.run_harness("c08", [rp])        # V2: candidates must reproduce alone
                if again and not again[0]["ok"]:
                    st["ok"] += 1
                    ctx.violation(again[0]["sig"], again[0]["detail"], rp)
                else:
                    ctx.notes.setdefault("unreproduced_candidates", []).append({"scenario": rp, "first": rr["detail"][:300]})
    ctx.exhaustive = True
    ctx.traces_validated = len(res)
    ctx.sample({"scenario": scns[50]})
