"""One entry per property that has a check; bin/mkmanifest turns this into MANIFEST.json."""
CHECKS = {
    "C20": dict(
        category="model_checking", design_ref="DESIGN.md §5 C20, §11",
        technique="TLA+/TLC: PlusCal statement-level model of util.Queue checked exhaustively; all sequential histories of the "
                  "atomic abstraction replayed on the real queue; recorded concurrent histories validated for linearizability by a TLC trace spec",
        text="Queue.tla explores every interleaving of one producer and one consumer at statement granularity (Lossless, DepthIsLen, "
             "NoPanic, token protocol, termination). QueueSeq.tla enumerates every sequential history up to a bound with the abstract results "
             "and the harness replays each on util.Queue comparing every return value. Histories recorded from two real goroutines under the race "
             "detector and several GOMAXPROCS values are checked for linearizability against the same abstraction by QueueTrace.tla. Added in round 6: the queue as the channel's read loop feeds it (producer far ahead of the consumer, Read and ReadAll) from a transport that hands out the same buffer on every Read (vh c20chan). Round 8: a transient read error while chunks are still queued.",
        note="Trusted: TLC, the Go race detector, the mutex-ordered event log as real-time order. Bounds: 3 produced chunks x 5-6 consumer ops in the "
             "statement model; sequential histories of length 5 (quick) / 7 (thorough); 24 / 120 recorded concurrent histories."),
}
CHECKS["C01"] = dict(
    category="model_checking", design_ref="DESIGN.md §5 C01, §11",
    technique="TLA+/TLC: Channel.tla (transport read loop, queue, echo wait, prompt wait, post-processing) checked for every cut of the device stream; "
              "TLC-generated scripted sessions with predicted results replayed on the real generic/network drivers under varied segmentations and delays",
    text="Channel.tla models one CLI session at the granularity of the code's critical sections with the segmentation of the byte stream as an existential "
         "choice, and TLC shows Aligned / DeviceGot / NoForeign / termination for every cut, read size, depth, strip/exact/echo style within the bounds. "
         "ChannelScn.tla generates scripted sessions that satisfy the property's preconditions together with the results the contract predicts; the harness "
         "drives generic.Driver and network.Driver (SendCommand, SendCommands) against a causal scripted device under 4-8 segmentation/delay variants and compares "
         "Result/RawResult and the lines the device received. A deviation of the code (echo wait satisfied by stale bytes) is modelled as Text!EarlyEcho and listed as a known finding. Histories: the first send times out on a busy device, its late bytes arrive while the driver is being closed (forced at yield point C_wait), the same object is opened again and the command repeated. Commands from LF / CR LF files; consoles whose return key is a carriage return. OpOptions.tla (shared stage): StripPrompt / ExactMatchInput / Eager land whatever precedes them in the operation's option list. Added in rounds 7-8: an echo that the terminal breaks over two lines (default search depth); save / restore cursor in the escape catalogue (found a genuine defect, fix 0f6e27b).",
    note="Trusted: TLC; the scripted device (causal, never cuts inside an escape sequence); concretisation of the abstract alphabet. Bounds: 2 commands, outputs <= 11 symbols, "
         "read sizes {1,3,all}, queue <= 3 in the exhaustive config; 260 (quick) / 2500 (thorough) generated sessions x 4 / 8 variants.")
CHECKS["C13"] = dict(
    category="model_checking", design_ref="DESIGN.md §5 C13, §11",
    technique="TLA+/TLC: FailMark.tla enumerates every (outputs, driver list, operation list, stop flag) combination with the predicted observables; each is replayed on every "
              "send-commands / send-configs variant of the real drivers and the responses and device log are compared",
    text="The failure-marking contract (list in force, substring scan on the post-processed output, first matching string, aggregate = exactly the failed members, "
         "stop-on-failed = nothing transmitted after the first failed command, collapsed config response) is a TLA+ module whose whole scenario space up to the bound is "
         "enumerated by TLC (sanity invariants StopIsPrefix, OpWins, AggregateExact) and replayed on generic/network SendCommands, SendCommandsFromFile, SendConfigs, "
         "SendConfigsFromFile and SendConfig; Failed flags, error strings, aggregate members, response counts, collapsed result and the lines the device received are compared. Further: the driver-level list given twice (the later replaces), an earlier operation with a list of its own. OpOptions.tla: FailedWhenContains / StopOnFailed.",
    note="Trusted: TLC, the scripted device. Exhaustive over lists of <= 3 (quick) / 4 (thorough) outputs from 5-7 templates x 3 driver lists x 3 operation lists x stop.")
CHECKS["C02"] = dict(
    category="model_checking", design_ref="DESIGN.md §5 C02, §11",
    technique="TLA+/TLC: strict and lenient RFC 6242 decoders as TLA+ operators; TLC enumerates every byte-class string up to a bound and every single edit of every legal "
              "frame with its class and decoded data, replayed on response.NetconfResponse.Record; generated replies (payload, chunk partition, version) replayed through the whole NETCONF driver",
    text="NcFraming.tla defines Strict (the RFC grammar), Lenient (most permissive sensible reading) and Class = legal / malformed / grey; TLC checks encoder/decoder round trip for every "
         "payload and partition and enumerates all raw strings <= 6-7 symbols and all single-symbol edits (delete, insert, replace, truncate) of all legal frames of payloads <= 3-4. "
         "The harness feeds each to the public Record with poisoned spare capacity: no panic, no byte that is not in the input, legal => exact payload and not failed, malformed => failed. "
         "NcReplyScn.tla generates replies (multi-byte runes, '#', digits, newlines, rpc-error markers cut by chunk boundaries, XML declaration) that go through a server model and "
         "netconf.Driver.Get under several read segmentations; Result and Failed are compared with the prediction. Added in round 6: a first chunk that ends inside the XML declaration; the known-finding class (a line '##' in view at a read boundary) is decided on the reads that really happened, so a payload line that merely starts with '##' is judged like any other. Round 8: one session in four over a transport that reuses its read buffer.",
    note="Trusted: TLC, the server model's framing. Byte classes limit chunk sizes to <= 22 in the exhaustive tier. Two genuine defects were repaired (fix: commits 9d3f9ee, 28b8a29); "
         "the read loop's '^##$' delimiter weakness is a recorded known finding.")
CHECKS["C05"] = dict(
    category="model_checking", design_ref="DESIGN.md §5 C05, §11",
    technique="TLA+/TLC: Stall.tla models an operation as device-paced exchanges with Stall/Expire/CatchUp environment actions, checked for every cut and every stall point; "
              "its predictions for the real operations' lengths are replayed as fault enumeration (device goes silent after byte k) on 18 real operations",
    text="Stall.tla: the outcome of an operation under a stall after byte k is a function of (operation, k) for every segmentation (invariant OutcomeIsFunction), success is never partial, the "
         "operation never stays stuck (mc mode over length-compressed operations, exhaustive). In emit mode TLC prints the predicted class for every byte of every standard operation, whose exchange "
         "structure is exported from the device side of a fault-free run. The harness stalls the scripted device at that byte for generic/network/NETCONF operations and in-channel logins and checks: "
         "timeout-class error (privilege class allowed for an implicit privilege change), duration within effective timeout + slack and not before it, per-operation over connection-wide precedence "
         "(shorter, longer, zero = maximum), a success only with the complete result, and after catch-up the next exchange returns its own result. Recovery is also judged after any written return on the privilege-aware driver, and after close/reopen of the same object (NETCONF replies carry the connection number). OpOptions.tla: the per-operation timeout lands in the channel and NETCONF layers whatever precedes it. Round 7: help output whose lines end like a prompt with a search depth just above the longest line, every byte a stall point.",
    note="Trusted: TLC; wall-clock bounds (400 ms slack on 90-260 ms timeouts, candidates re-executed alone before being reported); the device-side exchange lengths. Quick: thresholds +-1 and every 3rd/5th byte; thorough: every byte x 3 segmentations.")
CHECKS["C06"] = dict(
    category="model_checking", design_ref="DESIGN.md §5 C06, §11",
    technique="TLA+/TLC: Stall.tla with Lose actions (EOF / persistent read error / write error at byte k) checked for every cut; predictions replayed as fault enumeration on the same 18 real "
              "operations in isolated child processes so that a panic in a library goroutine is observed and attributed",
    text="Same specification as C05 with the connection lost at byte k: the operation in flight ends with an error (never a timeout, never a partial success), for every cut. The harness makes the "
         "scripted transport return io.EOF or a persistent error from byte k on (with writes failing, or still accepted as on a half-closed connection), or fail writes, for every standard operation; it "
         "checks prompt error (< 1 s with a 4 s timeout), later operations failing fast, completeness of any success, and process survival (each scenario runs in a child process). Added in rounds 6-7: the built-in telnet and standard transports with a peer that closes the connection while idle / while an operation waits (vh c06real, one process per scenario); one lost session in three is opened again without a Close in between (Reopen.tla OpenOnOpen); help output whose lines end like a prompt with every byte a loss point.",
    note="Trusted: TLC, the loss model of the scripted transport. Sessions are not closed after a loss here (closing in those states is C07). One genuine defect found and repaired (31f9756).")
CHECKS["C07"] = dict(
    category="model_checking", design_ref="DESIGN.md §5 C07, §12",
    technique="TLA+/TLC: PlusCal model of the shutdown protocol with explicit Go channel semantics, labels = yield points of the code; every interleaving over feed x closes x close behaviour x driver; "
              "orderings of pairs of yield points forced on the real goroutines through build-tag hooks in every connection state, observed from outside (Close returns, process death, goroutine census, race detector)",
    text="Lifecycle.tla (reader, closer, helper, in-flight operation, NETCONF reader) is checked for NoPanic, CloseReturns, NoLeak, TransportClosed over all 72 matrix cells in one run; the pinned commit's "
         "protocol (v0) is kept in the module and must be rejected (vacuity guard). TLC found the helper-goroutine leak before any test did. The harness drives generic/network/NETCONF sessions into 8 "
         "connection states (idle, EOF, persistent error, data/error/EOF arriving during Close, operation in flight, error already reported), closes once or twice, with 3 transport close behaviours, and "
         "delays the goroutine reaching yield point b until a was reached; each run is a child process; verdicts come only from observable behaviour. Further states: the same object opened "
         "again, a transport Close that reports an error, two concurrent Closes held at the entry of the shutdown. Reopen.tla models what one driver object carries from one session into the next "
         "(queue, read under way, read loops, capability list, delimiter, message-ids and store, cached privilege level): the invariant Clean holds for the resets the code makes and is violated by "
         "each of 9 alternative decisions (among them: Open on a session that is still up goes straight on); the counterexamples are replayed as reopen histories by the harnesses of C01, C03, C04, C05, C06, C08, C09, C10 and C18. "
         "LifecycleTrace.tla (direction V): the yield sequences recorded from the real goroutines of every run on the scripted pipe (about 900 per quick run) are validated against Lifecycle.tla - a model step is a "
         "silent step that must be followed by exactly the hook events the code emits; a rejection is model drift (reported in the evidence, not a verdict); corrupted logs must be rejected (binding guard). Rounds 7-8: a 3 ms read delay (Close in bounded time; fix d3b76cd); the standard SSH transport after the device ended the session (the connection must be closed; fix 8588b3d).",
    note="Trusted: TLC; the gate (15 ms bound) as scheduler; runtime.Stack census (a reader stuck in a transport Read that never returns is not a leak). Genuine defects repaired by fix: commits 31f9756, 46f498f, 9f0231e, 0de6c00, 3360717, a94e4ce, 2c64539, ac60d8f, 2ec7ac6, e610bf3, 9754585 (with C06), d3b76cd, 8588b3d.")
CHECKS["C04"] = dict(
    category="model_checking", design_ref="DESIGN.md §5 C04, §11",
    technique="TLA+/TLC: Privilege.tla models the AcquirePriv loop (prompt, classify with cache/target/map-order rules, one step) and is checked against the tree-path contract for every rooted "
              "labelled tree; PrivScn.tla generates trees x operation sequences with the device-side expectation, replayed on network.Driver against a device whose modes form the tree",
    text="Privilege.tla: for every rooted labelled tree on 4 (thorough 5) levels, every set of authenticated edges, start mode, cold/warm cache and target, the loop ends at the target having issued "
         "exactly the escalate/de-escalate commands of the unique tree path, each in the mode it is a transition of (Reached, AlongPath, InPlace, NoError, termination). PrivScn.tla draws trees (incl. sibling "
         "levels that share one prompt, told apart only by the cached level), default/configuration levels, start modes and 1-4 operations (acquire, command, configs, configs at a level, config, interactive, "
         "unknown target); the harness compares, per operation, the (mode, state, line) log of the device - commands, secrets in the password state, payload lines - the error class and the final mode. Further operation kinds: configuration lines from a file with a level option, an unknown level by option, a late answer followed by close/open (reopen-late), options of other layers in front of the level option. OpOptions.tla: network.PrivilegeLevel. Round 7: after a reopen a plain command (which trusts the cached level) every other time; the transport's Close reports an error in half of the reopens.",
    note="Trusted: TLC, the device model (rejects and logs lines arriving in the wrong mode). Exact prompts except for leaf twins; the device changes mode only through the driver; secondary secret configured.")
CHECKS["C09"] = dict(
    category="model_checking", design_ref="DESIGN.md §5 C09, §11",
    technique="TLA+/TLC: NcHello.tla holds the version decision table (checked against the property's wording as an invariant) and enumerates the whole scenario space; every scenario is "
              "replayed on netconf.Driver.Open against a server model that decodes the client's stream strictly",
    text="All 1296 combinations of advertised base versions x preferred version x hello layout (pretty, single line, with declaration) x namespace prefix x extra capabilities (incl. URNs that only contain "
         "a base capability as a substring) x session-id (none, small, 2^32-1) x echoing transport are generated by TLC with the predicted outcome. The harness checks Open's error class, the transport "
         "being closed on failure, SelectedVersion, ServerCapabilities(), SessionID(), the client's hello as received (exactly one, end-of-message framing, exactly base:<selected>), and that the first RPC "
         "and its reply use the selected framing. Added in round 6: namespace prefixes with digits, underscore and capitals; hello layout 'wrapped' (the text of every capability on a line of its own - found a genuine defect, fix 9947d75). Round 8: some cells over a transport that logs in inside the byte stream (found a genuine defect, fix 4f318c0); two line feeds behind the delimiter.",
    note="Trusted: TLC, the server model. Exhaustive over the stated dimensions; 1 (quick) / 3 (thorough) read segmentations per scenario. One genuine defect repaired (prefixed session-id).")
CHECKS["C08"] = dict(
    category="model_checking", design_ref="DESIGN.md §5 C08, §11",
    technique="TLA+/TLC: NcSession.tla (message-id counter, server reply policies now/late/never/write-error, echo, store keyed by id, fetch, expiry) checked for every policy vector and interleaving; "
              "its terminal states are replayed as sessions on netconf.Driver for both framings with the server model implementing the policies; NcReadLoop.tla refines delivery to the read loop's "
              "decision procedure over every cut of the token stream into reads (TLC: OwnReply/NoLoss/Done), and its behaviours are replayed read by read through a scripted transport",
    text="NcSession.tla shows ids 101,102,..., OwnReply, NoLoss and termination for every vector of reply policies over 3 (quick) / 4 (thorough) requests, echoing or not, for every order of delivery, fetch and "
         "expiry. Every terminal state is a scenario: the harness runs the calls (get, get-config, rpc, lock) against a server model that answers at once, holds the reply until the next request (delivered in "
         "reads of its own, possibly together with the echo of that request), never answers, or lets the client's write of the trailing return fail after the request went out; it compares the message-id the "
         "server decoded for each request with the reply each call returned (own id and request number), the error class of unanswered calls, and the id sequence. NcReadLoop.tla models the read loop itself "
         "(buffer, delimiter test, echo removal, filing under the first id) against every segmentation allowed by the quantifier, including echoes delayed past a timeout; the older loop versions must be rejected by TLC; "
         "every behaviour (N = 2) on which an older loop version would lose a reply, plus a seeded sample of the rest, is replayed on netconf.Driver with reads released in the behaviour's order, followed by a probe call. Epilogues: a second session on the same driver (late reply delivered first), one transient read error followed by three calls, replies that mention a subscription (token sbody). NcReadLoop.tla models the transient error (ReadErr / TakeErr; a loop that leaves is rejected). Round 7: one session in four over a transport that delivers CR LF for LF (a read may end between the two); three long histories (sixteen and more late replies, then calls answered at once).",
    note="Trusted: TLC, the server model (strict decoder, read boundaries at server-message ends). Calls answered at once have a 4 s deadline so NoLoss is not a timing race; candidates are re-executed alone. "
         "Two genuine defects found and repaired (reply lost when a late reply shares a read with the echo of the next request; the same with two echoes pending - the second one found by TLC first).")
CHECKS["C03"] = dict(
    category="model_checking", design_ref="DESIGN.md §5 C03, §11",
    technique="TLA+/TLC trace validation: NcReqScn.tla generates NETCONF sessions, the harness records every request as the server model received it, and NcRequestTrace.tla (reusing NcFraming!Strict) "
              "validates each recorded request: framing with exact byte counts, message-id sequence, round trip to Input/FramedInput, well-formedness, expected element tree, option effects",
    text="Sessions (1.0/1.1 x forced self-closing x header x 2-6 operations out of 17 kinds with 11 argument kinds incl. multi-byte, 5 kB, attributes, namespaces, empty elements, comment/CDATA/PI before a "
         "closing tag) are executed against the server model, whose strict stream decoder also reports separator errors between consecutive messages. Each request becomes one trace event carrying the byte "
         "classes of the wire message and the projections computed by the harness (encoding/xml token tree of the wire vs of the document the RFC prescribes for that call); TLC accepts the trace only if "
         "every conjunct of the request contract holds; a rejected session is reported with the failing conjunct and the remaining sessions are still validated. Further: per cent signs in caller content; a session whose driver had an earlier session with a peer offering the other base version (the framing follows this session's two hellos). OpOptions.tla: the NETCONF operation options land whatever precedes them. Round 7: a self-closed element with attributes inside a parent of the same name (found a genuine defect, fix da84f35).",
    note="Trusted: TLC, encoding/xml as the XML projection, the server model's strict decoder. 150 (quick) / 1200 (thorough) sessions.")
CHECKS["C10"] = dict(
    category="model_checking", design_ref="DESIGN.md §5 C10, §11",
    technique="TLA+/TLC: Auth.tla enumerates every login script up to a bound for the telnet and the ssh dialogue style, checks the retry bound and credential/prompt pairing at every step and predicts the "
              "outcome; each dialogue is replayed on generic.Driver.Open through a transport that declares in-channel authentication",
    text="All well-formed scripts over banner / ask user / ask password / ask passphrase / reject / ssh failure line / shell / silence / peer closes the stream (<= 5 steps quick, 6 thorough; ~3.7k dialogues) "
         "are generated with Bounded, Paired, OkIffShell as invariants and the predicted outcome (ok, auth, connection, timeout) and answers. The harness plays the script from a login front end (prompt "
         "spellings and error lines rotated), and compares Open's error class, the (state, line) log of the device - each credential only in its own question, at most twice - the transport being "
         "closed on every failure, and that the first GetPrompt after a successful login still finds the prompt read during login. Histories: admitted login, close while the device prints a late message and redraws its prompt (yield point C_wait), open again - the second login is a login like the first. Empty password / passphrase. Rounds 6-8: a device that asks in its own words with the patterns coming from a platform definition's options block; a reopen with late bytes coming back from the read that was under way after Close returned.",
    note="Trusted: TLC, the login front end. Timeout 300 ms; a mismatching outcome must reproduce when the dialogue is re-executed alone. Banners contain nothing a prompt pattern accepts.")
CHECKS["C11"] = dict(
    category="model_checking", design_ref="DESIGN.md §5 C11, §11",
    technique="TLA+/TLC trace validation: the dialogues of Auth.tla and InteractiveScn.tla (incl. injected failures around the secret and escalation inside a network on-open hook) run with a debug logger "
              "and a channel log; LogTrace.tla requires the taint set of every recorded log message to be empty",
    text="Auth.tla carries the taint invariant NoTaint (every credential write is redacted); the binding records every message given to a debug-level logger and the whole channel log for ~1.2k "
         "sessions (login dialogues with 0-3 rejections, failures and timeouts; hidden interactive inputs; escalation that asks / grants / refuses / rejects; the write of the secret failing; the connection "
         "breaking right after the secret) and TLC validates LogTaint = {} at every event. Secrets contain format verbs and regex metacharacters.",
    note="Trusted: TLC; substring search as the taint projection; the device model never echoes secrets (assumption stated by the property).")
CHECKS["C12"] = dict(
    category="model_checking", design_ref="DESIGN.md §5 C12, §11",
    technique="TLA+/TLC trace validation: InteractiveScn.tla generates dialogues, plain commands and escalations; the device model produces its reactions after a delay and records how much of its stream had "
              "been delivered when each client write arrived; PacingTrace.tla (the enabling conditions of Stall.tla's write actions) validates every write",
    text="For every recorded write TLC checks: an event's input only after the previous exchange's expected response (or prompt) was delivered; a plain command's return only after its echo was delivered "
         "unless eager; the secondary secret only while the device is in its password state (never when the device grants or refuses without asking); a successful interactive result contains the whole "
         "dialogue. Dialogues include hidden inputs, responses preceded by a prompt-looking line, early completion by a completion pattern, generic and network drivers. OpOptions.tla: CompletePatterns / InterimPromptPatterns land whatever precedes them. Rounds 6-8: the last words of a dialogue the device ends early belong to the result; a console log line behind the prompt after an escalation granted or refused without asking.",
    note="Trusted: TLC; device-side exchange lengths; reactions delayed 0.3-2.3 ms so that typing ahead is observable. The property does not require an echo wait for interactive events, so none is demanded.")
CHECKS["C18"] = dict(
    category="model_checking", design_ref="DESIGN.md §5 C18, §11",
    technique="TLA+/TLC trace validation: CallbackScn.tla generates callback lists and device dialogues; every firing (index, argument), the delivered stream and the outcome are recorded; CallbackTrace.tla "
              "decides membership in the firing rule with delivery boundaries existentially quantified",
    text="For each recorded firing TLC checks that the argument is the delivered stream since the last reset up to some delivery boundary (boundaries never move backwards), that the callback's trigger "
         "(contains with default case-insensitivity / regex class, and not the not-contains text) holds on it and no earlier callback's does, and that a once-callback does not run twice; for the outcome: "
         "complete returns the whole dialogue up to that boundary, an operation error only after a once-callback's trigger won again, a time-out only when no trigger holds on what was accumulated. Earlier operations on the same driver (timed out; same list failing inside a callback - spent marks in the trace) and an earlier session whose last read comes back after Close precede a third of the operations each; every scenario runs in a process of its own. Round 7: a question followed by a listing longer than the search depth in the same piece of output.",
    note="Trusted: TLC; the recorded delivered stream (device mutex order). 300 (quick) / 2500 (thorough) operations. One genuine defect repaired (not-contains inverted).")
CHECKS["C15"] = dict(
    category="model_checking", design_ref="DESIGN.md §5 C15, §11",
    technique="TLA+/TLC: Telnet.tla runs the per-byte negotiation machine on every server opening up to a bound (and a sample of longer ones) with AnsweredOnce / DataKept / BackToData as invariants; "
              "each opening with its predicted replies and data is sent by a loopback TCP server to the real telnet transport under several TCP segmentations and read sizes",
    text="Openings are sequences of negotiations (4 verbs x {SGA, ECHO, other}), two-byte commands, escaped IAC, single data bytes and a run of text. TLC enumerates all of <= 2 (quick) / 3 (thorough) items "
         "plus 250 / 1500 longer ones and predicts the reply bytes and the plain data. The harness compares the bytes the server received with the predicted replies (exactly once each, right verb) and the "
         "bytes the first reads return with the plain data (bytes of two-byte commands and an escaped 0xFF may appear or not), for whole / byte-wise / cut-after-IAC / halved / paused segmentations and read "
         "sizes 8192, 2, 1. Round 6: the first attempt's server says something before it goes away (found a genuine defect, fix 3340f5c).",
    note="Trusted: TLC, loopback TCP. Socket timeout 240 ms; mismatches must reproduce when re-executed alone. One genuine defect repaired (data dropped after IAC NOP / IAC IAC).")
CHECKS["C14"] = dict(
    category="model_checking", design_ref="DESIGN.md §5 C14, §11",
    technique="TLA+/TLC: HostKey.tla states the host-key decision table and identity contract (invariants tie it to the property's wording) and enumerates all 64 cells; each cell is executed as a real "
              "connection attempt against an in-process SSH server with a fresh host key (standard transport; system transport through /usr/bin/ssh and through an argv-recording stand-in)",
    text="For every cell the harness compares: Open's outcome with the table (and the bad-option class when the standard transport is strict without a file); that no password reached a server whose key "
         "was refused; on success the user, the configured key and/or password as seen by the server's authentication callbacks (incl. the cell where the server rejects the key and the password must be "
         "used) and a first command over the session; for the system transport the exact ssh argument list (host first, port, user, StrictHostKeyChecking, UserKnownHostsFile, -F, -i, extra arguments last, "
         "never the password).",
    note="The TLA+ content here is a finite table; the assurance rests on the conformance run (stated in DESIGN.md §7). Trusted: golang.org/x/crypto/ssh as server, OpenSSH 9.2 as the system transport's child.")
CHECKS["C16"] = dict(
    category="model_checking", design_ref="DESIGN.md §5 C16, §11",
    technique="TLA+/TLC: Pipe.tla models a transport as two FIFO byte pipes with Close / PeerGone and is checked exhaustively (prefix, completeness, no stuck read); PipeTrace.tla validates position-coded "
              "segment traces recorded from the three real transports against loopback peers (TCP server, in-process SSH server, real /usr/bin/ssh as the system transport's child), plus end-to-end sessions",
    text="PipeScn.tla draws sessions over {telnet, standard, system} x {shell, netconf} with read sizes 17/64/8192, payloads of 1..5000 bytes per direction, peer chunking 1..4096, 60-byte lines or one long "
         "line, all 256 byte values where no tty is in the path, peers that start talking before Open returns, and a Read blocked at Close (also with a peer that has stopped answering) or when the peer goes "
         "away. Every received segment is a trace event (offset by position code, count of foreign bytes); TLC accepts a session only if segments are contiguous, within what was sent, unaltered, complete, "
         "and the blocked Read returned. CLI and NETCONF driver sessions over each transport must give the results of the in-memory pipe. Every third session is the second one of its transport object; chunks handed out are kept and compared at the end (event kept); after the peer went away the next read and an orderly close return. Round 6: end-to-end sessions open the same driver a second time; the in-process SSH server refuses unknown subsystems (found a genuine defect, fix 5e7ad20).",
    note="Kernel pty/TCP and OpenSSH are outside any model (DESIGN.md §7): the model states the contract, the traces come from the real stack. Known finding: system transport + NETCONF leaves the pty cooked.")
CHECKS["C17"] = dict(
    category="model_checking", design_ref="DESIGN.md §5 C17, §11",
    technique="TLA+/TLC: Platform.tla evaluates well-formedness of every advertised definition and variant as exported by the real loader, and runs the AcquirePriv loop model (Privilege.tla's step with the "
              "definition's tree and the acceptance relation computed with the real regexes) on every level pair; pairs that succeed under every map order are driven on the real driver against a device built from the definition",
    text="Export: for each advertised name and variant the loader's result (driver type, levels, default level, steps), a canonical prompt per level sampled from its pattern, whether own and joined pattern "
         "accept it, which levels' matchers accept which prompts, hand-written typical prompts per level (spec/platform_prompts.json) that must keep matching, step well-formedness, and the comparison of a "
         "variant's merged sections with the file; also every embedded definition must be reachable through an advertised name. TLC checks WellFormed for all and explores all (start, target) pairs with the "
         "map-order fallback as nondeterminism. The harness opens each platform against the definition-derived device (on-open steps observed), visits all deterministic pairs, closes (on-close steps "
         "observed) and checks that user options layered on the definition win. Round 6: what is loaded after earlier loads of the same name (variants, a driver customised in place) is compared with the file section by section.",
    note="Trusted: TLC, regexp/syntax-based prompt sampler, yaml.v3 for the independent reading of the files. One genuine defect repaired (ruijie_rgos asset misnamed).")
CHECKS["C19"] = dict(
    category="model_checking", design_ref="DESIGN.md §5 C19, §11",
    technique="TLA+/TLC: Options.tla holds the option catalogue (setting named, kind set/append/flag, constructors exposing it) and Fold, checks the order law on every generated list, and prints Fold for lists of "
              "platform-definition options followed by user options; each list is applied with the real option functions through the generic, network, NETCONF and platform constructors and all observable settings are compared",
    text="35 option functions x 2 value variants, lists of 1-8 user options preceded by 0-3 options of a platform definition's options block (written into a real YAML definition for the platform "
         "constructor). For every constructor and every setting it exposes (transport args, ssh args, system transport fields, channel fields, generic/network/NETCONF driver fields, logger identity) the "
         "harness maps the constructed objects back to option tags and compares with Fold: last one wins, extra ssh arguments accumulate in order, untouched settings keep their defaults, user beats platform, "
         "no error for options that do not apply, no panic. Added in round 6: Options!EdgeScn - a port that is another transport's default (22, 23, 830) or the largest one, with every built-in transport type, the two options in both orders, through all constructors. Round 8: an earlier driver built from a prefix of the caller's option slice (found a genuine defect, fix cb3a7c3); an empty list of failure strings as a value (Options!EmptyScn).",
    note="Trusted: TLC; the reflection of real field values into tags. 500 (quick) / 4000 (thorough) lists x 4 constructors. Two genuine defects repaired (YAML list for transport-system-open-args panicked; "
         "logger not reaching netconf.Driver).")
PENDING_REASON = "check not built yet in this session (work in progress; see DESIGN.md §5 for the planned TLA+ specification and binding)"
NOT_APPLICABLE = {}
