"""One entry per property that has a check; bin/mkmanifest turns this into MANIFEST.json."""
CHECKS = {
    "C20": dict(
        category="model_checking", design_ref="DESIGN.md §5 C20, §11",
        technique="TLA+/TLC: PlusCal statement-level model of util.Queue checked exhaustively; all sequential histories of the "
                  "atomic abstraction replayed on the real queue; recorded concurrent histories validated for linearizability by a TLC trace spec",
        text="Queue.tla explores every interleaving of one producer and one consumer at statement granularity (Lossless, DepthIsLen, "
             "NoPanic, token protocol, termination). QueueSeq.tla enumerates every sequential history up to a bound with the abstract results "
             "and the harness replays each on util.Queue comparing every return value. Histories recorded from two real goroutines under the race "
             "detector and several GOMAXPROCS values are checked for linearizability against the same abstraction by QueueTrace.tla.",
        note="Trusted: TLC, the Go race detector, the mutex-ordered event log as real-time order. Bounds: 3 produced chunks x 5-6 consumer ops in the "
             "statement model; sequential histories of length 5 (quick) / 7 (thorough); 24 / 120 recorded concurrent histories."),
}
PENDING_REASON = "check not built yet in this session (work in progress; see DESIGN.md §5 for the planned TLA+ specification and binding)"
NOT_APPLICABLE = {}
