"""C16 — built-in transports are transparent, ordered byte pipes that unblock on close. Pipe.tla (model of the two FIFOs, exhaustively checked) and PipeTrace.tla validating position-coded
segment traces recorded from the three real transports (loopback TCP peer, in-process SSH server, real /usr/bin/ssh as the system transport's child), plus end-to-end CLI / NETCONF sessions."""
import json
import os
from vlib import ToolError, validate_traces

PIPE = """SPECIFICATION Spec
CONSTANTS NC2S = %d
 NS2C = %d
 MaxSeg = 3
INVARIANT Prefix
PROPERTIES NoStuckRead AllArrives
CHECK_DEADLOCK FALSE
"""
SCN = """SPECIFICATION Spec
CONSTANTS Seed = %d
 Count = %d
CHECK_DEADLOCK FALSE
"""


def run(ctx):
    thorough = ctx.tier == "thorough"
    ctx.rule = ("session = {telnet/shell, standard/shell, standard/netconf, system/shell, system/netconf} x read size {17, 64, 8192} x payload sizes {1, 63, 64, 65, 200, 1000, 5000} per direction x peer "
                "chunking {1, 7, 64, 100, 4096} x lines of 60 bytes or one long line, followed by a Read blocked at Close / when the peer goes away; plus end-to-end CLI and NETCONF sessions per transport; "
                "every received segment is a validated trace event; distinct by session id")
    ctx.assumptions += ["kernel pty / TCP and OpenSSH behaviour are outside the model: the model states the contract, the traces come from the real stack",
                        "payloads avoid ssh's escape character after a newline ('~') and control bytes; ssh runs with LogLevel=ERROR so that nothing but session data reaches the pty"]
    if not os.path.exists("/usr/bin/ssh"):
        raise ToolError("/usr/bin/ssh is not available")
    trace = os.path.join(ctx.tmp, "c16trace.ndjson")
    if ctx.replay:
        rp = json.load(open(ctx.replay))["scenario"]
        if rp.get("kind") == "trace":
            validate_traces(ctx, "PipeTrace", [json.dumps(e) for e in rp["trace"]], "C16:trace-rejected", "replayed session", sigfn=None)
            return
        scns = [rp]
    else:
        r = ctx.tlc("Pipe", cfg="p.cfg", files={"p.cfg": PIPE % ((5, 5) if thorough else (4, 4))}, workers=8, timeout=1800)
        if r["violated"]:
            ctx.violation("C16:model:Pipe", "Pipe.tla violates Prefix / NoStuckRead / AllArrives:\n" + r["stdout"][-1200:], {"kind": "model"})
        count = 400 if thorough else 60
        r = ctx.tlc("PipeScn", cfg="s.cfg", files={"s.cfg": SCN % (ctx.seed, count)}, workers=1)
        scns = r["scn"]
        k = 100000
        for tr in ("telnet", "standard", "system"):
            for kind in (("cli",) if tr == "telnet" else ("cli", "netconf")):
                for big in (False, True):
                    scns.append({"id": k, "transport": tr, "mode": "e2e-" + kind, "readsize": 8192, "s2c": 0, "c2s": 0, "chunk": 0, "longline": big})
                    k += 1
        # a child that ignores hang-ups: Close has to end it for a parked read to return
        scns.append({"id": 200000, "transport": "system", "mode": "standin-shell", "readsize": 64, "s2c": 0, "c2s": 0, "chunk": 0, "longline": False})
        scns.append({"id": 200001, "transport": "system", "mode": "standin-netconf", "readsize": 64, "s2c": 0, "c2s": 0, "chunk": 0, "longline": False})
    res = ctx.run_harness("c16", scns, args=["-out", trace], timeout=3000)
    if len(res) != len(scns):
        raise ToolError("c16 answered %d of %d; stderr:\n%s" % (len(res), len(scns), ctx.last_stderr[-3000:]))
    byid = {s["id"]: s for s in scns}
    for rr in res:
        ctx.count()
        ctx.nontriv(rr["variant"])
        if not rr["ok"]:
            ctx.violation(rr["sig"], rr["detail"], byid[rr["id"]])
    lines = open(trace).read().splitlines()
    names = {}
    cur = None
    for ln in lines:
        e = json.loads(ln)
        if e["ev"] == "reset":
            cur = e

    def sig(ev):
        return "C16:" + ev.get("ev", "?")
    # signatures need the session (transport/mode): split blocks ourselves
    from vlib import split_blocks
    blocks = split_blocks(lines)
    bysess = {}
    for b in blocks:
        h = json.loads(b[0])
        bysess.setdefault((h["transport"], h["mode"]), []).extend(b)
    for (tr, mode), blines in sorted(bysess.items()):
        def sigfn(ev, tr=tr, mode=mode):
            kind = ev.get("ev", "?")
            if kind == "recv":
                kind = "bytes-altered-or-reordered:" + ev.get("dir", "?")
            elif kind == "end":
                kind = "bytes-lost:" + ev.get("dir", "?")
            elif kind == "kept":
                kind = "returned-chunk-overwritten-by-a-later-read"
            elif kind == "unblock":
                kind = "blocked-read-not-released:" + ev.get("cause", "?")
            elif kind == "e2e":
                kind = "session-differs-from-ideal-pipe:" + ev.get("kind", "?") + (":long-line" if ev.get("big") else "")
            if tr == "system" and mode == "netconf" and ev.get("ev") in ("recv", "end"):
                return "C16:system:netconf:cooked-pty"      # one recorded finding whatever the symptom (echo, CR insertion, truncation)
            return "C16:%s:%s:%s" % (tr, mode, kind)
        validate_traces(ctx, "PipeTrace", blines, "C16:%s:%s" % (tr, mode), "recorded %s/%s session" % (tr, mode), dfs=False, maxrej=40, sigfn=sigfn)
    if lines:
        ctx.sample({"trace_prefix": [json.loads(x) for x in lines[:5]]})
