"""C19 — driver options land on their target regardless of order; user options win. Options.tla: the option catalogue and Fold (with the order law checked on every generated list); generated lists
(platform-definition options first, then the user's) are applied through the generic, network, NETCONF and platform constructors and every observable setting is compared with Fold."""
import json
from vlib import ToolError

SCN = """SPECIFICATION Spec
CONSTANTS Seed = %d
 Count = %d
CHECK_DEADLOCK FALSE
"""

def run(ctx):
    thorough = ctx.tier == "thorough"
    ctx.rule = ("scenario = option list of 1-8 user options (35 option functions x 2 value variants, duplicates allowed) preceded by 0-3 options of a platform definition's options block; each applied through "
                "5 constructors (generic, network, NETCONF, platform of driver type network, platform of driver type generic); every fifth list also with one invalid option inserted at a pseudo-random position (unknown transport type, invalid NETCONF version, missing known-hosts file, network driver without privilege levels), "
                "which the constructor must reject as Options!Invalid says; non-trivial = lists of at least two options; distinct by scenario x constructor")
    ctx.assumptions += ["file-path options point at existing files; numeric platform options are given values of the documented YAML type; boolean platform options are presence flags",
                        "the NETCONF constructor's own prompt pattern override is by design and not compared"]
    if ctx.replay:
        rp = json.load(open(ctx.replay))["scenario"]
        for r in ctx.run_harness("c19", [rp]):
            ctx.count()
            if not r["ok"]:
                ctx.violation(r["sig"], r["detail"], rp)
        return
    count = 4000 if thorough else 500
    r = ctx.tlc("Options", cfg="o.cfg", files={"o.cfg": SCN % (ctx.seed, count)}, workers=1, timeout=1800)
    if "order law violated" in r["stdout"] or r["violated"]:
        ctx.violation("C19:model:order-law", "Options.tla: Fold is not order-independent for options on distinct settings:\n" + r["stdout"][-1200:], {"kind": "model"})
    scns = r["scn"]
    if len(scns) != count + (count + 4) // 5 + 27:
        raise ToolError("Options.tla produced %d of %d" % (len(scns), count + (count + 4) // 5 + 27))
    res = ctx.run_harness("c19", scns, timeout=3000)
    want = sum(4 if x.get("kind") == "invalid" else 5 for x in scns)
    ctx.sample({"edge_scenario": [x for x in scns if x.get("kind") == "edge"][5]})
    if len(res) != want:
        raise ToolError("c19 answered %d of %d; stderr:\n%s" % (len(res), want, ctx.last_stderr[-3000:]))
    byid = {(s["id"], s.get("kind", "")): s for s in scns}
    byid.update({(s["id"], ""): s for s in scns if s.get("kind") in ("edge", "edge-empty")})
    for rr in res:
        ctx.count()
        if rr.get("nontrivial"):
            ctx.nontriv("%s/%s" % (rr["id"], rr["variant"]))
        if not rr["ok"]:
            rp = dict(byid[(rr["id"], "invalid" if ":invalid-" in rr["sig"] or rr.get("extra") == "invalid" else "")])
            rp["ctor"] = rr["variant"]
            ctx.violation(rr["sig"], rr["detail"], rp)
    ctx.traces_validated = len(res)
    s0 = dict([x for x in scns if not x.get("kind")][7])
    s0["expect"] = {k: v for k, v in s0["expect"].items() if v}
    s0.pop("expectUserOnly", None)
    ctx.sample({"scenario": s0})
