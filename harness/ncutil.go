package main

import (
	"github.com/scrapli/scrapligo/transport"
	"time"

	"github.com/scrapli/scrapligo/driver/netconf"
	"github.com/scrapli/scrapligo/driver/options"
	"github.com/scrapli/scrapligo/util"

	"verifharness/simdev"
)

const (
	cap10 = "urn:ietf:params:netconf:base:1.0"
	cap11 = "urn:ietf:params:netconf:base:1.1"
)

// ncSession is a NETCONF driver wired to a server model.
type ncSession struct {
	d    *netconf.Driver
	srv  *simdev.NCServer
	pipe *simdev.Pipe
}

type ncConfig struct {
	trace         bool // record the pipe's deliver / recv events
	reuseBuf      bool // the transport hands out slices of one long-lived read buffer
	inChannelAuth bool // the transport asks for the in-channel ssh login loop
	onlcr         bool // the transport delivers CR LF for every LF of the server (a pty in front of ssh does)
	adv10, adv11  bool
	preferred     string
	echo          bool
	seg           simdev.Seg
	devDelay      time.Duration
	readDelay     time.Duration
	timeout       time.Duration
	seed          int64
	hello         string // overrides the default hello
	extra         []util.Option
	reply         func(s *simdev.NCServer, r simdev.NCRequest) []byte
	replyMulti    func(s *simdev.NCServer, r simdev.NCRequest) [][]byte
}

func newNcSession(c ncConfig) (*ncSession, error) {
	caps := []string{}
	if c.adv10 {
		caps = append(caps, cap10)
	}

	if c.adv11 {
		caps = append(caps, cap11)
	}

	hello := c.hello
	if hello == "" {
		hello = simdev.HelloXML(append(caps, "urn:example:cap:1.0"), "42", "", true, false)
	}

	srv := &simdev.NCServer{Hello: hello, Advertises: map[string]bool{"1.0": c.adv10, "1.1": c.adv11}, Echo: c.echo, Reply: c.reply, ReplyMulti: c.replyMulti}
	pipe := simdev.NewPipe(srv, c.seed)
	pipe.Seg = c.seg
	pipe.MsgBounds = true // one read never carries bytes of two server messages
	pipe.RecordTrace = c.trace
	pipe.OnlCR = c.onlcr
	pipe.ReuseBuf = c.reuseBuf
	pipe.ReadDelay = c.devDelay

	if c.timeout == 0 {
		c.timeout = 2 * time.Second
	}

	if c.readDelay == 0 {
		c.readDelay = 30 * time.Microsecond
	}

	var impl transport.Implementation = pipe

	if c.inChannelAuth {
		// a transport that logs in inside the byte stream (as the system transport does): the channel's login loop runs in front
		// of the hello exchange on every Open and is ended by the hello's delimiter
		ap := &simdev.AuthPipe{Pipe: pipe}
		ap.AuthType = transport.InChannelAuthSSH
		impl = ap
	}

	opts := []util.Option{
		options.WithCustomTransport(impl),
		options.WithReadDelay(c.readDelay),
		options.WithTimeoutOps(c.timeout),
	}
	if c.preferred != "" {
		opts = append(opts, options.WithNetconfPreferredVersion(c.preferred))
	}

	opts = append(opts, c.extra...)

	d, err := netconf.NewDriver("sim", opts...)
	if err != nil {
		return nil, err
	}

	return &ncSession{d: d, srv: srv, pipe: pipe}, nil
}
