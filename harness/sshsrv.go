package main

import (
	"crypto/ed25519"
	"crypto/rand"
	"encoding/pem"
	"fmt"
	"io"
	"net"
	"os"
	"path/filepath"
	"sync"
	"sync/atomic"
	"time"

	"golang.org/x/crypto/ssh"
)

// In-process SSH server on loopback used by C14 (host keys, identity) and C16 (byte transparency).

type sshSrvCfg struct {
	User      string
	Password  string        // accepted password ("" = password auth always fails)
	AuthKey   ssh.PublicKey // accepted public key (nil = none)
	OnSession func(kind string, ch ssh.Channel)
}

type sshSrv struct {
	ln      net.Listener
	Port    int
	HostKey ssh.Signer
	cfg     sshSrvCfg

	mu           sync.Mutex
	PasswordSeen []string // passwords offered through the authentication exchange
	KeysSeen     []string // fingerprints of public keys offered
	UsersSeen    []string
	Sessions     []string // "shell" | "subsystem:netconf" | "exec:..."
	PtyReq       int
	Live         int32 // SSH connections that are up (the client has not closed its end)
	conns        []net.Conn
	stalled      int32 // when set, the server stops reading from its connections (a hung / black-holed peer)
}

// stallConn lets the harness freeze the server's side of a TCP connection.
type stallConn struct {
	net.Conn
	s *sshSrv
}

func (c stallConn) Read(b []byte) (int, error) {
	for atomic.LoadInt32(&c.s.stalled) != 0 {
		time.Sleep(2 * time.Millisecond)
	}

	n, err := c.Conn.Read(b)

	// a read that was already waiting in the kernel when the peer "hung" must not deliver either
	for atomic.LoadInt32(&c.s.stalled) != 0 && err == nil {
		time.Sleep(5 * time.Millisecond)
	}

	return n, err
}

// Stall makes the server stop processing anything the client sends from now on.
func (s *sshSrv) Stall() { atomic.StoreInt32(&s.stalled, 1) }

func newEd25519() (ssh.Signer, ed25519.PrivateKey, error) {
	_, priv, err := ed25519.GenerateKey(rand.Reader)
	if err != nil {
		return nil, nil, err
	}

	s, err := ssh.NewSignerFromKey(priv)

	return s, priv, err
}

// writeKeyFile writes an OpenSSH private key file and returns its path.
func writeKeyFile(dir, name string, priv ed25519.PrivateKey) (string, error) {
	blk, err := ssh.MarshalPrivateKey(priv, "")
	if err != nil {
		return "", err
	}

	p := filepath.Join(dir, name)

	return p, os.WriteFile(p, pem.EncodeToMemory(blk), 0o600)
}

func startSSHSrv(cfg sshSrvCfg) (*sshSrv, error) {
	hk, _, err := newEd25519()
	if err != nil {
		return nil, err
	}

	ln, err := net.Listen("tcp", "127.0.0.1:0")
	if err != nil {
		return nil, err
	}

	s := &sshSrv{ln: ln, Port: ln.Addr().(*net.TCPAddr).Port, HostKey: hk, cfg: cfg}
	sc := &ssh.ServerConfig{
		PasswordCallback: func(c ssh.ConnMetadata, p []byte) (*ssh.Permissions, error) {
			s.mu.Lock()
			s.PasswordSeen = append(s.PasswordSeen, string(p))
			s.UsersSeen = append(s.UsersSeen, c.User())
			s.mu.Unlock()

			if cfg.Password != "" && string(p) == cfg.Password && c.User() == cfg.User {
				return nil, nil
			}

			return nil, fmt.Errorf("password rejected")
		},
		PublicKeyCallback: func(c ssh.ConnMetadata, k ssh.PublicKey) (*ssh.Permissions, error) {
			s.mu.Lock()
			s.KeysSeen = append(s.KeysSeen, ssh.FingerprintSHA256(k))
			s.UsersSeen = append(s.UsersSeen, c.User())
			s.mu.Unlock()

			if cfg.AuthKey != nil && string(k.Marshal()) == string(cfg.AuthKey.Marshal()) && c.User() == cfg.User {
				return nil, nil
			}

			return nil, fmt.Errorf("key rejected")
		},
	}
	sc.AddHostKey(hk)

	go func() {
		for {
			c, aerr := ln.Accept()
			if aerr != nil {
				return
			}

			s.mu.Lock()
			s.conns = append(s.conns, c)
			s.mu.Unlock()

			go s.serve(stallConn{c, s}, sc)
		}
	}()

	return s, nil
}

func (s *sshSrv) serve(c net.Conn, sc *ssh.ServerConfig) {
	conn, chans, reqs, err := ssh.NewServerConn(c, sc)
	if err != nil {
		_ = c.Close()

		return
	}

	defer conn.Close()

	atomic.AddInt32(&s.Live, 1)
	defer atomic.AddInt32(&s.Live, -1)

	go ssh.DiscardRequests(reqs)

	for nc := range chans {
		if nc.ChannelType() != "session" {
			_ = nc.Reject(ssh.UnknownChannelType, "no")

			continue
		}

		ch, creqs, aerr := nc.Accept()
		if aerr != nil {
			continue
		}

		go func() {
			for r := range creqs {
				switch r.Type {
				case "pty-req":
					s.mu.Lock()
					s.PtyReq++
					s.mu.Unlock()

					_ = r.Reply(true, nil)
				case "shell":
					s.note("shell")
					_ = r.Reply(true, nil)

					go s.cfg.OnSession("shell", ch)
				case "subsystem":
					name := ""
					if len(r.Payload) > 4 {
						name = string(r.Payload[4:])
					}

					s.note("subsystem:" + name)

					if name != "netconf" {
						// what sshd does with a subsystem it does not know ("subsystem request failed on channel 0")
						_ = r.Reply(false, nil)
						_ = ch.Close()

						continue
					}

					_ = r.Reply(true, nil)

					go s.cfg.OnSession("subsystem:"+name, ch)
				case "env", "window-change":
					_ = r.Reply(true, nil)
				default:
					_ = r.Reply(false, nil)
				}
			}
		}()
	}
}

func (s *sshSrv) note(k string) {
	s.mu.Lock()
	s.Sessions = append(s.Sessions, k)
	s.mu.Unlock()
}

// KnownHostsLine returns a known_hosts entry for this server's host key (or for another key).
func (s *sshSrv) KnownHostsLine(k ssh.PublicKey) string {
	return fmt.Sprintf("[127.0.0.1]:%d %s", s.Port, string(ssh.MarshalAuthorizedKey(k)))
}

func (s *sshSrv) Close() {
	_ = s.ln.Close()

	s.mu.Lock()
	for _, c := range s.conns {
		_ = c.Close()
	}
	s.mu.Unlock()
}

// DropConns closes the TCP connections (the peer goes away) but keeps listening.
func (s *sshSrv) DropConns() {
	s.mu.Lock()
	defer s.mu.Unlock()

	for _, c := range s.conns {
		_ = c.Close()
	}
}

var _ = io.EOF
