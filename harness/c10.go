package main

import (
	"bytes"
	"encoding/json"
	"fmt"
	"github.com/scrapli/scrapligo/platform"
	"os"
	"strings"
	"sync"
	"time"

	"github.com/scrapli/scrapligo/driver/generic"
	"github.com/scrapli/scrapligo/driver/options"
	"github.com/scrapli/scrapligo/logging"
	"github.com/scrapli/scrapligo/transport"
	"github.com/scrapli/scrapligo/util"

	"verifharness/simdev"
)

// C10 (login dialogues of Auth.tla) and, on the same runs, C11 (no credential in any log).
//   vh c10 [-logtrace file] < scenarios

func init() { register("c10", c10) }

type c10Scn struct {
	Style  string   `json:"style"`
	Script []string `json:"script"`
	Class  string   `json:"class"`
	Sent   []string `json:"sent"`
	Seg    string   `json:"seg,omitempty"`
	Fault  string   `json:"fault,omitempty"` // C11: "werr-on-cred": the write that carries the first secret fails
	Idx    *int     `json:"idx,omitempty"`   // replay: the position the scenario had in its run (spellings and seeds derive from it)
	// History "reopen": after the admitted login the driver is closed - while the close is under way the device prints a late
	// message and redraws its prompt - and opened again: the second open is an open like the first
	History string `json:"history,omitempty"`
	idx     int
}

const (
	c10User       = "adm1n"
	c10Pass       = "pw0rd!%s[.*]$"
	c10Passphrase = "k3y-ph%dr4se(+)"
)

var c10SSHErrs = []string{
	"Host key verification failed.\r\n", "ssh: connect to host r1 port 22: Connection timed out\r\n", "Permission denied (publickey,password).\r\n",
	"Unable to negotiate with 10.0.0.1 port 22: no matching key exchange method found. Their offer: diffie-hellman-group1-sha1\r\n",
	"ssh: Could not resolve hostname r1: Name or service not known\r\n", "ssh: connect to host r1 port 22: No route to host\r\n",
}

type logCapture struct {
	mu    sync.Mutex
	msgs  []string
	level string
}

func (l *logCapture) log(a ...interface{}) {
	l.mu.Lock()
	defer l.mu.Unlock()

	l.msgs = append(l.msgs, fmt.Sprint(a...))
}

func secretsIn(s string, secrets []string) []string {
	var hit []string

	for _, x := range secrets {
		if x != "" && strings.Contains(s, x) {
			hit = append(hit, x)
		}
	}

	return hit
}

func c10Run(s *c10Scn, segName string, logEnc *json.Encoder, logMu *sync.Mutex) verdict {
	v := verdict{ID: s.idx, Variant: s.Style + "/" + segName, OK: true, Nontrivial: len(s.Sent) > 0}
	cli := stdCLI("exec")
	login := &simdev.Login{Inner: cli, EchoUser: s.Style == "telnet"}

	longMotd := false
	// every fifth scenario: the driver comes from a platform definition that carries the site's own prompt patterns
	site := s.idx%5 == 4

	for k, kind := range s.Script {
		st := simdev.LoginStep{Kind: kind}

		switch kind {
		case "banner":
			st.Text = "*** Authorized access only (site " + fmt.Sprint(k) + ") ***\r\n"
			if s.Style == "ssh" {
				st.Text = "Warning: Permanently added 'r1' (ED25519) to the list of known hosts.\r\n"
			}

			if k+1 < len(s.Script) && s.Script[k+1] == "shell" && s.Class == "ok" && s.Fault == "" && s.idx%3 == 0 {
				// a message of the day that is longer than the prompt search depth, right in front of the shell prompt: all of
				// it has been read by the login and must still be there for the first operation
				var m strings.Builder

				m.WriteString("MOTD-BEGIN\r\n")

				for l := 0; l < 34; l++ {
					fmt.Fprintf(&m, "  notice line %02d: unauthorised use is prohibited\r\n", l)
				}

				m.WriteString("MOTD-END\r\n")

				st.Text += m.String()
				longMotd = true
			}
		case "askuser":
			// the last spelling: the device prints a notice behind the question on the same line (seen on IOS with Kerberos configured)
			st.Text = []string{"Username: ", "login: ", "r1 login: ", "Username: Kerberos: No default realm defined for Kerberos!\r\n"}[(s.idx+k)%4]
		case "askpass":
			st.Text = []string{"Password: ", "password:", "adm1n@r1's password: "}[(s.idx+k)%3]
			if s.Style == "telnet" {
				st.Text = []string{"Password: ", "password:"}[(s.idx+k)%2]
			}
		case "askpassphrase":
			st.Text = "Enter passphrase for key '/home/u/.ssh/id_ed25519': "
		case "eof":
			st.Text = ""
		case "reject":
			st.Kind = "banner"
			st.Text = "% Login invalid\r\n\r\n"

			if s.Style == "ssh" {
				st.Text = "Sorry, try again.\r\n"
			}
		case "ssherr":
			st.Text = c10SSHErrs[(s.idx+k)%len(c10SSHErrs)]
		}

		if site {
			// a device that asks in its own words: none of the default patterns knows them, the patterns come with the platform
			// definition the driver is built from (options block: username-pattern, password-pattern, passphrase-pattern)
			switch kind {
			case "askuser":
				st.Text = "Benutzername: "
			case "askpass":
				st.Text = "Kennwort: "
			case "askpassphrase":
				st.Text = "Schluesselsatz fuer '/home/u/.ssh/id_ed25519': "
			}
		}

		login.Steps = append(login.Steps, st)
	}

	// every second admitted login: the device goes on talking after the first shell prompt (bytes that are queued behind the
	// ones the login consumes: what the login read must be put back IN FRONT of them)
	const lateMark = "%SYS-5-LATE: link up"

	trailer := s.Class == "ok" && s.Fault == "" && s.idx%2 == 0
	if trailer {
		login.Trailer = "\r\n" + lateMark + "\r\nr1>"
	}

	pipe := simdev.NewPipe(login, int64(s.idx))
	pipe.Seg = faultSegs[segName]
	login.OnEOF = func() { pipe.LoseAtEnd = "eof" }
	// an account without a password, a key without a passphrase: the answer to the question is the return key alone
	pass, phrase := c10Pass, c10Passphrase
	if s.idx%5 == 3 && s.Fault == "" {
		pass, phrase = "", ""
	}

	ap := &simdev.AuthPipe{Pipe: pipe, SSH: &transport.SSHArgs{PrivateKeyPassPhrase: phrase}}
	ap.AuthType = transport.InChannelAuthSSH

	if s.Style == "telnet" {
		ap.AuthType = transport.InChannelAuthTelnet
	}

	// the short budget is for the dialogues that end in silence (the timeout IS their outcome); every other outcome is decided
	// by what the device says, and a generous budget keeps a busy machine from turning it into a timeout
	opTimeout := 3 * time.Second
	if s.Class == "timeout" {
		opTimeout = 300 * time.Millisecond
	}

	capDebug := &logCapture{level: "debug"}
	li, _ := logging.NewInstance(logging.WithLevel("debug"), logging.WithLogger(capDebug.log))
	chanLog := &bytes.Buffer{}
	chanLogMu := &sync.Mutex{}

	dopts := []util.Option{options.WithCustomTransport(ap), options.WithReadDelay(30 * time.Microsecond), options.WithTimeoutOps(opTimeout),
		options.WithAuthUsername(c10User), options.WithAuthPassword(pass), options.WithLogger(li), options.WithChannelLog(lockedWriter{chanLog, chanLogMu})}

	var d *generic.Driver

	var err error

	if site {
		def := "---\nplatform-type: 'verif-site'\ndefault:\n  driver-type: 'generic'\n  options:\n" +
			"    - option: username-pattern\n      value: '(?im)^benutzername:\\s?$'\n" +
			"    - option: passphrase-pattern\n      value: '(?im)^schluesselsatz fuer .*:\\s?$'\n" +
			"    - option: password-pattern\n      value: '(?im)^kennwort:\\s?$'\n"

		var pf *platform.Platform

		pf, err = platform.NewPlatform([]byte(def), "sim", dopts...)
		if err == nil {
			d, err = pf.GetGenericDriver()
		}
	} else {
		d, err = generic.NewDriver("sim", dopts...)
	}

	if err != nil {
		fail(&v, "C10:new-error", "%v", err)

		return v
	}

	if s.Fault == "werr-on-cred" {
		n := 0
		for _, c := range s.Sent {
			if c != "askuser" {
				break
			}

			n += 2 // user name and its return come first
		}

		pipe.ArmWriteFailure(n)
	}

	var oerr error

	fin, pan := withWatchdog(6*time.Second, func() { oerr = d.Open() })

	switch {
	case !fin:
		fail(&v, "C10:"+s.Style+":open-hang", "Open did not return for script %v", s.Script)

		return v
	case pan != nil:
		fail(&v, "C10:"+s.Style+":open-panic", "%v", pan)

		return v
	}

	got := errClass(oerr)
	scriptS := strings.Join(s.Script, ",")

	if s.Fault != "" {
		s.Class = got // the dialogue contract does not apply to injected write failures; only the logs are judged (C11)
	}

	if got != s.Class {
		kind := fmt.Sprintf("%s-instead-of-%s", got, s.Class)
		fail(&v, "C10:"+s.Style+":outcome:"+kind, "script [%s]: Open -> %v (class %s), dialogue contract says %s", scriptS, oerr, got, s.Class)
	}

	// what the device received
	pipe.Lock()
	recv := append([]simdev.Recv(nil), login.Log...)
	closes := pipe.Closes
	pipe.Unlock()

	cred := map[string]string{"askuser": c10User, "askpass": pass, "askpassphrase": phrase}

	if v.OK && s.Fault == "" {
		var gotL, wantL []string

		for _, r := range recv {
			gotL = append(gotL, r.State+"="+r.Line)
		}

		for _, c := range s.Sent {
			wantL = append(wantL, c+"="+cred[c])
		}

		if strings.Join(gotL, "|") != strings.Join(wantL, "|") {
			kind := "pairing"
			if len(gotL) > len(wantL) {
				kind = "extra-input"
			} else if len(gotL) < len(wantL) {
				kind = "missing-answer"
			}

			fail(&v, "C10:"+s.Style+":device-log:"+kind, "script [%s]: device received %q, contract says %q", scriptS, gotL, wantL)
		}
	}

	if v.OK && s.Class != "ok" && closes == 0 {
		fail(&v, "C10:"+s.Style+":failed-login-leaves-transport-open:"+s.Class, "script [%s]: Open failed (%v) but the transport was not closed", scriptS, oerr)
	}

	if v.OK && s.Class == "ok" && (trailer || longMotd) {
		pipe.WaitDrained(time.Second)
		time.Sleep(2 * time.Millisecond)

		all, rerr := d.Channel.ReadAll()
		i1 := bytes.Index(all, []byte("r1>"))
		i2 := bytes.Index(all, []byte(lateMark))

		switch {
		case rerr != nil:
			fail(&v, "C10:"+s.Style+":bytes-after-login", "script [%s]: ReadAll after login: %v", scriptS, rerr)
		case longMotd && (bytes.Count(all, []byte("MOTD-BEGIN")) != 1 || bytes.Count(all, []byte("MOTD-END")) != 1 || bytes.Count(all, []byte("notice line")) != 34):
			fail(&v, "C10:"+s.Style+":bytes-read-during-login-lost", "script [%s]: the message of the day printed in front of the shell prompt is not (completely) available after login: the channel holds %d bytes starting %q", scriptS, len(all), string(all[:min2(80, len(all))]))
		case !trailer:
		case i1 < 0 || i2 < 0 || i1 > i2 || bytes.Count(all, []byte(lateMark)) != 1 || !bytes.HasSuffix(bytes.TrimSpace(all), []byte("r1>")):
			fail(&v, "C10:"+s.Style+":bytes-after-login-lost-or-reordered", "script [%s]: after login the channel holds %q; the device sent its first prompt, then %q", scriptS, all, login.Trailer)
		}
	}

	if v.OK && s.Class == "ok" {
		// the bytes read during login remain available to the first operation
		d.Channel.TimeoutOps = 2 * time.Second

		var p string

		var perr error

		fin, pan = withWatchdog(5*time.Second, func() { p, perr = d.GetPrompt() })
		if !fin || pan != nil || perr != nil || strings.TrimSpace(p) != "r1>" {
			fail(&v, "C10:"+s.Style+":first-operation-after-login", "script [%s]: GetPrompt after login -> %q / %v", scriptS, p, perr)
		}
	}

	if v.OK && s.Class == "ok" && s.History == "reopen" {
		g := &gate{reached: map[string]bool{}, at: "C_wait", atFn: func() {
			pipe.Inject([]byte("\r\n%LINK-3-UPDOWN: Interface Gi0/1, changed state to down\r\nr1>"))
			pipe.WaitDrained(500 * time.Millisecond)
			time.Sleep(3 * time.Millisecond)
		}}
		lateRead := s.idx%2 == 0
		if lateRead {
			// the other way for late bytes to arrive: the read that was under way when the transport was closed comes back with
			// them 30 ms AFTER Close has returned - while the second Open is waiting for the old read loop to leave
			g = &gate{reached: map[string]bool{}}

			pipe.Lock()
			pipe.CloseBehaviour = "late"
			pipe.LateOnClose = []byte("\r\n%LINK-3-UPDOWN: Interface Gi0/1, changed state to down\r\nr1>")
			pipe.Unlock()
		}

		curGate.Store(g)

		var e2 error

		d.Channel.TimeoutOps = opTimeout
		fin, pan = withWatchdog(8*time.Second, func() {
			_ = d.Close()

			if lateRead {
				pipe.Lock()
				pipe.CloseBehaviour = "eof"
				pipe.Unlock()
			}

			pipe.Lock()
			login.Log = nil
			pipe.Unlock()

			e2 = d.Open()
		})

		curGate.Store((*gate)(nil))

		pipe.Lock()
		recv2 := append([]simdev.Recv(nil), login.Log...)
		pipe.Unlock()

		var gotL, wantL []string

		for _, r := range recv2 {
			gotL = append(gotL, r.State+"="+r.Line)
		}

		for _, c := range s.Sent {
			wantL = append(wantL, c+"="+cred[c])
		}

		switch {
		case !fin || pan != nil:
			fail(&v, "C10:"+s.Style+":reopen:hang-or-panic", "script [%s]: Close and Open again: returned=%v panic=%v", scriptS, fin, pan)
		case !g.atFired && !lateRead:
			v.OK, v.Sig, v.Detail = false, "TOOL", "Close never reached the yield point at which the device's late message is released"
		case errClass(e2) != "ok":
			fail(&v, "C10:"+s.Style+":reopen:outcome", "script [%s]: the second Open on the same driver -> %v, the device admits us exactly as the first time", scriptS, e2)
		case strings.Join(gotL, "|") != strings.Join(wantL, "|"):
			fail(&v, "C10:"+s.Style+":reopen:device-log", "script [%s]: during the second Open the device received %q, contract says %q (a late message and a redrawn prompt had arrived while the first session was being closed)", scriptS, gotL, wantL)
		}

		if v.OK {
			d.Channel.TimeoutOps = 2 * time.Second

			var p string

			var perr error

			fin, pan = withWatchdog(5*time.Second, func() { p, perr = d.GetPrompt() })
			if !fin || pan != nil || perr != nil || strings.TrimSpace(p) != "r1>" {
				fail(&v, "C10:"+s.Style+":reopen:first-operation-after-login", "script [%s]: GetPrompt after the second login -> %q / %v", scriptS, p, perr)
			}
		}
	}

	if oerr == nil {
		_, _ = withWatchdog(3*time.Second, func() { _ = d.Close() })
	}

	// C11: no credential in any log message or in the channel log
	secrets := []string{c10Pass, c10Passphrase}
	capDebug.mu.Lock()
	msgs := append([]string(nil), capDebug.msgs...)
	capDebug.mu.Unlock()
	chanLogMu.Lock()
	cl := chanLog.String()
	chanLogMu.Unlock()

	if logEnc != nil {
		logMu.Lock()
		_ = logEnc.Encode(map[string]interface{}{"ev": "reset", "t": fmt.Sprintf("%s-%d", s.Style, s.idx), "kind": "login", "class": s.Class})

		for _, m := range msgs {
			_ = logEnc.Encode(map[string]interface{}{"ev": "log", "sink": "logger", "taint": nz(secretsIn(m, secrets)), "len": len(m)})
		}

		_ = logEnc.Encode(map[string]interface{}{"ev": "log", "sink": "channel-log", "taint": nz(secretsIn(cl, secrets)), "len": len(cl)})
		logMu.Unlock()
	}

	v.Extra = map[string]interface{}{"logs": len(msgs)}

	return v
}

func nz(s []string) []string {
	if s == nil {
		return []string{}
	}

	return s
}

type lockedWriter struct {
	b  *bytes.Buffer
	mu *sync.Mutex
}

func (w lockedWriter) Write(p []byte) (int, error) {
	w.mu.Lock()
	defer w.mu.Unlock()

	return w.b.Write(p)
}

func c10(args []string) error {
	var logEnc *json.Encoder

	if len(args) >= 2 && args[0] == "-logtrace" {
		f, err := os.Create(args[1])
		if err != nil {
			return err
		}

		defer f.Close()

		logEnc = json.NewEncoder(f)
	}

	var scns []*c10Scn

	if err := readScenarios(func(raw json.RawMessage) error {
		s := &c10Scn{}
		if err := json.Unmarshal(raw, s); err != nil {
			return err
		}

		s.idx = len(scns)
		if s.Idx != nil {
			s.idx = *s.Idx
		}

		scns = append(scns, s)

		return nil
	}); err != nil {
		return err
	}

	segs := []string{"rand", "one", "whole"}
	logMu := &sync.Mutex{}

	type job struct {
		s   *c10Scn
		seg string
	}

	var jobs []job

	var histories []job

	for _, s := range scns {
		if s.History != "" {
			seg := s.Seg
			if seg == "" {
				seg = segs[s.idx%3]
			}

			histories = append(histories, job{s, seg})

			continue
		}

		if s.Seg != "" {
			jobs = append(jobs, job{s, s.Seg})

			continue
		}

		jobs = append(jobs, job{s, segs[s.idx%3]})

		if tier() == "thorough" {
			jobs = append(jobs, job{s, segs[(s.idx+1)%3]})
		}
	}

	parallel(len(jobs), 10, func(i int) { emit(c10Run(jobs[i].s, jobs[i].seg, logEnc, logMu)) })

	// histories use the library's yield points, which are process-wide: one at a time, after everything else
	for _, j := range histories {
		emit(c10Run(j.s, j.seg, logEnc, logMu))
	}

	_ = util.ErrAuthError

	return nil
}
