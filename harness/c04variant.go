package main

import (
	"fmt"
	"strings"
	"time"

	"github.com/scrapli/scrapligo/driver/options"
	"github.com/scrapli/scrapligo/platform"

	"verifharness/simdev"
)

// C04, drivers built from a platform definition: the default desired level is the variant's when the variant names one (and
// only then), whatever else the variant defines; commands run at that level, configuration lines at the configuration level,
// and the command after them at the default level again.
//   vh c04variant

func init() { register("c04variant", c04variant) }

func c04variant(_ []string) error {
	onOpen := "    - operation: 'acquire-priv'\n"
	base := string(stdPlatformYAML("privilege-exec", onOpen, ""))

	lv := func(_ string) string {
		var y strings.Builder

		for _, name := range []string{"exec", "privilege-exec", "configuration"} {
			l := stdLevels()[name]
			fmt.Fprintf(&y, "        %s:\n          name: '%s'\n          pattern: '%s'\n          previous-priv: '%s'\n          deescalate: '%s'\n          escalate: '%s'\n          escalate-auth: %v\n          escalate-prompt: '%s'\n",
				name, name, l.Pattern, l.PreviousPriv, l.Deescalate, l.Escalate, l.EscalateAuth, l.EscalatePrompt)
		}

		return y.String()
	}

	variants := "variants:\n" +
		"  level-only:\n    default-desired-privilege-level: 'exec'\n" +
		"  tree-only:\n    privilege-levels:\n" + lv("") +
		"  both:\n    privilege-levels:\n" + lv("") + "    default-desired-privilege-level: 'exec'\n" +
		"  neither:\n    failed-when-contains:\n      - 'never printed'\n"
	def := base + variants

	cases := []struct{ variant, want string }{
		{"", "privilege-exec"}, {"level-only", "exec"}, {"tree-only", "privilege-exec"}, {"both", "exec"}, {"neither", "privilege-exec"},
	}

	for k, c := range cases {
		v := verdict{ID: k, Variant: "variant=" + c.variant, OK: true, Nontrivial: true}
		cli := stdCLI("exec")
		pipe := simdev.NewPipe(cli, int64(k))
		pipe.Seg = simdev.Seg{Mode: "rand", Max: 9}
		var p *platform.Platform

		var err error

		if c.variant == "" {
			p, err = platform.NewPlatform([]byte(def), "sim", options.WithCustomTransport(pipe), options.WithReadDelay(30*time.Microsecond), options.WithTimeoutOps(3*time.Second), options.WithAuthSecondary(stdSecret))
		} else {
			p, err = platform.NewPlatformVariant([]byte(def), c.variant, "sim", options.WithCustomTransport(pipe), options.WithReadDelay(30*time.Microsecond), options.WithTimeoutOps(3*time.Second), options.WithAuthSecondary(stdSecret))
		}

		if err != nil {
			fail(&v, "C04:platform-variant:load", "variant %q: %v", c.variant, err)
			emit(v)

			continue
		}

		d, err := p.GetNetworkDriver()
		if err == nil {
			err = d.Open()
		}

		if err != nil {
			fail(&v, "C04:platform-variant:open", "variant %q: %v", c.variant, err)
			emit(v)

			continue
		}

		modeOf := func(line string) string {
			pipe.Lock()
			defer pipe.Unlock()

			m := ""

			for _, r := range cli.Log {
				if r.Line == line {
					m = r.Mode
				}
			}

			return m
		}

		fin, pan := withWatchdog(20*time.Second, func() {
			if d.DefaultDesiredPriv != c.want {
				fail(&v, "C04:platform-variant:default-level", "variant %q: the driver's default desired level is %q, the definition says %q", c.variant, d.DefaultDesiredPriv, c.want)

				return
			}

			if _, e := d.SendCommand("show z8"); e != nil {
				fail(&v, "C04:platform-variant:command:error", "variant %q: %v", c.variant, e)

				return
			}

			if m := modeOf("show z8"); m != c.want {
				fail(&v, "C04:platform-variant:command-level", "variant %q: the command ran at %q, the default desired level is %q", c.variant, m, c.want)

				return
			}

			if _, e := d.SendConfigs([]string{"hostname k3"}); e != nil {
				fail(&v, "C04:platform-variant:configs:error", "variant %q: %v", c.variant, e)

				return
			}

			if m := modeOf("hostname k3"); m != "configuration" {
				fail(&v, "C04:platform-variant:config-level", "variant %q: the configuration line arrived at %q", c.variant, m)

				return
			}

			if _, e := d.SendCommand("show v7"); e != nil {
				fail(&v, "C04:platform-variant:command:error", "variant %q, after the configuration: %v", c.variant, e)

				return
			}

			if m := modeOf("show v7"); m != c.want {
				fail(&v, "C04:platform-variant:command-level", "variant %q: after a configuration the command ran at %q, the default desired level is %q", c.variant, m, c.want)
			}
		})
		if !fin || pan != nil {
			fail(&v, "C04:platform-variant:hang-or-panic", "variant %q: returned=%v panic=%v", c.variant, fin, pan)
		}

		_, _ = withWatchdog(5*time.Second, func() { _ = d.Close() })

		emit(v)
	}

	return nil
}
