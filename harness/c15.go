package main

import (
	"bytes"
	"encoding/json"
	"fmt"
	"net"
	"time"

	"github.com/scrapli/scrapligo/driver/options"
	"github.com/scrapli/scrapligo/logging"
	"github.com/scrapli/scrapligo/transport"
)

// C15: every opening of Telnet.tla sent by a loopback TCP server in several segmentations; the replies the
// server receives and the bytes the first reads return are compared with the machine's prediction.

func init() { register("c15", c15) }

type c15Scn struct {
	Bytes    []int  `json:"bytes"`
	Replies  []int  `json:"replies"`
	Data     []int  `json:"data"`
	NItems   int    `json:"nitems"`
	Cut      string `json:"cut,omitempty"`
	ReadSize int    `json:"readsize,omitempty"`
	Retry    *bool  `json:"retry,omitempty"` // replay: whether an opening that broke off in the middle of a request preceded this one
	idx      int
}

func toBytes(a []int) []byte {
	b := make([]byte, len(a))
	for i, x := range a {
		b[i] = byte(x)
	}

	return b
}

func c15Segments(b []byte, cut string) [][]byte {
	switch cut {
	case "bytes":
		var s [][]byte
		for i := range b {
			s = append(s, b[i:i+1])
		}

		return s
	case "mid-iac":
		// cut after every IAC
		var s [][]byte

		start := 0

		for i := range b {
			if b[i] == 255 && i+1 < len(b) {
				s = append(s, b[start:i+1])
				start = i + 1
			}
		}

		return append(s, b[start:])
	case "paused4":
		// four pieces (fewer when the opening is shorter)
		var s [][]byte

		q := (len(b) + 3) / 4
		if q == 0 {
			return [][]byte{b}
		}

		for i := 0; i < len(b); i += q {
			e := i + q
			if e > len(b) {
				e = len(b)
			}

			s = append(s, b[i:e])
		}

		return s
	case "halves", "paused":
		h := len(b) / 2
		if h == 0 {
			return [][]byte{b}
		}

		return [][]byte{b[:h], b[h:]}
	}

	return [][]byte{b}
}

func c15Run(s *c15Scn, cut string) verdict {
	v := verdict{ID: s.idx, Variant: cut, OK: true, Nontrivial: len(s.Replies) > 0 || len(s.Data) > 0}
	opening := toBytes(s.Bytes)
	wantReplies := toBytes(s.Replies)
	wantData := toBytes(s.Data)

	ln, err := net.Listen("tcp", "127.0.0.1:0")
	if err != nil {
		fail(&v, "C15:harness:listen", "%v", err)

		return v
	}

	defer ln.Close()

	gotReplies := make(chan []byte, 1)
	clientDone := make(chan struct{})

	// every third opening is a second attempt on the same transport object: the first attempt reached a server that went away
	// in the middle of a request (IAC DO, then the connection is closed)
	retry := s.idx%3 == 1
	if s.Retry != nil {
		retry = *s.Retry
	}

	// "paused4": the opening arrives in four pieces 120 ms apart - every gap well inside the window (half of the 600 ms socket
	// timeout after the latest byte), the whole longer than one window
	sockTimeout := 240 * time.Millisecond
	if cut == "paused4" {
		sockTimeout = 600 * time.Millisecond
	}

	go func() {
		if retry {
			c0, aerr := ln.Accept()
			if aerr != nil {
				gotReplies <- nil

				return
			}

			if s.idx%2 == 0 {
				// the server of the first attempt had something to say before it went away: that was another connection
				_, _ = c0.Write(append([]byte("too many sessions, try later\r\n"), 255, 253))
			} else {
				_, _ = c0.Write([]byte{255, 253})
			}
			time.Sleep(5 * time.Millisecond)
			_ = c0.Close()
		}

		c, aerr := ln.Accept()
		if aerr != nil {
			gotReplies <- nil

			return
		}

		defer c.Close()

		for _, seg := range c15Segments(opening, cut) {
			_, _ = c.Write(seg)

			if cut == "paused4" {
				time.Sleep(120 * time.Millisecond)
			} else if cut == "paused" {
				// a pause well inside the documented window (half of the 240 ms socket timeout after the first byte)
				time.Sleep(65 * time.Millisecond)
			} else {
				time.Sleep(3 * time.Millisecond)
			}
		}

		var rb []byte

		buf := make([]byte, 256)

		for {
			_ = c.SetReadDeadline(time.Now().Add(450*time.Millisecond + sockTimeout - 240*time.Millisecond))

			n, rerr := c.Read(buf)
			rb = append(rb, buf[:n]...)

			if rerr != nil || len(rb) >= len(wantReplies)+6 {
				break
			}

			if len(rb) >= len(wantReplies) {
				// give a short grace for surplus replies
				_ = c.SetReadDeadline(time.Now().Add(60 * time.Millisecond))

				n, _ = c.Read(buf)
				rb = append(rb, buf[:n]...)

				break
			}
		}

		gotReplies <- rb
		<-clientDone // keep the connection up until the client is through with it
	}()

	port := ln.Addr().(*net.TCPAddr).Port
	li, _ := logging.NewInstance()

	// small read sizes: data buffered during negotiation must survive being handed out in several reads
	readSize := []int{8192, 2, 1, 8192}[s.idx%4]
	if s.ReadSize > 0 {
		readSize = s.ReadSize
	}

	v.Variant = fmt.Sprintf("%s/%d", cut, readSize)

	t, err := transport.NewTransport(li, "127.0.0.1", transport.TelnetTransport, options.WithPort(port), options.WithTimeoutSocket(sockTimeout),
		options.WithTransportReadSize(readSize))
	if err != nil {
		fail(&v, "C15:harness:new", "%v", err)

		return v
	}

	defer close(clientDone)

	v.Variant = fmt.Sprintf("%s/%d/%v", cut, readSize, retry)

	if retry {
		fin0, pan0 := withWatchdog(5*time.Second, func() {
			_ = t.Open() // whatever it reports
			_ = t.Close(true)
		})
		if !fin0 || pan0 != nil {
			fail(&v, "C15:open-that-breaks-off", "the opening that breaks off after IAC DO: returned=%v panic=%v", fin0, pan0)

			return v
		}
	}

	var oerr error

	fin, pan := withWatchdog(5*time.Second, func() { oerr = t.Open() })
	if !fin || pan != nil || oerr != nil {
		fail(&v, "C15:open", "Open: fin=%v pan=%v err=%v (opening % x)", fin, pan, oerr, opening)

		return v
	}

	var got []byte

	if len(wantData) > 0 {
		done := make(chan struct{})

		go func() {
			defer close(done)

			for len(got) < len(wantData)+4 {
				b, rerr := t.Read()
				got = append(got, b...)

				if rerr != nil || len(bytes.Trim(got, "\xff\xf1\xf9")) >= len(wantData) {
					return
				}
			}
		}()

		select {
		case <-done:
		case <-time.After(700 * time.Millisecond):
		}
	}

	replies := <-gotReplies
	_ = t.Close(true)

	// data: after deleting the bytes whose treatment is left open (0xFF, NOP, GA) the plain data must be there, in order
	plain := bytes.ReplaceAll(got, []byte{255}, nil)
	plain = bytes.ReplaceAll(plain, []byte{241}, nil)
	plain = bytes.ReplaceAll(plain, []byte{249}, nil)

	switch {
	case !bytes.Equal(replies, wantReplies):
		kind := "wrong-reply"
		if len(replies) < len(wantReplies) {
			kind = "missing-reply"
		} else if len(replies) > len(wantReplies) {
			kind = "surplus-reply"
		}

		fail(&v, "C15:"+kind, "opening % x (%s): server received % x, machine predicts % x", opening, cut, replies, wantReplies)
	case !bytes.Equal(plain, wantData):
		kind := "data-lost"
		if len(plain) > len(wantData) {
			kind = "negotiation-bytes-delivered"
		}

		if retry && bytes.Contains(plain, []byte("too many sessions")) {
			kind = "bytes-of-an-earlier-connection-delivered"
		}

		fail(&v, "C15:"+kind, "opening % x (%s): reads returned % x, plain data is % x", opening, cut, got, wantData)
	}

	return v
}

func c15(_ []string) error {
	var scns []*c15Scn

	if err := readScenarios(func(raw json.RawMessage) error {
		s := &c15Scn{}
		if err := json.Unmarshal(raw, s); err != nil {
			return err
		}

		s.idx = len(scns)
		scns = append(scns, s)

		return nil
	}); err != nil {
		return err
	}

	cuts := []string{"whole", "bytes", "mid-iac", "halves", "paused", "paused4", "whole", "bytes", "mid-iac", "halves", "paused"}

	type job struct {
		s   *c15Scn
		cut string
	}

	var jobs []job

	for _, s := range scns {
		if s.Cut != "" {
			jobs = append(jobs, job{s, s.Cut})

			continue
		}

		jobs = append(jobs, job{s, cuts[s.idx%len(cuts)]})

		if tier() == "thorough" {
			jobs = append(jobs, job{s, cuts[(s.idx+1)%len(cuts)]}, job{s, cuts[(s.idx+2)%len(cuts)]})
		} else if len(s.Bytes) > 2 {
			jobs = append(jobs, job{s, cuts[(s.idx+1)%len(cuts)]})
		}
	}

	parallel(len(jobs), 32, func(i int) { emit(c15Run(jobs[i].s, jobs[i].cut)) })

	_ = fmt.Sprint

	return nil
}
