package main

import (
	"strings"
	"time"

	"github.com/scrapli/scrapligo/driver/generic"
	"github.com/scrapli/scrapligo/driver/opoptions"
	"github.com/scrapli/scrapligo/driver/options"

	"verifharness/simdev"
)

// C18, callbacks without a function of their own (a trigger that only resets the output, or only marks a point in the
// dialogue): their firings cannot be observed from inside, so these dialogues are judged by their outcome alone. The device
// prints its pieces by itself, 40 ms apart (a pager that times out).
//   once-twice : [once, no function, trigger "--more--"] [complete on "finished"];  --more--  --more--  finished   -> operation error
//   once-once  : the same list;                                                      --more--  finished            -> ok, whole dialogue
//   many-twice : [repeatable, no function, trigger "--more--"] [complete];           --more--  --more--  finished   -> ok, whole dialogue
//   vh c18nil

func init() { register("c18nil", c18nil) }

func c18nil(_ []string) error {
	id := 0

	for _, seg := range []string{"rand", "one", "whole"} {
		for _, kind := range []string{"once-twice", "once-once", "many-twice"} {
			id++
			v := verdict{ID: id, Variant: kind + "/" + seg, OK: true, Nontrivial: true}

			pieces := []string{" --more-- #", " --more-- #", "all finished\r\nr1# "}
			if kind == "once-once" {
				pieces = pieces[1:]
			}

			cli := &simdev.CLI{Prompts: map[string]string{"m": "r1# "}, Mode: "m", Banner: "hi\r\n", NoPrompt: true}

			var pipe *simdev.Pipe

			cli.Handler = func(c *simdev.CLI, line string) string {
				c.NoPrompt = true

				if line != "go" {
					return ""
				}

				go func() {
					for _, p := range pieces[1:] {
						time.Sleep(40 * time.Millisecond)
						pipe.Inject([]byte(p))
					}
				}()

				return pieces[0]
			}
			cli.OnReturn = func(c *simdev.CLI) { c.NoPrompt = true }
			pipe = simdev.NewPipe(cli, int64(id))
			pipe.Seg = faultSegs[seg]

			d, err := generic.NewDriver("sim", options.WithCustomTransport(pipe), options.WithReadDelay(30*time.Microsecond), options.WithTimeoutOps(2*time.Second))
			if err == nil {
				err = d.Open()
			}

			if err != nil {
				v.OK, v.Sig, v.Detail = false, "TOOL", err.Error()
				emit(v)

				continue
			}

			pipe.WaitDrained(time.Second)
			time.Sleep(2 * time.Millisecond)

			for {
				if b, _ := d.Channel.ReadAll(); b == nil {
					break
				}
			}

			var cb1 *generic.Callback

			if kind == "many-twice" {
				cb1, _ = generic.NewCallback(nil, opoptions.WithCallbackContains("--more--"), opoptions.WithCallbackResetOutput())
			} else {
				cb1, _ = generic.NewCallback(nil, opoptions.WithCallbackContains("--more--"), opoptions.WithCallbackResetOutput(), opoptions.WithCallbackOnce())
			}

			cb2, _ := generic.NewCallback(nil, opoptions.WithCallbackContains("finished"), opoptions.WithCallbackComplete())

			var res string

			var oerr error

			fin, pan := withWatchdog(10*time.Second, func() {
				r, e := d.SendWithCallbacks("go", []*generic.Callback{cb1, cb2}, 600*time.Millisecond)
				oerr = e

				if r != nil {
					res = r.Result
				}
			})

			class := errClass(oerr)

			switch {
			case !fin || pan != nil:
				fail(&v, "C18:no-function:hang-or-panic", "%s: returned=%v panic=%v", kind, fin, pan)
			case kind == "once-twice" && class != "operation":
				fail(&v, "C18:no-function:once-fires-twice", "a callback marked once (it has no function of its own) whose trigger came up twice: outcome %s (%v, result %q), expected the operation error", class, oerr, res)
			case kind != "once-twice" && (class != "ok" || !strings.Contains(res, "finished") || strings.Count(res, "--more--") != len(pieces)-1):
				fail(&v, "C18:no-function:wrong-outcome", "%s: outcome %s (%v), result %q; expected success with the whole dialogue", kind, class, oerr, res)
			}

			time.Sleep(100 * time.Millisecond)
			_, _ = withWatchdog(3*time.Second, func() { _ = d.Close() })

			emit(v)
		}
	}

	return nil
}
