package main

import (
	"bytes"
	"encoding/json"
	"errors"
	"fmt"
	"io"
	"strings"
	"sync"
	"time"

	"github.com/scrapli/scrapligo/driver/generic"
	"github.com/scrapli/scrapligo/driver/options"
	"github.com/scrapli/scrapligo/transport"
)

// C20, the queue as the channel's read loop feeds it (Queue.tla: producer = read loop, consumer = Channel.Read / ReadAll):
// the history "enqueue x N, then dequeue x N (or dequeue-all)" with the producer far ahead of the consumer. The transport hands
// out the same buffer on every Read (a transport written by a user may do that; io.Reader style) - a chunk that is held in
// the queue is the chunk that was produced, whatever the transport does with its buffer afterwards.

func init() { register("c20chan", c20chan) }

type c20ChanScn struct {
	Style string `json:"style"` // plain | cr | esc | mixed : what the chunks contain
	Take  string `json:"take"`  // read | readall
	N     int    `json:"n"`
	Reuse bool   `json:"reuse"` // the transport reuses one buffer for every Read
	// FailAt > 0: the read in front of chunk number FailAt fails once (a transient error); the consumer is told once, and
	// every chunk - those queued before the error as well - is still obtained
	FailAt int `json:"failat,omitempty"`
}

type reuseTransport struct {
	mu     sync.Mutex
	buf    []byte
	chunks [][]byte
	i      int
	reuse  bool
	failAt int
	failed bool
	closed chan struct{}
	once   sync.Once
}

func (t *reuseTransport) Open(_ *transport.Args) error { return nil }
func (t *reuseTransport) Close() error                 { t.once.Do(func() { close(t.closed) }); return nil }
func (t *reuseTransport) IsAlive() bool                { return true }
func (t *reuseTransport) Write(_ []byte) error         { return nil }

func (t *reuseTransport) Read(_ int) ([]byte, error) {
	t.mu.Lock()

	if t.failAt > 0 && t.i == t.failAt && !t.failed {
		t.failed = true
		t.mu.Unlock()

		return nil, errors.New("transient read error")
	}

	if t.i < len(t.chunks) {
		c := t.chunks[t.i]
		t.i++

		if !t.reuse {
			t.mu.Unlock()

			return append([]byte(nil), c...), nil
		}

		k := copy(t.buf, c)
		b := t.buf[:k]
		t.mu.Unlock()

		return b, nil
	}

	t.mu.Unlock()
	<-t.closed

	return nil, io.EOF
}

func c20ChanOne(idx int, s *c20ChanScn) verdict {
	v := verdict{ID: idx, Variant: fmt.Sprintf("%s/%s/reuse=%v", s.Style, s.Take, s.Reuse), OK: true, Nontrivial: true}
	t := &reuseTransport{buf: make([]byte, 64), reuse: s.Reuse, failAt: s.FailAt, closed: make(chan struct{})}

	var want strings.Builder

	for k := 0; k < s.N; k++ {
		var c string

		switch {
		case s.Style == "plain" || (s.Style == "mixed" && k%3 == 0):
			c = fmt.Sprintf("<chunk-%04d>", k)
			want.WriteString(c)
		case s.Style == "cr" || (s.Style == "mixed" && k%3 == 1):
			c = fmt.Sprintf("<chunk-%04d>\r\n", k)
			want.WriteString(fmt.Sprintf("<chunk-%04d>\n", k))
		default:
			c = fmt.Sprintf("<chunk\x1b[0m-%04d>", k)
			want.WriteString(fmt.Sprintf("<chunk-%04d>", k))
		}

		t.chunks = append(t.chunks, []byte(c))
	}

	d, err := generic.NewDriver("sim", options.WithCustomTransport(t), options.WithReadDelay(20*time.Microsecond), options.WithTimeoutOps(2*time.Second))
	if err == nil {
		err = d.Open()
	}

	if err != nil {
		v.OK, v.Sig, v.Detail = false, "TOOL", fmt.Sprintf("open: %v", err)

		return v
	}

	defer func() { _, _ = withWatchdog(3*time.Second, func() { _ = d.Close() }) }()

	// the read loop runs ahead: every chunk is in the queue before the consumer takes the first one
	for deadline := time.Now().Add(3 * time.Second); time.Now().Before(deadline); {
		t.mu.Lock()
		done := t.i == len(t.chunks)
		t.mu.Unlock()

		if done {
			break
		}

		time.Sleep(200 * time.Microsecond)
	}

	time.Sleep(2 * time.Millisecond)

	var got bytes.Buffer

	pieces := 0
	errs := 0

	fin, pan := withWatchdog(5*time.Second, func() {
		for deadline := time.Now().Add(1500 * time.Millisecond); got.Len() < want.Len() && time.Now().Before(deadline); {
			var b []byte

			var rerr error

			if s.Take == "readall" {
				b, rerr = d.Channel.ReadAll()
			} else {
				b, rerr = d.Channel.Read()
			}

			if rerr != nil {
				if s.FailAt > 0 && errs == 0 {
					errs++ // the one transient error is reported; the session goes on

					continue
				}

				break
			}

			if len(b) > 0 {
				pieces++
			}

			got.Write(b)

			if len(b) == 0 {
				time.Sleep(100 * time.Microsecond)
			}
		}
	})

	switch {
	case !fin || pan != nil:
		fail(&v, "C20:channel-read:hang-or-panic", "consumer: returned=%v panic=%v", fin, pan)
	case got.String() != want.String():
		at := 0
		for at < got.Len() && at < want.Len() && got.Bytes()[at] == want.String()[at] {
			at++
		}

		fail(&v, "C20:channel-read:bytes-differ", "%d chunks produced (%s, transport reuses its buffer: %v), consumer (%s, %d pieces) obtained %d bytes of %d; first difference at byte %d: got %q, produced %q",
			s.N, s.Style, s.Reuse, s.Take, pieces, got.Len(), want.Len(), at, clip(got.String(), at), clip(want.String(), at))
	}

	return v
}

func clip(s string, at int) string {
	a, b := at-12, at+24
	if a < 0 {
		a = 0
	}

	if b > len(s) {
		b = len(s)
	}

	if a > b {
		a = b
	}

	return s[a:b]
}

func c20chan(_ []string) error {
	var scns []*c20ChanScn

	if err := readScenarios(func(raw json.RawMessage) error {
		s := &c20ChanScn{}
		if err := json.Unmarshal(raw, s); err != nil {
			return err
		}

		scns = append(scns, s)

		return nil
	}); err != nil {
		return err
	}

	for i, s := range scns {
		emit(c20ChanOne(i, s))
	}

	return nil
}
