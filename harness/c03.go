package main

import (
	"bytes"
	"encoding/json"
	"encoding/xml"
	"fmt"
	"io"
	"os"
	"sort"
	"strings"
	"time"

	"github.com/scrapli/scrapligo/driver/opoptions"
	"github.com/scrapli/scrapligo/driver/options"
	"github.com/scrapli/scrapligo/response"
	"github.com/scrapli/scrapligo/util"

	"verifharness/simdev"
)

// C03: sessions of NcReqScn.tla; what the client transmitted is recorded for NcRequestTrace.tla.
//   vh c03 -out trace.ndjson < scenarios

func init() { register("c03", c03) }

type c03Op struct {
	Op     string `json:"op"`
	Arg    string `json:"arg"`
	Store  string `json:"store"`
	Store2 string `json:"store2"`
}

type c03Scn struct {
	ID        int     `json:"id"`
	Version   string  `json:"version"`
	Prev      string  `json:"prev"`
	SelfClose bool    `json:"selfclose"`
	Header    bool    `json:"header"`
	Ops       []c03Op `json:"ops"`
}

var c03Args = map[string]string{
	"ascii":                `<interfaces><interface><name>eth0</name></interface></interfaces>`,
	"multibyte":            `<location>Zürich — 核心机房</location>`,
	"long":                 `<d>` + strings.Repeat("x", 5000) + `</d>`,
	"attrs":                `<a b="1" c='two'><e f="&lt;g&gt;"/></a>`,
	"namespaces":           `<if:interfaces xmlns:if="urn:x:if"><if:interface xmlns:nc="urn:ietf:params:xml:ns:netconf:base:1.0" nc:operation="delete"/></if:interfaces>`,
	"empty-elements":       `<top><empty></empty><also/><ws> </ws><keep>1</keep></top>`,
	"comment-before-close": `<cdp><!-- note --></cdp>`,
	"cdata":                `<motd><![CDATA[a & b]]></motd>`,
	"pi":                   `<x><?proc instr?></x>`,
	"whitespace-only":      `<w>  </w>`,
	"mixed":                `<m>text<b></b>tail</m>`,
	"prefixed-empty":       `<oc:c xmlns:oc="urn:x:oc"><oc:enabled></oc:enabled><oc:name>x</oc:name><oc:also></oc:also></oc:c>`,
	"same-name-nested":     `<interfaces><interface><interface name="x"/></interface><interface name="y"></interface></interfaces>`,
	"percent":              `<description>100% reserved, a%2Fb if%20doc %d %s %v %%</description>`,
}

var c03XPath = map[string]string{
	"ascii": `/interfaces/interface`, "multibyte": `/a[b='Zürich']`, "attrs": `/a[@b="1"]/c`, "percent": `/a[b='50%25 %s']`, "long": "/" + strings.Repeat("seg/", 300) + "x",
}

// canon renders an XML document as a canonical token list.
func canon(doc string) (string, error) {
	dec := xml.NewDecoder(strings.NewReader(doc))

	var b strings.Builder

	depth := 0

	for {
		tok, err := dec.Token()
		if err == io.EOF {
			break
		}

		if err != nil {
			return "", err
		}

		switch t := tok.(type) {
		case xml.StartElement:
			depth++

			attrs := []string{}
			for _, a := range t.Attr {
				attrs = append(attrs, fmt.Sprintf("%s %s=%q", a.Name.Space, a.Name.Local, a.Value))
			}

			sort.Strings(attrs)
			fmt.Fprintf(&b, "<%s %s [%s]>", t.Name.Space, t.Name.Local, strings.Join(attrs, ","))
		case xml.EndElement:
			depth--

			fmt.Fprintf(&b, "</%s %s>", t.Name.Space, t.Name.Local)
		case xml.CharData:
			if s := strings.TrimSpace(string(t)); s != "" {
				fmt.Fprintf(&b, "T(%q)", s)
			}
		case xml.Comment:
			fmt.Fprintf(&b, "C(%q)", string(t))
		case xml.ProcInst:
			if t.Target != "xml" {
				fmt.Fprintf(&b, "P(%s %q)", t.Target, string(t.Inst))
			}
		}
	}

	if depth != 0 {
		return "", fmt.Errorf("unbalanced document")
	}

	return b.String(), nil
}

func classify(framed []byte, version string) []string {
	out := make([]string, 0, len(framed))

	for i := 0; i < len(framed); i++ {
		c := framed[i]

		switch {
		case version == "1.0" && bytes.HasPrefix(framed[i:], []byte("]]>]]>")):
			out = append(out, "D")
			i += 5
		case c == '#':
			out = append(out, "H")
		case c == '\n':
			out = append(out, "N")
		case c == ' ':
			out = append(out, "_")
		case c >= '0' && c <= '9':
			out = append(out, string(c))
		default:
			out = append(out, "x")
		}
	}

	return out
}

func c03Session(s *c03Scn, enc *json.Encoder) verdict {
	v := verdict{ID: s.ID, OK: true, Nontrivial: true}
	extra := []util.Option{}

	if s.SelfClose {
		extra = append(extra, options.WithNetconfForceSelfClosingTags())
	}

	if !s.Header {
		extra = append(extra, options.WithNetconfExcludeHeader())
	}

	if s.Prev == "mismatch" {
		// the user requires a version the peer does not offer: Open must refuse; a session that comes up all the same frames
		// its requests in a way the two hellos never agreed on
		other := "1.0"
		if s.Version == "1.0" {
			other = "1.1"
		}

		ms, merr := newNcSession(ncConfig{adv10: other == "1.0", adv11: other == "1.1", preferred: s.Version, seg: faultSegs["rand"], seed: int64(s.ID), timeout: 2 * time.Second, extra: extra, reply: ncReplyOK})
		if merr != nil {
			v.OK, v.Sig, v.Detail = false, "TOOL", merr.Error()

			return v
		}

		var oerr error

		fin, pan := withWatchdog(8*time.Second, func() {
			if oerr = ms.d.Open(); oerr == nil {
				_, _ = ms.d.Get("")
				_ = ms.d.Close()
			}
		})

		ms.pipe.Lock()
		ch, nreq := ms.srv.ClientHello, len(ms.srv.Requests)
		ms.pipe.Unlock()

		if !fin || pan != nil {
			fail(&v, "C03:"+s.Version+":version-mismatch:hang-or-panic", "user requires %s, peer offers only %s: returned=%v panic=%v", s.Version, other, fin, pan)
		} else if oerr == nil {
			fail(&v, "C03:"+s.Version+":framing-not-negotiated", "user requires %s, the peer offers only %s: Open succeeded, the client's hello is %q and %d request(s) went out in a framing the peer never offered", s.Version, other, ch, nreq)
		}

		return v
	}

	cfg := ncConfig{adv10: true, adv11: true, preferred: s.Version, seg: faultSegs["rand"], seed: int64(s.ID), timeout: 3 * time.Second, extra: extra, reply: ncReplyOK}
	if s.Prev == "1.0" || s.Prev == "1.1" {
		cfg.adv10, cfg.adv11, cfg.preferred = s.Prev == "1.0", s.Prev == "1.1", ""
	}

	sess, err := newNcSession(cfg)
	if err == nil && cfg.preferred == "" {
		// the earlier session: opened and closed again; then the peer changes what it offers
		if err = sess.d.Open(); err == nil {
			if _, gerr := sess.d.Get(""); gerr != nil {
				err = gerr
			}
		}

		if err == nil {
			_ = sess.d.Close()

			only := "urn:ietf:params:netconf:base:" + s.Version

			sess.pipe.Lock()
			sess.srv.Hello = simdev.HelloXML([]string{only, "urn:example:cap:2.0"}, "43", "", true, false)
			sess.srv.Advertises = map[string]bool{"1.0": s.Version == "1.0", "1.1": s.Version == "1.1"}
			sess.srv.Requests, sess.srv.FramingErrors = nil, nil
			sess.pipe.Unlock()
		}

		if err != nil {
			// the earlier session is a session like any other: its open and its one request are in order
			fail(&v, "C03:"+s.Prev+":earlier-session:error", "the earlier session (peer offers only %s; open, one get): %v", s.Prev, err)

			return v
		}
	}

	if err == nil {
		err = sess.d.Open()
	}

	if err != nil {
		fail(&v, "C03:open-error", "%v", err)

		return v
	}

	defer func() { _, _ = withWatchdog(3*time.Second, func() { _ = sess.d.Close() }) }()

	if cfg.preferred == "" {
		sess.pipe.Lock()
		ch := sess.srv.ClientHello
		sess.pipe.Unlock()

		if !strings.Contains(ch, "<capability>urn:ietf:params:netconf:base:"+s.Version+"</capability>") {
			fail(&v, "C03:"+s.Version+":framing-not-negotiated", "second session on the same driver (the first peer offered only %s, this one offers only %s): the client's hello does not offer %s: %q", s.Prev, s.Version, s.Version, ch)

			return v
		}
	}

	events := []map[string]interface{}{{"ev": "reset", "t": s.ID, "version": s.Version, "selfclose": s.SelfClose, "header": s.Header}}
	d := sess.d

	idOff := 0

	for j, op := range s.Ops {
		if j == 1 && s.ID%3 == 0 {
			// an extra request whose payload write is refused by the transport: the call fails, nothing of it may reach the
			// server - in particular not the return that normally follows the payload - and its message-id is used up
			sess.pipe.ArmWriteFailure(0)

			if _, ferr := d.Get(""); ferr == nil {
				fail(&v, "C03:"+s.Version+":write-error-ignored", "a request whose payload write failed was reported as sent")

				break
			}

			idOff++
		}

		arg := c03Args[op.Arg]
		xp, okx := c03XPath[op.Arg]

		if !okx {
			xp = c03XPath["ascii"]
		}

		var r *response.NetconfResponse

		var oerr error

		var inner string

		given := arg // caller-provided markup (for counting pre-existing self-closing tags)

		fin, pan := withWatchdog(10*time.Second, func() {
			switch op.Op {
			case "get":
				r, oerr = d.Get("")
				inner, given = `<get></get>`, ""
			case "get-filter":
				r, oerr = d.Get(arg)
				inner = `<get><filter type="subtree">` + arg + `</filter></get>`
			case "get-xpath":
				r, oerr = d.Get(xp, opoptions.WithFilterType("xpath"))
				inner, given = `<get><filter type="xpath" select="`+xmlAttr(xp)+`"></filter></get>`, ""
			case "get-config":
				r, oerr = d.GetConfig(op.Store)
				inner, given = `<get-config><source><`+op.Store+`/></source></get-config>`, ""
			case "get-config-filter":
				r, oerr = d.GetConfig(op.Store, opoptions.WithFilter(arg))
				inner = `<get-config><source><` + op.Store + `/></source><filter type="subtree">` + arg + `</filter></get-config>`
			case "get-config-defaults":
				r, oerr = d.GetConfig(op.Store, opoptions.WithDefaultType("report-all"))
				inner, given = `<get-config><source><`+op.Store+`/></source><with-defaults xmlns="urn:ietf:params:xml:ns:yang:ietf-netconf-with-defaults">report-all</with-defaults></get-config>`, ""
			case "edit-config":
				r, oerr = d.EditConfig(op.Store, "<config>"+arg+"</config>")
				inner = `<edit-config><target><` + op.Store + `/></target><config>` + arg + `</config></edit-config>`
			case "copy-config":
				r, oerr = d.CopyConfig(op.Store, op.Store2)
				inner, given = `<copy-config><target><`+op.Store2+`/></target><source><`+op.Store+`/></source></copy-config>`, ""
			case "delete-config":
				r, oerr = d.DeleteConfig(op.Store)
				inner, given = `<delete-config><target><`+op.Store+`/></target></delete-config>`, ""
			case "lock":
				r, oerr = d.Lock(op.Store)
				inner, given = `<lock><target><`+op.Store+`/></target></lock>`, ""
			case "unlock":
				r, oerr = d.Unlock(op.Store)
				inner, given = `<unlock><target><`+op.Store+`/></target></unlock>`, ""
			case "validate":
				r, oerr = d.Validate(op.Store)
				inner, given = `<validate><source><`+op.Store+`/></source></validate>`, ""
			case "commit":
				r, oerr = d.Commit()
				inner, given = `<commit></commit>`, ""
			case "commit-confirmed":
				r, oerr = d.Commit(opoptions.WithCommitConfirmed(), opoptions.WithCommitConfirmTimeout(120))
				inner, given = `<commit><confirmed/><confirm-timeout>120</confirm-timeout></commit>`, ""
			case "commit-persist":
				r, oerr = d.Commit(opoptions.WithCommitConfirmed(), opoptions.WithCommitConfirmedPersist("tok-1"))
				inner, given = `<commit><confirmed/><persist>tok-1</persist></commit>`, ""
			case "commit-persist-id":
				// the last step of a persistent confirmed commit: the id alone, no <confirmed/>
				r, oerr = d.Commit(opoptions.WithCommitConfirmedPersistID("tok-1"))
				inner, given = `<commit><persist-id>tok-1</persist-id></commit>`, ""
			case "commit-all":
				r, oerr = d.Commit(opoptions.WithCommitConfirmedPersist("tok-2"), opoptions.WithCommitConfirmTimeout(60), opoptions.WithCommitConfirmed())
				inner, given = `<commit><confirmed/><confirm-timeout>60</confirm-timeout><persist>tok-2</persist></commit>`, ""
			case "commit-timeout":
				r, oerr = d.Commit(opoptions.WithCommitConfirmTimeout(30))
				inner, given = `<commit><confirm-timeout>30</confirm-timeout></commit>`, ""
			case "discard":
				r, oerr = d.Discard()
				inner, given = `<discard-changes/>`, ""
			default:
				r, oerr = d.RPC(opoptions.WithFilter(arg))
				inner = arg
			}
		})

		sess.pipe.Lock()
		nreq := len(sess.srv.Requests)
		ferrs := len(sess.srv.FramingErrors)
		ferrText := strings.Join(sess.srv.FramingErrors, "; ")

		var framed, payload string

		msgid := 0

		if nreq >= j+1 {
			framed, payload, msgid = sess.srv.Requests[j].Framed, sess.srv.Requests[j].Payload, sess.srv.Requests[j].MsgID
		}
		sess.pipe.Unlock()

		if j == 0 && cfg.preferred == "" && msgid > 0 {
			// where the ids of a later session on the same object start is the client's business; from there on they are consecutive
			idOff = msgid - 101
		}

		switch {
		case !fin:
			fail(&v, "C03:"+op.Op+":hang", "operation %d (%s) did not return", j+1, op.Op)
		case pan != nil:
			fail(&v, "C03:"+op.Op+":panic", "operation %d (%s): %v", j+1, op.Op, pan)
		case ferrs > 0:
			fail(&v, "C03:"+s.Version+":stream-framing", "request %d (%s, arg %s, selfclose=%v header=%v): the strict decoder rejects the client's stream: %s", j+1, op.Op, op.Arg, s.SelfClose, s.Header, ferrText)
		case oerr != nil || nreq < j+1:
			fail(&v, "C03:"+op.Op+":error", "operation %d (%s): %v (server decoded %d requests)", j+1, op.Op, oerr, nreq)
		}

		if !v.OK {
			break
		}

		want := fmt.Sprintf(`<rpc xmlns="urn:ietf:params:xml:ns:netconf:base:1.0" message-id="%d">%s</rpc>`, 101+j+idOff, inner)
		tree, werr := canon(payload)
		expect, eerr := canon(want)

		if eerr != nil {
			fail(&v, "C03:harness", "expected document does not parse: %v", eerr)

			break
		}

		framedInput := string(r.FramedInput)
		framedEq := framed == framedInput

		if s.Version == "1.1" {
			framedEq = framed == "\n"+framedInput+"\n"
		}

		events = append(events, map[string]interface{}{
			"ev": "req", "n": j + 1, "op": op.Op, "arg": op.Arg, "wire": classify([]byte(framed), s.Version), "msgid": msgid,
			"decl": strings.HasPrefix(payload, "<?xml"), "inputeq": payload == string(r.Input), "framedeq": framedEq,
			"wf": werr == nil, "tree": tree, "expect": expect,
			"selfclosed": strings.Count(payload, "/>") > strings.Count(given, "/>"), "streamerrors": ferrs, "skipped": idOff,
		})
	}

	if v.OK {
		for _, e := range events {
			if err := enc.Encode(e); err != nil {
				fail(&v, "C03:harness", "%v", err)
			}
		}

		v.Extra = len(events)
	}

	return v
}

func xmlAttr(s string) string {
	var b bytes.Buffer

	_ = xml.EscapeText(&b, []byte(s))

	return b.String()
}

func c03(args []string) error {
	out := "trace.ndjson"
	if len(args) >= 2 && args[0] == "-out" {
		out = args[1]
	}

	f, err := os.Create(out)
	if err != nil {
		return err
	}

	defer f.Close()

	enc := json.NewEncoder(f)

	return readScenarios(func(raw json.RawMessage) error {
		s := &c03Scn{}
		if err := json.Unmarshal(raw, s); err != nil {
			return err
		}

		emit(c03Session(s, enc))

		return nil
	})
}
