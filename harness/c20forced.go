package main

import (
	"encoding/json"
	"flag"
	"fmt"
	"os"
	"strings"
	"sync"
	"sync/atomic"
	"time"

	"github.com/scrapli/scrapligo/util"
)

// C20, forced orderings: one producer call (Enqueue) against one consumer call (Dequeue / DequeueAll / Requeue) on a queue
// that holds 0..2 chunks, with the goroutine that reaches yield point b held back (at most 12 ms, counted from the moment both goroutines are running) until the other one has
// passed point a or has returned from its call (P_ret / C_ret).  The yield points are the statement labels of Queue.tla
// (hooks in util/queue.go, build tag verif).  Every run ends with a drain by the consumer and is recorded as a history for
// QueueTrace.tla, which decides linearizability.  Orderings the locks forbid simply time out.

func init() {
	register("c20forced", c20forced)

	util.VerifYield = func(p string) {
		if g, _ := qGate.Load().(*qgate); g != nil {
			g.yield(p)
		}
	}
}

var qGate atomic.Value

type qgate struct {
	mu      sync.Mutex
	reached map[string]bool
	a, b    string
	waited  bool
}

func (g *qgate) mark(p string) {
	g.mu.Lock()
	g.reached[p] = true
	g.mu.Unlock()
}

func (g *qgate) yield(p string) {
	g.mark(p)

	if p != g.b {
		return
	}

	deadline := time.Now().Add(12 * time.Millisecond)

	for time.Now().Before(deadline) {
		g.mu.Lock()
		ok := g.reached[g.a]
		g.mu.Unlock()

		if ok {
			g.mu.Lock()
			g.waited = true
			g.mu.Unlock()

			return
		}

		time.Sleep(20 * time.Microsecond)
	}
}

var (
	qProdPoints = []string{"Q_enq_lock", "Q_enq_locked", "Q_enq_take", "Q_enq_put", "P_ret"}
	qConsPoints = map[string][]string{
		"deq": {"Q_gd_take", "Q_gd_back", "Q_deq_lock", "Q_deq_locked", "Q_deq_take", "Q_deq_put", "Q_deq_ret", "C_ret"},
		"all": {"Q_gd_take", "Q_gd_back", "Q_all_lock", "Q_all_locked", "Q_all_take", "Q_all_put", "Q_all_ret", "C_ret"},
		"req": {"Q_req_lock", "Q_req_locked", "Q_req_take", "Q_req_put", "C_ret"},
	}
)

func c20forced(args []string) error {
	fs := flag.NewFlagSet("c20forced", flag.ContinueOnError)
	out := fs.String("out", "trace.ndjson", "trace file")
	reps := fs.Int("reps", 1, "repetitions of every ordering")

	if err := fs.Parse(args); err != nil {
		return err
	}

	f, err := os.Create(*out)
	if err != nil {
		return err
	}

	defer f.Close()

	enc := json.NewEncoder(f)
	id := 0
	forced := 0

	for rep := 0; rep < *reps; rep++ {
		for _, cons := range []string{"deq", "all", "req"} {
			for initN := 0; initN <= 2; initN++ {
				var pairs [][2]string

				for _, a := range qProdPoints {
					for _, b := range qConsPoints[cons] {
						if !strings.HasSuffix(b, "_ret") {
							pairs = append(pairs, [2]string{a, b})
						}
					}
				}

				for _, a := range qConsPoints[cons] {
					for _, b := range qProdPoints {
						if !strings.HasSuffix(b, "_ret") {
							pairs = append(pairs, [2]string{a, b})
						}
					}
				}

				for _, pr := range pairs {
					id++

					var mu sync.Mutex

					var evs []qev

					logEv := func(e qev) {
						mu.Lock()
						evs = append(evs, e)
						mu.Unlock()
					}

					q := util.NewQueue()

					var panics []string

					call := func(g string, o qop) {
						logEv(qev{Ev: "inv", G: g, Op: o.Op, Arg: o.Arg, Res: []int{}})

						res, pan := applyQ(q, o)
						if pan != nil {
							mu.Lock()
							panics = append(panics, fmt.Sprintf("%s %s: %v", g, o.Op, pan))
							mu.Unlock()

							res = []int{}
						}

						logEv(qev{Ev: "res", G: g, Res: res})
					}

					for k := 1; k <= initN; k++ {
						call("p", qop{Op: "enq", Arg: k})
					}

					g := &qgate{reached: map[string]bool{}, a: pr[0], b: pr[1]}
					qGate.Store(g)

					var wg sync.WaitGroup

					wg.Add(2)

					// both goroutines are running before either makes its call (on a busy machine the second one may be scheduled
					// later than the gate is willing to wait)
					var started int32

					ready := func() {
						atomic.AddInt32(&started, 1)

						for t0 := time.Now(); atomic.LoadInt32(&started) < 2 && time.Since(t0) < 200*time.Millisecond; {
							time.Sleep(10 * time.Microsecond)
						}
					}

					go func() {
						defer wg.Done()
						ready()
						call("p", qop{Op: "enq", Arg: 7})
						g.mark("P_ret")
					}()
					go func() {
						defer wg.Done()
						ready()
						call("c", qop{Op: cons, Arg: 9})
						g.mark("C_ret")
					}()

					done := make(chan struct{})

					go func() { wg.Wait(); close(done) }()

					select {
					case <-done:
					case <-time.After(5 * time.Second):
						emit(map[string]interface{}{"id": id, "ok": false, "sig": "C20:forced:deadlock:" + cons,
							"detail": fmt.Sprintf("Enqueue vs %s with %d chunks queued, %s before %s: the calls did not return", cons, initN, pr[0], pr[1])})

						return nil
					}

					qGate.Store((*qgate)(nil))

					// the consumer drains: everything enqueued and not yet handed out must come now
					call("c", qop{Op: "depth"})
					call("c", qop{Op: "all"})
					call("c", qop{Op: "depth"})

					if len(panics) > 0 {
						emit(map[string]interface{}{"id": id, "ok": false, "sig": "C20:forced:panic:" + cons,
							"detail": fmt.Sprintf("Enqueue vs %s with %d chunks queued, %s before %s: %s", cons, initN, pr[0], pr[1], panics[0])})

						continue
					}

					if g.waited {
						forced++
					}

					if err := enc.Encode(map[string]interface{}{"ev": "reset", "res": []int{}, "arg": 0,
						"name": fmt.Sprintf("forced/%s/init=%d/%s<%s", cons, initN, pr[0], pr[1])}); err != nil {
						return err
					}

					for _, e := range evs {
						if e.Res == nil {
							e.Res = []int{}
						}

						if err := enc.Encode(e); err != nil {
							return err
						}
					}
				}
			}
		}
	}

	emit(map[string]interface{}{"id": 0, "ok": true, "histories": id, "forced": forced})

	return nil
}
