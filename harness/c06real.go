package main

import (
	"context"
	"encoding/json"
	"fmt"
	"sync/atomic"
	"time"
)

// C06 with the built-in transports (real telnet over loopback TCP, the standard SSH transport against the in-process server):
// the peer closes the connection while the session is idle or while an operation waits for the device. The operation in
// flight and every later operation return an error promptly (own timeout 5 s), nothing panics in any goroutine (run as
// `vh isolated c06real`: the death of the process is attributed to the scenario), Close still works.
// Stall.tla's outcome for a loss before the exchange is complete: error, never ok, never the timeout.

func init() {
	register("c06real", func(_ []string) error {
		return childLoop(func(raw json.RawMessage, idx int) interface{} {
			s := &c06RealScn{}
			if err := json.Unmarshal(raw, s); err != nil {
				return verdict{ID: idx, OK: false, Sig: "TOOL", Detail: err.Error()}
			}

			return c06Real(s, idx)
		})
	})
}

type c06RealScn struct {
	Transport string `json:"transport"` // telnet | standard
	When      string `json:"when"`      // idle | inflight
	Later     int    `json:"later"`     // operations attempted after the loss was noticed
}

func c06Real(s *c06RealScn, idx int) verdict {
	name := fmt.Sprintf("%s/%s/later=%d", s.Transport, s.When, s.Later)
	v := verdict{ID: idx, Variant: name, OK: true, Nontrivial: true}
	sigBase := "C06:real:" + s.Transport + ":" + s.When

	var rs *realSess

	var err error

	for try := 0; try < 4; try++ {
		if rs, err = buildReal(s.Transport, false); err == nil {
			break
		}

		time.Sleep(50 * time.Millisecond)
	}

	if err != nil {
		v.OK, v.Sig, v.Detail = false, "TOOL", fmt.Sprintf("setup failed 4 times: %v", err)

		return v
	}

	defer rs.stop()

	if r, cerr := rs.gd.SendCommand("show v7"); cerr != nil || r.Result == "" {
		v.OK, v.Sig, v.Detail = false, "TOOL", fmt.Sprintf("warm-up command failed: %v", cerr)

		return v
	}

	type out struct {
		err error
		res string
		dur time.Duration
		pan interface{}
		fin bool
	}

	op := func(k int) out {
		var o out

		t0 := time.Now()
		o.fin, o.pan = withWatchdog(8*time.Second, func() {
			switch k % 3 {
			case 0:
				r, e := rs.gd.SendCommand("show z8")
				o.err = e

				if r != nil {
					o.res = r.Result
				}
			case 1:
				p, e := rs.gd.GetPrompt()
				o.err, o.res = e, p
			default:
				o.err = rs.gd.Channel.WriteAndReturn([]byte("show v7"), false)
				if o.err == nil {
					// a write may still be accepted by the local socket; what is read back must not be a success
					ctx, cancel := context.WithTimeout(context.Background(), 5*time.Second)
					_, o.err = rs.gd.Channel.ReadUntilPrompt(ctx)

					cancel()
				}
			}
		})
		o.dur = time.Since(t0)

		return o
	}

	judge := func(what string, o out) bool {
		switch {
		case !o.fin:
			fail(&v, sigBase+":"+what+":hang", "%s did not return within 8 s after the peer closed the connection", what)
		case o.pan != nil:
			fail(&v, sigBase+":"+what+":panic", "%s panicked in the caller's goroutine after the peer closed the connection: %v", what, o.pan)
		case o.err == nil:
			fail(&v, sigBase+":"+what+":success-after-loss", "%s reported success (%q) although the peer had closed the connection", what, o.res)
		case o.dur > 2500*time.Millisecond:
			fail(&v, sigBase+":"+what+":waited-out-timeout", "%s returned %v only after %v (operation timeout 5 s)", what, o.err, o.dur)
		}

		return v.OK
	}

	if s.When == "inflight" {
		atomic.StoreInt32(&rs.br.stall, 1)

		done := make(chan out, 1)

		go func() { done <- op(0) }()

		time.Sleep(5 * time.Millisecond)
		rs.dropAll()

		select {
		case o := <-done:
			if !judge("operation-in-flight", o) {
				return v
			}
		case <-time.After(9 * time.Second):
			fail(&v, sigBase+":operation-in-flight:hang", "the operation in flight did not return within 9 s after the peer closed the connection")

			return v
		}
	} else {
		rs.dropAll()
		time.Sleep(10 * time.Millisecond)
	}

	for k := 0; k < s.Later; k++ {
		if !judge(fmt.Sprintf("later-operation-%d", k+1), op(k+idx)) {
			return v
		}
	}

	fin, pan := withWatchdog(4*time.Second, func() { _ = rs.gd.Close() })

	switch {
	case !fin:
		fail(&v, sigBase+":close-hangs", "Close did not return within 4 s after the connection was lost")
	case pan != nil:
		fail(&v, sigBase+":close-panics", "Close panicked after the connection was lost: %v", pan)
	}

	return v
}
