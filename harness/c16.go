package main

import (
	"bytes"
	"encoding/json"
	"fmt"
	"io"
	"net"
	"os"
	"path/filepath"
	"strings"
	"sync"
	"time"

	"golang.org/x/crypto/ssh"

	"github.com/scrapli/scrapligo/driver/generic"
	"github.com/scrapli/scrapligo/driver/netconf"
	"github.com/scrapli/scrapligo/driver/options"
	"github.com/scrapli/scrapligo/logging"
	"github.com/scrapli/scrapligo/transport"
	"github.com/scrapli/scrapligo/util"

	"verifharness/simdev"
)

// C16: the built-in transports as byte pipes; segment traces for PipeTrace.tla.   vh c16 -out trace.ndjson < scenarios

func init() { register("c16", c16) }

type c16Scn struct {
	ID        int    `json:"id"`
	Transport string `json:"transport"`
	Mode      string `json:"mode"`
	ReadSize  int    `json:"readsize"`
	S2C       int    `json:"s2c"`
	C2S       int    `json:"c2s"`
	Chunk     int    `json:"chunk"`
	LongLine  bool   `json:"longline"`
	Binary    bool   `json:"binary"`
	Early     bool   `json:"early"`
	Hung      bool   `json:"hung"`
	Nego      bool   `json:"nego"`
}

// negoConn is the far end of a telnet session that opens with option negotiation: the opening goes out before any data,
// and the client's three-byte answers are taken out of what the far end reads (they are protocol, not data).
type negoConn struct {
	net.Conn
	st   int
	Seen []byte
}

var negoOpening = []byte{0xff, 0xfd, 0x18, 0xff, 0xfd, 0x1f, 0xff, 0xfb, 0x01, 0xff, 0xfb, 0x03, 0xff, 0xfd, 0x03, 0xff, 0xfe, 0x22}

func (c *negoConn) Read(b []byte) (int, error) {
	for {
		n, err := c.Conn.Read(b)
		k := 0

		for _, x := range b[:n] {
			switch {
			case c.st == 0 && x == 0xff:
				c.st = 1
				c.Seen = append(c.Seen, x)
			case c.st == 1:
				c.st = 2
				c.Seen = append(c.Seen, x)
			case c.st == 2:
				c.st = 0
				c.Seen = append(c.Seen, x)
			default:
				b[k] = x
				k++
			}
		}

		if k > 0 || err != nil {
			return k, err
		}
	}
}

const c16Alpha = "abcdefghijklmnopqrstuvwxyzABCDEFGHIJKLMNOPQRSTUVWXYZ012345678"

func posByteB(i, salt int) byte { return byte((i*7 + 13 + salt) % 256) }

func posByte(i int, long bool, salt int) byte {
	if !long && i%60 == 59 {
		return '\n'
	}

	return c16Alpha[(i+salt)%len(c16Alpha)]
}

func posBytes(n int, long bool, salt int) []byte {
	b := make([]byte, n)
	for i := range b {
		b[i] = posByte(i, long, salt)
	}

	if long && n > 1 {
		b[n-1] = '\n'
	}

	return b
}

type segRec struct {
	mu     sync.Mutex
	evs    []map[string]interface{}
	got    map[string]int
	long   bool
	binary bool
	ff0    bool // the first server-to-client data byte is 0xff
}

func (r *segRec) recv(dir string, b []byte, total int) {
	r.mu.Lock()
	defer r.mu.Unlock()

	salt := 0
	if dir == "c2s" {
		salt = 7
	}

	off := r.got[dir]
	bad := 0

	for j, c := range b {
		want := posByte(off+j, r.long, salt)
		if r.long && total > 1 && off+j == total-1 {
			want = '\n'
		}

		if r.binary {
			want = posByteB(off+j, salt)
		}

		if r.ff0 && dir == "s2c" && off+j == 0 {
			want = 0xff
		}

		if c != want {
			bad++
		}
	}

	r.got[dir] += len(b)
	r.evs = append(r.evs, map[string]interface{}{"ev": "recv", "dir": dir, "off": off, "len": len(b), "bad": bad})
}

func (r *segRec) add(e map[string]interface{}) {
	r.mu.Lock()
	r.evs = append(r.evs, e)
	r.mu.Unlock()
}

func netconfConn(o interface{}) error {
	if a, ok := o.(*transport.SSHArgs); ok {
		a.NetconfConnection = true

		return nil
	}

	return util.ErrIgnoredOption
}

// peer is the far end of a transport under test.
type peer struct {
	port     int
	sessions chan io.ReadWriteCloser
	drop     func()
	close    func()
}

// negoExtra: data the telnet peer sends in the same write as its opening negotiation (already escaped for the wire)
var negoExtraMu sync.Mutex

func startPeer(kind string, nego ...bool) (*peer, error) {
	return startPeerX(kind, nil, nego...)
}

func startPeerX(kind string, extra []byte, nego ...bool) (*peer, error) {
	p := &peer{sessions: make(chan io.ReadWriteCloser, 4)}

	if kind == "telnet" {
		ln, err := net.Listen("tcp", "127.0.0.1:0")
		if err != nil {
			return nil, err
		}

		var mu sync.Mutex

		var conns []net.Conn

		go func() {
			for {
				c, aerr := ln.Accept()
				if aerr != nil {
					return
				}

				mu.Lock()
				conns = append(conns, c)
				mu.Unlock()

				if len(nego) > 0 && nego[0] {
					_, _ = c.Write(append(append([]byte(nil), negoOpening...), extra...))
					p.sessions <- &negoConn{Conn: c}

					continue
				}

				p.sessions <- c
			}
		}()

		p.port = ln.Addr().(*net.TCPAddr).Port
		p.drop = func() {
			mu.Lock()
			for _, c := range conns {
				_ = c.Close()
			}
			mu.Unlock()
		}
		p.close = func() { _ = ln.Close(); p.drop() }

		return p, nil
	}

	return nil, fmt.Errorf("use startSSHPeer")
}

func c16Transport(s *c16Scn, port int, keyPath string) (*transport.Transport, error) {
	li, _ := logging.NewInstance()
	opts := []util.Option{options.WithPort(port), options.WithTransportReadSize(s.ReadSize), options.WithAuthUsername(c14User),
		options.WithAuthNoStrictKey(), options.WithTimeoutSocket(2 * time.Second)}

	if s.Transport != "telnet" {
		opts = append(opts, options.WithAuthPrivateKey(keyPath, ""))
	} else {
		opts = append(opts, options.WithTimeoutSocket(120*time.Millisecond))
	}

	if s.Transport == "system" && s.ID%3 == 0 {
		// the caller supplies the whole ssh argument list: the transport still has to ask for the NETCONF subsystem itself
		opts = append(opts, options.WithSystemTransportOpenArgsOverride([]string{"127.0.0.1", "-p", fmt.Sprint(port), "-l", c14User,
			"-o", "StrictHostKeyChecking=no", "-o", "UserKnownHostsFile=/dev/null", "-i", keyPath, "-F", "/dev/null", "-o", "LogLevel=ERROR"}))
	} else if s.Transport == "system" {
		opts = append(opts, options.WithSystemTransportOpenArgs([]string{"-o", "LogLevel=ERROR"}))
	}

	if s.Mode == "netconf" {
		opts = append(opts, netconfConn)
	}

	return transport.NewTransport(li, "127.0.0.1", s.Transport, opts...)
}

func c16Run(s *c16Scn, enc *json.Encoder, mu *sync.Mutex) verdict {
	name := fmt.Sprintf("%s/%s/rs=%d/s2c=%d/c2s=%d/chunk=%d/long=%v/nego=%v", s.Transport, s.Mode, s.ReadSize, s.S2C, s.C2S, s.Chunk, s.LongLine, s.Nego)
	v := verdict{ID: s.ID, Variant: name, OK: true, Nontrivial: true}
	rec := &segRec{got: map[string]int{}, long: s.LongLine, binary: s.Binary}
	rec.add(map[string]interface{}{"ev": "reset", "t": s.ID, "transport": s.Transport, "mode": s.Mode, "name": name})

	dir, _ := os.MkdirTemp(os.Getenv("VERIF_TMP"), "c16-")
	defer os.RemoveAll(dir)

	clientSigner, clientPriv, _ := newEd25519()
	keyPath, _ := writeKeyFile(dir, "id", clientPriv)

	sessions := make(chan io.ReadWriteCloser, 4)

	var port int

	var drop, closeAll, stall func()

	var sessionKinds func() []string

	// a negotiating telnet peer sends its first two data bytes together with the negotiation: a data byte 0xff (escaped as
	// IAC IAC on the wire) and the byte after it
	ffFirst := s.Transport == "telnet" && s.Nego && !s.Binary && s.S2C >= 2 && !s.LongLine

	if s.Transport == "telnet" {
		var extra []byte
		if ffFirst {
			extra = []byte{0xff, 0xff, posByte(1, s.LongLine, 0)}
		}

		p, err := startPeerX("telnet", extra, s.Nego && !s.Binary)
		if err != nil {
			fail(&v, "C16:harness:peer", "%v", err)

			return v
		}

		sessions, port, drop, closeAll = p.sessions, p.port, p.drop, p.close
	} else {
		srv, err := startSSHSrv(sshSrvCfg{User: c14User, AuthKey: clientSigner.PublicKey(), OnSession: func(_ string, ch ssh.Channel) { sessions <- ch }})
		if err != nil {
			fail(&v, "C16:harness:peer", "%v", err)

			return v
		}

		port, drop, closeAll, stall = srv.Port, srv.DropConns, srv.Close, srv.Stall
		sessionKinds = func() []string {
			srv.mu.Lock()
			defer srv.mu.Unlock()

			return append([]string(nil), srv.Sessions...)
		}
	}

	defer closeAll()

	s2c := posBytes(s.S2C, s.LongLine, 0)
	c2s := posBytes(s.C2S, s.LongLine, 7)
	s2cWire := s2c

	if ffFirst {
		s2c[0] = 0xff
		rec.ff0 = true
		s2cWire = s2c[2:] // the first two went out with the negotiation
	}

	if s.Binary {
		for i := range s2c {
			s2c[i] = posByteB(i, 0)
		}

		for i := range c2s {
			c2s[i] = posByteB(i, 7)
		}
	}

	chunked := func(b []byte, w func([]byte) error) {
		for len(b) > 0 {
			n := s.Chunk
			if n > len(b) {
				n = len(b)
			}

			if w(b[:n]) != nil {
				return
			}

			b = b[n:]

			if s.Chunk >= 8 {
				time.Sleep(150 * time.Microsecond)
			}
		}
	}

	t, err := c16Transport(s, port, keyPath)
	if err != nil {
		fail(&v, "C16:"+s.Transport+":open", "%s: %v", name, err)

		return v
	}

	// every third session is the second one of its transport object: an earlier one was opened and closed again (what the far
	// end of that one received stays there; the session under observation starts from nothing)
	if s.ID%3 == 0 && !ffFirst && !s.Early && !s.Hung {
		var e0 error

		fin0, pan0 := withWatchdog(10*time.Second, func() { e0 = t.Open() })
		if !fin0 || pan0 != nil || e0 != nil {
			v.OK, v.Sig, v.Detail = false, "TOOL", fmt.Sprintf("%s: the earlier session: returned=%v panic=%v err=%v", name, fin0, pan0, e0)

			return v
		}

		select {
		case far0 := <-sessions:
			_ = t.Write([]byte("left over from the earlier session\n"))
			_, _ = far0.Write([]byte("left over from the earlier session\n"))
			time.Sleep(5 * time.Millisecond)
			_, _ = withWatchdog(4*time.Second, func() { _ = t.Close(true) })
			_ = far0.Close()
		case <-time.After(8 * time.Second):
			v.OK, v.Sig, v.Detail = false, "TOOL", name+": the peer never saw the earlier session come up"

			return v
		}

		time.Sleep(10 * time.Millisecond)

		name += "/second-session"
		v.Variant = name
	}

	// the far end: with `early` it starts talking as soon as the session exists (for telnet: while Open is still negotiating)
	farCh := make(chan io.ReadWriteCloser, 1)
	s2cDone := make(chan struct{})

	go func() {
		select {
		case far := <-sessions:
			if s.Early {
				go func() {
					defer close(s2cDone)
					chunked(s2cWire, func(b []byte) error { _, e := far.Write(b); return e })
				}()
			}

			farCh <- far
		case <-time.After(8 * time.Second):
			farCh <- nil
		}
	}()

	err = t.Open()
	if err != nil {
		fail(&v, "C16:"+s.Transport+":open", "%s: %v", name, err)

		return v
	}

	far := <-farCh
	if far == nil {
		fail(&v, "C16:"+s.Transport+":no-session", "%s: the peer never saw the session come up", name)
		_ = t.Close(true)

		return v
	}

	if sessionKinds != nil {
		want := "shell"
		if s.Mode == "netconf" {
			want = "subsystem:netconf"
		}

		if k := sessionKinds(); len(k) == 0 || k[len(k)-1] != want {
			fail(&v, "C16:"+s.Transport+":"+s.Mode+":wrong-session-kind", "%s: the server was asked for %v, the mode needs %q", name, k, want)
			_ = t.Close(true)

			return v
		}
	}

	if s.Transport == "standard" && s.ID%4 == 1 {
		// the session has been up for longer than the socket timeout (2 s) before anything is written: that timeout bounds
		// connecting, not the life of the session
		time.Sleep(2200 * time.Millisecond)
	}

	rec.add(map[string]interface{}{"ev": "sent", "dir": "s2c", "total": len(s2c)})
	rec.add(map[string]interface{}{"ev": "sent", "dir": "c2s", "total": len(c2s)})

	deadline := time.Now().Add(15 * time.Second)

	var wg sync.WaitGroup

	wg.Add(4)

	go func() {
		defer wg.Done()

		if s.Early {
			<-s2cDone

			return
		}

		chunked(s2cWire, func(b []byte) error { _, e := far.Write(b); return e })
	}()
	go func() { defer wg.Done(); chunked(c2s, t.Write) }()
	go func() { // far end receives what the client wrote
		defer wg.Done()

		buf := make([]byte, 8192)
		got := 0

		type dl interface{ SetReadDeadline(time.Time) error }

		for got < len(c2s) && time.Now().Before(deadline) {
			if d, ok := far.(dl); ok {
				_ = d.SetReadDeadline(time.Now().Add(1500 * time.Millisecond))
			}

			n, rerr := far.Read(buf)
			if n > 0 {
				rec.recv("c2s", buf[:n], len(c2s))
				got += n
			}

			if rerr != nil {
				break
			}
		}
	}()

	clientGot := 0
	readerDone := make(chan struct{})

	var kept, keptCopy [][]byte

	go func() { // client receives what the far end wrote
		defer wg.Done()
		defer close(readerDone)

		for clientGot < len(s2c) {
			b, rerr := t.Read()
			if len(b) > 0 {
				rec.recv("s2c", b, len(s2c))
				clientGot += len(b)

				// the chunk itself is kept, next to a copy of what it holds now
				kept = append(kept, b)
				keptCopy = append(keptCopy, append([]byte(nil), b...))
			}

			if rerr != nil {
				return
			}
		}
	}()

	allDone := make(chan struct{})

	go func() { wg.Wait(); close(allDone) }()

	select {
	case <-allDone:
	case <-time.After(16 * time.Second):
	}

	select {
	case <-readerDone:
		changed := 0

		for i := range kept {
			if !bytes.Equal(kept[i], keptCopy[i]) {
				changed++
			}
		}

		rec.add(map[string]interface{}{"ev": "kept", "dir": "s2c", "changed": changed})
	default:
	}

	rec.add(map[string]interface{}{"ev": "end", "dir": "s2c"})
	rec.add(map[string]interface{}{"ev": "end", "dir": "c2s"})

	// a read blocked when the transport is closed must return
	blocked := make(chan struct{})

	select {
	case <-readerDone:
		go func() { _, _ = t.Read(); close(blocked) }()
	default:
		// the reader is still blocked in Read waiting for bytes that never came: that read is the blocked one
		go func() { <-readerDone; close(blocked) }()
	}

	time.Sleep(20 * time.Millisecond)

	cause := "close"
	if s.Hung && stall != nil {
		cause = "close-with-hung-peer"
		stall()
		time.Sleep(5 * time.Millisecond)
		_, _ = withWatchdog(4*time.Second, func() { _ = t.Close(true) })
	} else if s.ID%2 == 1 {
		cause = "peergone"
		drop()
	} else {
		_, _ = withWatchdog(3*time.Second, func() { _ = t.Close(true) })
	}

	returned := false

	select {
	case <-blocked:
		returned = true
	case <-time.After(3 * time.Second):
	}

	// a block of its own: it is judged also when the byte stream part of this session has already been rejected
	rec.add(map[string]interface{}{"ev": "reset", "t": s.ID, "transport": s.Transport, "mode": s.Mode, "name": name + "/unblock"})
	rec.add(map[string]interface{}{"ev": "unblock", "cause": cause, "returned": returned})

	if cause == "peergone" {
		if returned {
			// the peer is gone for good: the next read returns too (with an error), and so does an orderly close
			again := make(chan struct{})

			go func() { _, _ = t.Read(); close(again) }()

			ret2 := false

			select {
			case <-again:
				ret2 = true
			case <-time.After(2 * time.Second):
			}

			rec.add(map[string]interface{}{"ev": "unblock", "cause": "read-after-peergone", "returned": ret2})

			fin, _ := withWatchdog(3*time.Second, func() { _ = t.Close(false) })
			rec.add(map[string]interface{}{"ev": "unblock", "cause": "close-after-peergone", "returned": fin})
		}

		_, _ = withWatchdog(3*time.Second, func() { _ = t.Close(true) })
	}

	_ = far.Close()

	mu.Lock()
	for _, e := range rec.evs {
		_ = enc.Encode(e)
	}
	mu.Unlock()

	v.Extra = len(rec.evs)

	return v
}

// c16E2E runs a CLI or NETCONF session over a real transport and compares with what the in-memory pipe gives.
func c16E2E(id int, transportName, kind string, big bool, enc *json.Encoder, mu *sync.Mutex) verdict {
	name := fmt.Sprintf("e2e/%s/%s/big=%v", transportName, kind, big)
	v := verdict{ID: id, Variant: name, OK: true, Nontrivial: true}
	dir, _ := os.MkdirTemp(os.Getenv("VERIF_TMP"), "c16e-")

	defer os.RemoveAll(dir)

	clientSigner, clientPriv, _ := newEd25519()
	keyPath, _ := writeKeyFile(dir, "id", clientPriv)

	bigLine := strings.Repeat("0123456789", 600) // one 6000-byte line
	reactor := func() simdev.Reactor {
		if kind == "cli" {
			c := stdCLI("exec")
			base := c.Handler
			c.Handler = func(cc *simdev.CLI, line string) string {
				if line == "show big" {
					return bigLine
				}

				return base(cc, line)
			}

			return c
		}

		return &simdev.NCServer{Hello: simdev.HelloXML([]string{cap10, cap11}, "9", "", true, false), Advertises: map[string]bool{"1.0": true, "1.1": true},
			Reply: func(s *simdev.NCServer, r simdev.NCRequest) []byte {
				body := fmt.Sprintf("<v>%d</v>", r.MsgID)
				if big {
					body += "<blob>" + bigLine + "</blob>"
				}

				pay := fmt.Sprintf(`<rpc-reply xmlns="urn:ietf:params:xml:ns:netconf:base:1.0" message-id="%d"><data>%s</data></rpc-reply>`, r.MsgID, body)
				if s.Version == "1.1" {
					return simdev.Frame11([]byte(pay), []int{len(pay)})
				}

				return simdev.Frame10([]byte(pay))
			}}
	}

	var port int

	var closeAll func()

	if transportName == "telnet" {
		p, err := startPeer("telnet")
		if err != nil {
			fail(&v, "C16:harness:peer", "%v", err)

			return v
		}

		port, closeAll = p.port, p.close

		go func() {
			for c := range p.sessions {
				go serveReactor(c, reactor())
			}
		}()
	} else {
		srv, err := startSSHSrv(sshSrvCfg{User: c14User, AuthKey: clientSigner.PublicKey(), OnSession: func(_ string, ch ssh.Channel) {
			serveReactor(ch, reactor())
			_ = ch.Close()
		}})
		if err != nil {
			fail(&v, "C16:harness:peer", "%v", err)

			return v
		}

		port, closeAll = srv.Port, srv.Close
	}

	defer closeAll()

	opts := []util.Option{options.WithPort(port), options.WithAuthUsername(c14User), options.WithAuthNoStrictKey(), options.WithTransportType(transportName),
		options.WithTimeoutOps(4 * time.Second), options.WithTimeoutSocket(2 * time.Second), options.WithReadDelay(100 * time.Microsecond)}
	if transportName != "telnet" {
		opts = append(opts, options.WithAuthPrivateKey(keyPath, ""))
	} else {
		opts = append(opts, options.WithTimeoutSocket(120*time.Millisecond))
	}

	if transportName == "system" {
		opts = append(opts, options.WithSystemTransportOpenArgs([]string{"-o", "LogLevel=ERROR"}))
	}

	same, detail := true, ""

	fin, pan := withWatchdog(30*time.Second, func() {
		if kind == "cli" {
			d, err := generic.NewDriver("127.0.0.1", opts...)
			if err == nil {
				err = d.Open()
			}

			if err != nil {
				same, detail = false, "open: "+err.Error()

				return
			}

			defer d.Close()

			cmds := map[string]string{"show v7": "Version 9\nuptime 5", "show z8": "zeta 8"}
			if big {
				cmds["show big"] = bigLine
			}

			for _, c := range []string{"show v7", "show z8", "show big"} {
				want, ok := cmds[c]
				if !ok {
					continue
				}

				r, cerr := d.SendCommand(c)
				if cerr != nil || r.Result != want {
					same = false
					detail = fmt.Sprintf("%s: err %v, result %d bytes (ideal pipe: %d bytes)", c, cerr, func() int {
						if r != nil {
							return len(r.Result)
						}

						return 0
					}(), len(want))

					return
				}
			}

			// the same driver object once more: a second connection through the same transport object
			_ = d.Close()

			if err = d.Open(); err != nil {
				same, detail = false, "second session: open: "+err.Error()

				return
			}

			if r, cerr := d.SendCommand("show z8"); cerr != nil || r.Result != cmds["show z8"] {
				same, detail = false, fmt.Sprintf("second session: show z8: err %v", cerr)
			}

			return
		}

		d, err := netconf.NewDriver("127.0.0.1", append(opts, options.WithNetconfPreferredVersion([]string{"1.0", "1.1"}[id%2]))...)
		if err == nil {
			err = d.Open()
		}

		if err != nil {
			same, detail = false, "open: "+err.Error()

			return
		}

		defer d.Close()

		for i := 0; i < 2; i++ {
			r, gerr := d.Get("")
			if gerr != nil || r.Failed != nil || !strings.Contains(r.Result, fmt.Sprintf("<v>%d</v>", 101+i)) || (big && !strings.Contains(r.Result, bigLine)) {
				same = false
				detail = fmt.Sprintf("get %d: err %v failed %v result %d bytes", i+1, gerr, func() error {
					if r != nil {
						return r.Failed
					}

					return nil
				}(), func() int {
					if r != nil {
						return len(r.Result)
					}

					return 0
				}())

				return
			}
		}

		// the same driver object once more: a second connection (for the system transport: a second ssh child) through the
		// same transport object
		_ = d.Close()

		if err = d.Open(); err != nil {
			same, detail = false, "second session: open: "+err.Error()

			return
		}

		if r, gerr := d.Get(""); gerr != nil || r.Failed != nil || !strings.Contains(r.Result, "<v>") {
			same, detail = false, fmt.Sprintf("second session: get: err %v", gerr)
		}
	})

	if !fin || pan != nil {
		same, detail = false, fmt.Sprintf("fin=%v pan=%v", fin, pan)
	}

	mu.Lock()
	_ = enc.Encode(map[string]interface{}{"ev": "reset", "t": id, "transport": transportName, "mode": "e2e-" + kind, "name": name})
	_ = enc.Encode(map[string]interface{}{"ev": "e2e", "kind": kind, "same": same, "detail": detail, "big": big})
	mu.Unlock()

	return v
}

func c16(args []string) error {
	out := "trace.ndjson"
	if len(args) >= 2 && args[0] == "-out" {
		out = args[1]
	}

	f, err := os.Create(out)
	if err != nil {
		return err
	}

	defer f.Close()

	enc := json.NewEncoder(f)
	mu := &sync.Mutex{}

	var scns []*c16Scn

	if err := readScenarios(func(raw json.RawMessage) error {
		s := &c16Scn{}
		if err := json.Unmarshal(raw, s); err != nil {
			return err
		}

		scns = append(scns, s)

		return nil
	}); err != nil {
		return err
	}

	parallel(len(scns), 8, func(i int) {
		s := scns[i]
		if strings.HasPrefix(s.Mode, "standin-") {
			emit(c16Standin(s))

			return
		}

		if strings.HasPrefix(s.Mode, "e2e-") {
			emit(c16E2E(s.ID, s.Transport, strings.TrimPrefix(s.Mode, "e2e-"), s.LongLine, enc, mu))

			return
		}

		emit(c16Run(s, enc, mu))
	})

	return nil
}

// c16Standin: the system transport driving a stand-in program that ignores hang-ups and keeps its terminal open (what an ssh
// client does whose connection is stuck): a Read parked when the transport is closed must still return - Close has to end the
// child, closing the terminal alone is not enough.
func c16Standin(s *c16Scn) verdict {
	mode := strings.TrimPrefix(s.Mode, "standin-")
	v := verdict{ID: s.ID, Variant: "system/" + s.Mode, OK: true, Nontrivial: true}

	dir, _ := os.MkdirTemp(os.Getenv("VERIF_TMP"), "c16s-")
	defer os.RemoveAll(dir)

	bin := filepath.Join(dir, "standin.sh")
	_ = os.WriteFile(bin, []byte("#!/bin/sh\ntrap '' HUP TERM INT\nstty raw -echo 2>/dev/null\necho ready\nexec cat\n"), 0o700)

	li, _ := logging.NewInstance()
	opts := []util.Option{options.WithSystemTransportOpenBin(bin), options.WithAuthNoStrictKey(), options.WithTransportReadSize(64)}

	if mode == "netconf" {
		opts = append(opts, netconfConn)
	}

	t, err := transport.NewTransport(li, "127.0.0.1", "system", opts...)
	if err == nil {
		err = t.Open()
	}

	if err != nil {
		v.Skipped = fmt.Sprintf("stand-in could not be started: %v", err)

		return v
	}

	// read what the stand-in says, then park a read
	parked := make(chan struct{})

	go func() {
		defer close(parked)

		for {
			if _, rerr := t.Read(); rerr != nil {
				return
			}
		}
	}()

	time.Sleep(150 * time.Millisecond)

	fin, pan := withWatchdog(5*time.Second, func() { _ = t.Close(true) })

	switch {
	case !fin:
		fail(&v, "C16:system:"+mode+":close-hangs:stand-in", "Close(force) did not return with a child that ignores hang-ups")
	case pan != nil:
		fail(&v, "C16:system:"+mode+":close-panics:stand-in", "%v", pan)
	default:
		select {
		case <-parked:
		case <-time.After(3 * time.Second):
			fail(&v, "C16:system:"+mode+":blocked-read-not-released:child-ignores-hangup", "3 s after Close(force) the parked Read has not returned (the child was not ended)")
		}
	}

	return v
}
