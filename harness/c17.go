package main

import (
	"encoding/json"
	"flag"
	"fmt"
	"os"
	"path/filepath"
	"reflect"
	"regexp"
	"regexp/syntax"
	"sort"
	"strings"
	"time"

	"gopkg.in/yaml.v3"

	"github.com/scrapli/scrapligo/assets"
	"github.com/scrapli/scrapligo/driver/network"
	"github.com/scrapli/scrapligo/driver/options"
	"github.com/scrapli/scrapligo/platform"
	"github.com/scrapli/scrapligo/util"

	"verifharness/simdev"
)

// C17: every advertised platform definition.
//   vh c17export -out platforms.json   loads every name (and variant) through the real loader, samples a canonical prompt per level,
//                                      evaluates the acceptance relation with the real regexes, compares variant merges
//   vh c17 < scenarios                 drives a device model built from the definition (open, level pairs, close)

func init() {
	register("c17export", c17export)
	register("c17", c17)
}

// sample returns a short string matched by the regular expression (a canonical prompt).
func sample(re *syntax.Regexp) string {
	switch re.Op {
	case syntax.OpLiteral:
		return string(re.Rune)
	case syntax.OpCharClass:
		// prefer a lower-case letter, then a digit, then the first rune of the class
		for _, want := range []rune{'r', 'a', '1', '#', '>', '$', ' '} {
			for i := 0; i+1 < len(re.Rune); i += 2 {
				if want >= re.Rune[i] && want <= re.Rune[i+1] {
					return string(want)
				}
			}
		}

		if len(re.Rune) > 0 {
			return string(re.Rune[0])
		}

		return ""
	case syntax.OpAnyCharNotNL, syntax.OpAnyChar:
		return "x"
	case syntax.OpCapture, syntax.OpPlus:
		return sample(re.Sub[0])
	case syntax.OpStar, syntax.OpQuest:
		return ""
	case syntax.OpRepeat:
		n := re.Min
		if n == 0 && re.Max != 0 {
			n = 0
		}

		return strings.Repeat(sample(re.Sub[0]), n)
	case syntax.OpConcat:
		var b strings.Builder
		for _, s := range re.Sub {
			b.WriteString(sample(s))
		}

		return b.String()
	case syntax.OpAlternate:
		return sample(re.Sub[0])
	}

	return ""
}

// samples returns candidate strings (alternation branches explored at the top levels).
func samples(re *syntax.Regexp) []string {
	out := []string{sample(re)}

	var walk func(r *syntax.Regexp, depth int)

	walk = func(r *syntax.Regexp, depth int) {
		if depth > 4 {
			return
		}

		if r.Op == syntax.OpAlternate {
			for _, alt := range r.Sub[1:] {
				saved := *r
				*r = *alt
				out = append(out, sample(re))
				*r = saved
			}
		}

		for _, s := range r.Sub {
			walk(s, depth+1)
		}
	}

	walk(re, 0)

	return out
}

func canonicalPrompt(pattern string, notContains []string) (string, bool) {
	re, err := regexp.Compile(pattern)
	if err != nil {
		return "", false
	}

	tree, err := syntax.Parse(pattern, syntax.Perl)
	if err != nil {
		return "", false
	}

	for _, c := range samples(tree) {
		c = strings.TrimRight(c, "\n")
		if c == "" || !re.MatchString(c) {
			continue
		}

		bad := false

		for _, nc := range notContains {
			if strings.Contains(c, nc) {
				bad = true
			}
		}

		if !bad {
			return c, true
		}
	}

	return "", false
}

type c17Level struct {
	Name           string   `json:"name"`
	Pattern        string   `json:"pattern"`
	NotContains    []string `json:"notcontains"`
	Previous       string   `json:"previous"`
	Escalate       string   `json:"escalate"`
	Deescalate     string   `json:"deescalate"`
	Auth           bool     `json:"auth"`
	EscalatePrompt string   `json:"escalateprompt"`
	Prompt         string   `json:"prompt"`        // canonical prompt sampled from the pattern
	PromptOK       bool     `json:"promptok"`      // ... exists and matches the level's own pattern
	JoinedOK       bool     `json:"joinedok"`      // ... and the driver's joined prompt pattern
	AskPrompt      string   `json:"askprompt"`     // canonical escalation password prompt
	Accepts        []string `json:"accepts"`       // names of levels whose canonical prompt this level's matcher accepts
	Documented     []string `json:"documented"`    // typical prompts of this level (spec/platform_prompts.json, hand-written)
	DocumentedBad  []string `json:"documentedbad"` // those that the level\'s pattern (or the joined pattern) no longer accepts
	// DocumentedForeign: "other-level<-prompt" for every typical prompt of this level that the matcher of ANOTHER level accepts too,
	// unless that level is a declared twin (same pattern and exclusions): the prompt no longer tells the two levels apart
	DocumentedForeign []string `json:"documentedforeign"`
}

type c17Step struct {
	Operation  string `json:"operation"`
	WellFormed bool   `json:"wellformed"`
	Detail     string `json:"detail"`
}

type c17Def struct {
	Name        string     `json:"name"`
	Variant     string     `json:"variant"`
	Loads       bool       `json:"loads"`
	LoadError   string     `json:"loaderror"`
	Declared    string     `json:"declared"`   // driver-type in the file
	DriverType  string     `json:"drivertype"` // what the loader built
	Default     string     `json:"default"`
	Levels      []c17Level `json:"levels"`
	OnOpen      []c17Step  `json:"onopen"`
	OnClose     []c17Step  `json:"onclose"`
	UnknownKeys []string   `json:"unknownkeys"` // keys of the file that no field of the loader's types takes (a misspelt key is silently dropped)
	MergeOK     bool       `json:"mergeok"`     // variant: every section equals the variant's when it defines it, else the default's
	MergeDiff   string     `json:"mergediff"`
	Variants    []string   `json:"variants"`
}

type rawPlatform struct {
	DriverType         string                             `yaml:"driver-type"`
	FailedWhenContains []string                           `yaml:"failed-when-contains"`
	OnOpen             []map[string]interface{}           `yaml:"on-open"`
	OnClose            []map[string]interface{}           `yaml:"on-close"`
	PrivilegeLevels    map[string]*network.PrivilegeLevel `yaml:"privilege-levels"`
	Default            string                             `yaml:"default-desired-privilege-level"`
	NetworkOnOpen      []map[string]interface{}           `yaml:"network-on-open"`
	NetworkOnClose     []map[string]interface{}           `yaml:"network-on-close"`
}

type rawDef struct {
	PlatformType string                  `yaml:"platform-type"`
	Default      *rawPlatform            `yaml:"default"`
	Variants     map[string]*rawPlatform `yaml:"variants"`
}

func stepsOf(ops []map[string]interface{}, networkDriver bool) []c17Step {
	var out []c17Step

	for _, op := range ops {
		st := c17Step{WellFormed: true}
		o, ok := op["operation"].(string)
		st.Operation = o

		switch {
		case !ok:
			st.WellFormed, st.Detail = false, "operation is not a string"
		case o == platform.OpChannelWrite:
			if _, ok := op["input"].(string); !ok {
				st.WellFormed, st.Detail = false, "channel.write without a string input"
			}
		case o == platform.OpChannelReturn:
		case o == platform.OpAcquirePriv && networkDriver:
		case o == platform.OpDriverSendCommand && networkDriver:
			if _, ok := op["command"].(string); !ok {
				st.WellFormed, st.Detail = false, "driver.send-command without a string command"
			}
		default:
			st.WellFormed, st.Detail = false, "unknown operation "+o
		}

		out = append(out, st)
	}

	return out
}

func exportDef(name, variant string) *c17Def {
	d := &c17Def{Name: name, Variant: variant, MergeOK: true, Levels: []c17Level{}, OnOpen: []c17Step{}, OnClose: []c17Step{}, Variants: []string{}}

	// what the file declares (parsed independently of the loader)
	var raw rawDef

	fileBytes, ferr := assets.Assets.ReadFile("platforms/" + name + ".yaml")
	if ferr == nil {
		_ = yaml.Unmarshal(fileBytes, &raw)
		d.UnknownKeys = unknownKeys(fileBytes)
	}

	if d.UnknownKeys == nil {
		d.UnknownKeys = []string{}
	}

	var p *platform.Platform

	var err error

	pipe := simdev.NewPipe(&simdev.CLI{Prompts: map[string]string{"m": "x# "}, Mode: "m"}, 1)

	func() {
		defer func() {
			if r := recover(); r != nil {
				err = fmt.Errorf("panic: %v", r)
			}
		}()

		if variant == "" {
			p, err = platform.NewPlatform(name, "sim", options.WithCustomTransport(pipe))
		} else {
			p, err = platform.NewPlatformVariant(name, variant, "sim", options.WithCustomTransport(pipe))
		}
	}()

	if err != nil {
		d.LoadError = err.Error()

		return d
	}

	d.Loads = true

	if raw.Default != nil {
		d.Declared = raw.Default.DriverType
		for v := range raw.Variants {
			d.Variants = append(d.Variants, v)
		}

		sort.Strings(d.Variants)
	}

	nd, nerr := p.GetNetworkDriver()
	if nerr == nil {
		d.DriverType = "network"
	} else if _, gerr := p.GetGenericDriver(); gerr == nil {
		d.DriverType = "generic"
	}

	d.OnOpen = append(append(d.OnOpen, stepsOf(mapsOf(p.OnOpen), false)...), stepsOf(mapsOf(p.NetworkOnOpen), true)...)
	d.OnClose = append(append(d.OnClose, stepsOf(mapsOf(p.OnClose), false)...), stepsOf(mapsOf(p.NetworkOnClose), true)...)
	d.Default = p.DefaultDesiredPrivilegeLevel

	// variant merge: every section equals the variant's where the variant defines it, else the default's
	if raw.Default != nil && (variant == "" || raw.Variants[variant] != nil) {
		rv, rd := raw.Variants[variant], raw.Default
		if variant == "" {
			// the default itself: every section is the file's default section (an empty variant defines nothing)
			rv = &rawPlatform{}
		}

		pick := func(defined bool, v, dflt interface{}) interface{} {
			if defined {
				return v
			}

			return dflt
		}
		checks := []struct {
			what      string
			got, want interface{}
		}{
			{"driver-type", p.DriverType, pick(rv.DriverType != "", rv.DriverType, rd.DriverType)},
			{"failed-when-contains", nn(p.FailedWhenContains), nn(pick(len(rv.FailedWhenContains) > 0, rv.FailedWhenContains, rd.FailedWhenContains).([]string))},
			{"default-desired-privilege-level", p.DefaultDesiredPrivilegeLevel, pick(rv.Default != "", rv.Default, rd.Default)},
			{"privilege-levels", levelNames(p.PrivilegeLevels), levelNames(pick(len(rv.PrivilegeLevels) > 0, rv.PrivilegeLevels, rd.PrivilegeLevels).(map[string]*network.PrivilegeLevel))},
			{"on-open", opsSig(mapsOf(p.OnOpen)), opsSig(pick(rv.OnOpen != nil, rv.OnOpen, rd.OnOpen).([]map[string]interface{}))},
			{"on-close", opsSig(mapsOf(p.OnClose)), opsSig(pick(rv.OnClose != nil, rv.OnClose, rd.OnClose).([]map[string]interface{}))},
			{"network-on-open", opsSig(mapsOf(p.NetworkOnOpen)), opsSig(pick(rv.NetworkOnOpen != nil, rv.NetworkOnOpen, rd.NetworkOnOpen).([]map[string]interface{}))},
			{"network-on-close", opsSig(mapsOf(p.NetworkOnClose)), opsSig(pick(rv.NetworkOnClose != nil, rv.NetworkOnClose, rd.NetworkOnClose).([]map[string]interface{}))},
		}

		for _, c := range checks {
			if !reflect.DeepEqual(c.got, c.want) {
				d.MergeOK = false
				d.MergeDiff += fmt.Sprintf("%s: merged %v, expected %v; ", c.what, c.got, c.want)
			}
		}
	}

	if nd == nil {
		return d
	}

	names := make([]string, 0, len(nd.PrivilegeLevels))
	for n := range nd.PrivilegeLevels {
		names = append(names, n)
	}

	sort.Strings(names)

	res := map[string]*regexp.Regexp{}

	for _, n := range names {
		l := nd.PrivilegeLevels[n]
		lv := c17Level{Name: l.Name, Pattern: l.Pattern, NotContains: nn(l.NotContains), Previous: l.PreviousPriv, Escalate: l.Escalate, Deescalate: l.Deescalate,
			Auth: l.EscalateAuth, EscalatePrompt: l.EscalatePrompt, Accepts: []string{}}
		lv.Prompt, lv.PromptOK = canonicalPrompt(l.Pattern, l.NotContains)
		res[n], _ = regexp.Compile(l.Pattern)

		if lv.PromptOK {
			lv.JoinedOK = nd.Channel.PromptPattern.MatchString(lv.Prompt)
		}

		lv.Documented, lv.DocumentedBad = []string{}, []string{}

		if variant == "" {
			for _, dp := range c17Documented[name][l.Name] {
				lv.Documented = append(lv.Documented, dp)
				ex := false

				for _, nc := range l.NotContains {
					if strings.Contains(dp, nc) {
						ex = true
					}
				}

				if ex || res[n] == nil || !res[n].MatchString(dp) || !nd.Channel.PromptPattern.MatchString(dp) {
					lv.DocumentedBad = append(lv.DocumentedBad, dp)
				}
			}
		}

		if l.EscalateAuth && l.EscalatePrompt != "" {
			lv.AskPrompt, _ = canonicalPrompt(l.EscalatePrompt, nil)
		}

		d.Levels = append(d.Levels, lv)
	}

	for i := range d.Levels {
		li := &d.Levels[i]
		li.DocumentedForeign = []string{}

		for _, other := range d.Levels {
			if other.Name == li.Name || res[other.Name] == nil {
				continue
			}

			if other.Pattern == li.Pattern && strings.Join(other.NotContains, "|") == strings.Join(li.NotContains, "|") {
				continue // twins by definition
			}

			for _, dp := range li.Documented {
				ex := false

				for _, nc := range other.NotContains {
					if strings.Contains(dp, nc) {
						ex = true
					}
				}

				if !ex && res[other.Name].MatchString(dp) {
					li.DocumentedForeign = append(li.DocumentedForeign, other.Name+"<-"+dp)
				}
			}
		}
	}

	for i := range d.Levels {
		li := &d.Levels[i]

		for _, other := range d.Levels {
			if !other.PromptOK || res[li.Name] == nil {
				continue
			}

			ex := false

			for _, nc := range li.NotContains {
				if strings.Contains(other.Prompt, nc) {
					ex = true
				}
			}

			if !ex && res[li.Name].MatchString(other.Prompt) {
				li.Accepts = append(li.Accepts, other.Name)
			}
		}
	}

	return d
}

func nn(s []string) []string {
	if s == nil {
		return []string{}
	}

	return s
}

func levelNames(m map[string]*network.PrivilegeLevel) []string {
	var out []string
	for _, l := range m {
		out = append(out, fmt.Sprintf("%s|%s|%s|%s|%s|%s|%v|%s", l.Name, l.Pattern, l.PreviousPriv, l.Escalate, l.Deescalate, strings.Join(l.NotContains, ","), l.EscalateAuth, l.EscalatePrompt))
	}

	sort.Strings(out)

	return out
}

func opsSig(ops []map[string]interface{}) []string {
	out := []string{}
	for _, o := range ops {
		b, _ := json.Marshal(o)
		out = append(out, string(b))
	}

	return out
}

func mapsOf(v interface{}) []map[string]interface{} {
	b, _ := json.Marshal(v)

	var out []map[string]interface{}

	_ = json.Unmarshal(b, &out)

	return out
}

var c17Documented = map[string]map[string][]string{}

func loadDocumented() {
	b, err := os.ReadFile(os.Getenv("VERIF_PROMPTS"))
	if err != nil {
		return
	}

	raw := map[string]json.RawMessage{}
	if json.Unmarshal(b, &raw) != nil {
		return
	}

	for k, v := range raw {
		if strings.HasPrefix(k, "_") {
			continue
		}

		m := map[string][]string{}
		if json.Unmarshal(v, &m) == nil {
			c17Documented[k] = m
		}
	}
}

// c17Decoys puts the process into a working directory that holds, for every advertised platform name, a file of that very
// name with another definition in it (the working directory of a program is not the library's business: an advertised name
// means the embedded definition).
func c17Decoys() error {
	dir, err := os.MkdirTemp(os.Getenv("VERIF_TMP"), "c17cwd-")
	if err != nil {
		return err
	}

	for _, n := range platform.GetPlatformNames() {
		decoy := "---\nplatform-type: 'decoy'\ndefault:\n  driver-type: 'generic'\n  failed-when-contains:\n    - 'decoy'\n"
		if err = os.WriteFile(filepath.Join(dir, n), []byte(decoy), 0o600); err != nil {
			return err
		}
	}

	return os.Chdir(dir)
}

func c17export(args []string) error {
	loadDocumented()

	fs := flag.NewFlagSet("c17export", flag.ContinueOnError)
	out := fs.String("out", "platforms.json", "output")

	if err := fs.Parse(args); err != nil {
		return err
	}

	if abs, aerr := filepath.Abs(*out); aerr == nil {
		*out = abs
	}

	if err := c17Decoys(); err != nil {
		return err
	}

	var all []*c17Def

	for _, name := range platform.GetPlatformNames() {
		d := exportDef(name, "")
		all = append(all, d)

		for _, v := range d.Variants {
			all = append(all, exportDef(name, v))
		}
	}

	// every embedded definition file must be reachable through an advertised name (the documentation-only example excepted)
	ents, _ := assets.Assets.ReadDir("platforms")
	adv := map[string]bool{}

	for _, n := range platform.GetPlatformNames() {
		adv[n] = true
	}

	for _, e := range ents {
		n := strings.TrimSuffix(e.Name(), ".yaml")
		if n != "example" && !adv[n] {
			all = append(all, &c17Def{Name: n, Variant: "", Loads: false, LoadError: "embedded definition file is not reachable through any advertised platform name", MergeOK: true,
				Levels: []c17Level{}, OnOpen: []c17Step{}, OnClose: []c17Step{}, Variants: []string{}})
		}
	}

	b, _ := json.Marshal(all)
	emit(map[string]interface{}{"n": len(all)})

	return os.WriteFile(*out, b, 0o600)
}

// ---------------------------------------------------------------- driving a device built from the definition

type c17Scn struct {
	Name    string      `json:"name"`
	Variant string      `json:"variant"`
	Pairs   [][2]string `json:"pairs"` // (start, target) level names, visited in order, start reached through the driver
	// Grants: the device has no secret configured: an escalate command that the definition marks as authenticated is granted
	// without a question (the user has a secondary secret configured all the same; it is never asked for)
	Grants bool `json:"grants,omitempty"`
	idx    int
}

func c17Run(s *c17Scn) verdict {
	id := s.Name
	if s.Variant != "" {
		id += "/" + s.Variant
	}

	if s.Grants {
		id += "+device-grants-without-asking"
	}

	v := verdict{ID: s.idx, Variant: id, OK: true, Nontrivial: len(s.Pairs) > 0}
	d := exportDef(s.Name, s.Variant)

	if !d.Loads {
		fail(&v, "C17:"+id+":does-not-load", "%s", d.LoadError)

		return v
	}

	lv := map[string]*c17Level{}
	for i := range d.Levels {
		lv[d.Levels[i].Name] = &d.Levels[i]
	}

	if lv[d.Default] == nil {
		fail(&v, "C17:"+id+":default-level-missing", "default desired level %q is not a level", d.Default)

		return v
	}

	// the root: the level without previous-priv; the device starts there
	root := ""
	for _, l := range d.Levels {
		if l.Previous == "" {
			root = l.Name
		}
	}

	prompts := map[string]string{}
	for _, l := range d.Levels {
		prompts[l.Name] = l.Prompt
	}

	const secret = "Sec0nd-ary!"

	var got []string

	cli := &simdev.CLI{Prompts: prompts, Mode: root, Banner: "\r\n"}
	cli.Handler = func(c *simdev.CLI, line string) string {
		got = append(got, c.Mode+":"+line)

		for _, l := range d.Levels {
			l := l
			if l.Previous == c.Mode && l.Escalate != "" && line == l.Escalate {
				if l.Auth && !s.Grants {
					c.Pending = &simdev.Ask{Prompt: l.AskPrompt, OnAnswer: func(c *simdev.CLI, a string) string {
						if a == secret {
							c.Mode = l.Name
						}

						return ""
					}}

					return ""
				}

				c.Mode = l.Name

				return ""
			}
		}

		if cur := lv[c.Mode]; cur != nil && cur.Deescalate != "" && line == cur.Deescalate && cur.Previous != "" {
			c.Mode = cur.Previous

			return ""
		}

		return ""
	}

	pipe := simdev.NewPipe(cli, int64(s.idx))
	pipe.Seg = simdev.Seg{Mode: "rand", Max: 9}

	opts := []util.Option{options.WithCustomTransport(pipe), options.WithReadDelay(30 * time.Microsecond), options.WithTimeoutOps(2 * time.Second), options.WithAuthSecondary(secret)}

	var p *platform.Platform

	var err error

	if s.Variant == "" {
		// a history: every variant of this platform was loaded in this process before the default is asked for - the default
		// is still the default (a variant is merged into a copy, never into what later loads start from)
		for _, vn := range d.Variants {
			_, _ = platform.NewPlatformVariant(s.Name, vn, "sim", opts...)
		}
	}

	// another history: an earlier platform of the same name whose driver was customised in place (patterns edited, privileges
	// updated) - what is loaded afterwards is the file's definition again
	if pc, cerr := platform.NewPlatform(s.Name, "sim", opts...); cerr == nil {
		if ndc, nerr := pc.GetNetworkDriver(); nerr == nil {
			for _, l := range ndc.PrivilegeLevels {
				l.Pattern = `customised-by-an-earlier-user#`
				l.NotContains = append(l.NotContains, "customised")
			}

			ndc.FailedWhenContains = append(ndc.FailedWhenContains, "customised")
			ndc.UpdatePrivileges()
		}
	}

	if d2 := exportDef(s.Name, s.Variant); d2.Loads && !d2.MergeOK {
		fail(&v, "C17:"+id+":changed-by-earlier-loads", "after earlier loads of the same name in this process (variants, a customised driver) the definition is no longer the file's: %s", d2.MergeDiff)

		return v
	}

	if s.Variant == "" {
		p, err = platform.NewPlatform(s.Name, "sim", opts...)
	} else {
		p, err = platform.NewPlatformVariant(s.Name, s.Variant, "sim", opts...)
	}

	if err != nil {
		fail(&v, "C17:"+id+":does-not-load", "%v", err)

		return v
	}

	nd, err := p.GetNetworkDriver()
	if err != nil {
		return v // generic platforms: loading is all there is to drive
	}

	// user options layered on top of the definition's own: the user's win
	{
		uopts := append(append([]util.Option{}, opts...), options.WithFailedWhenContains([]string{"USER-ONLY-MARKER"}), options.WithDefaultDesiredPriv(root),
			options.WithTimeoutOps(7777*time.Millisecond))

		var p2 *platform.Platform

		if s.Variant == "" {
			p2, err = platform.NewPlatform(s.Name, "sim", uopts...)
		} else {
			p2, err = platform.NewPlatformVariant(s.Name, s.Variant, "sim", uopts...)
		}

		if err != nil {
			fail(&v, "C17:"+id+":user-options-rejected", "%v", err)

			return v
		}

		nd2, _ := p2.GetNetworkDriver()

		switch {
		case nd2 == nil:
		case !reflect.DeepEqual(nd2.FailedWhenContains, []string{"USER-ONLY-MARKER"}):
			fail(&v, "C17:"+id+":user-option-overridden:failed-when-contains", "user gave failed-when-contains [USER-ONLY-MARKER], driver has %q", nd2.FailedWhenContains)
		case nd2.DefaultDesiredPriv != root:
			fail(&v, "C17:"+id+":user-option-overridden:default-desired-priv", "user gave default desired level %q, driver has %q", root, nd2.DefaultDesiredPriv)
		case nd2.Channel.TimeoutOps != 7777*time.Millisecond:
			fail(&v, "C17:"+id+":user-option-overridden:timeout-ops", "user gave timeout 7.777s, channel has %v", nd2.Channel.TimeoutOps)
		}

		if !v.OK {
			return v
		}
	}

	var oerr error

	fin, pan := withWatchdog(30*time.Second, func() { oerr = nd.Open() })
	if !fin || pan != nil || oerr != nil {
		fail(&v, "C17:"+id+":open", "open against the definition-derived device: fin=%v pan=%v err=%v (device saw %q)", fin, pan, oerr, got)

		return v
	}

	// on-open steps were run: every driver.send-command / channel.write of the definition reached the device
	pipe.Lock()
	seen := strings.Join(got, "\n")
	pipe.Unlock()

	for _, op := range append(mapsOf(p.OnOpen), mapsOf(p.NetworkOnOpen)...) {
		want := ""
		if c, ok := op["command"].(string); ok {
			want = c
		} else if in, ok := op["input"].(string); ok {
			want = in
		}

		if want != "" && !strings.Contains(seen, ":"+want) {
			fail(&v, "C17:"+id+":on-open-step-not-run", "on-open step %v never reached the device (device saw %q)", op, got)

			return v
		}
	}

	for _, pr := range s.Pairs {
		start, target := pr[0], pr[1]

		var aerr error

		placed := lv[start] != nil && lv[start].Escalate == "" && lv[start].Previous != ""

		fin, pan = withWatchdog(30*time.Second, func() {
			if placed {
				// a level that cannot be entered through the driver (no escalate command): the user moved the device there by
				// hand; the driver has to find its way out from what the prompt says
				pipe.Lock()
				cli.Mode = start
				pipe.Unlock()

				_, aerr = nd.GetPrompt()
				_, _ = nd.GetPrompt()
			} else {
				aerr = nd.AcquirePriv(start)
			}

			if aerr == nil {
				aerr = nd.AcquirePriv(target)
			}
		})

		pipe.Lock()
		mode := cli.Mode
		pipe.Unlock()

		accepted := false

		if t := lv[target]; t != nil {
			for _, a := range t.Accepts {
				if a == mode {
					accepted = true
				}
			}
		}

		if !fin || pan != nil || aerr != nil || !accepted {
			fail(&v, "C17:"+id+":unreachable:"+start+"->"+target, "from %s to %s: fin=%v pan=%v err=%v, device ends in %s (prompt %q)", start, target, fin, pan, aerr, mode, prompts[mode])

			return v
		}
	}

	pipe.Lock()
	before := len(got)
	pipe.Unlock()

	_, _ = withWatchdog(10*time.Second, func() { _ = nd.Close() })

	pipe.Lock()
	after := strings.Join(got[before:], "\n")
	pipe.Unlock()

	for _, op := range append(mapsOf(p.OnClose), mapsOf(p.NetworkOnClose)...) {
		if in, ok := op["input"].(string); ok && !strings.Contains(after, ":"+in) {
			fail(&v, "C17:"+id+":on-close-step-not-run", "on-close step %v never reached the device (after Close the device saw %q)", op, after)
		}
	}

	return v
}

func c17(_ []string) error {
	loadDocumented()

	if err := c17Decoys(); err != nil {
		return err
	}

	var scns []*c17Scn

	if err := readScenarios(func(raw json.RawMessage) error {
		s := &c17Scn{}
		if err := json.Unmarshal(raw, s); err != nil {
			return err
		}

		s.idx = len(scns)
		scns = append(scns, s)

		return nil
	}); err != nil {
		return err
	}

	parallel(len(scns), 8, func(i int) { emit(c17Run(scns[i])) })

	return nil
}

// yamlTags returns the yaml keys the fields of struct type t take.
func yamlTags(t reflect.Type) map[string]bool {
	m := map[string]bool{}

	for t.Kind() == reflect.Ptr {
		t = t.Elem()
	}

	for i := 0; i < t.NumField(); i++ {
		if tag := strings.Split(t.Field(i).Tag.Get("yaml"), ",")[0]; tag != "" && tag != "-" {
			m[tag] = true
		}
	}

	return m
}

// unknownKeys lists the keys of a definition file, at the levels the loader decodes into structs, that no struct field takes.
// Keys the shipped definitions carry for other implementations (textfsm-platform, genie-platform) are known to be ignored.
func unknownKeys(file []byte) []string {
	var doc map[string]interface{}

	if yaml.Unmarshal(file, &doc) != nil {
		return nil
	}

	out := []string{}
	defTags := yamlTags(reflect.TypeOf(platform.Definition{}))
	platTags := yamlTags(reflect.TypeOf(platform.Platform{}))
	lvlTags := yamlTags(reflect.TypeOf(network.PrivilegeLevel{}))
	ignorable := map[string]bool{"textfsm-platform": true, "genie-platform": true}

	for k := range doc {
		if !defTags[k] {
			out = append(out, k)
		}
	}

	checkPlat := func(where string, v interface{}) {
		pm, ok := v.(map[string]interface{})
		if !ok {
			return
		}

		for k, val := range pm {
			if !platTags[k] && !ignorable[k] {
				out = append(out, where+"."+k)
			}

			if k == "privilege-levels" {
				if lm, ok2 := val.(map[string]interface{}); ok2 {
					for ln, lv := range lm {
						if fm, ok3 := lv.(map[string]interface{}); ok3 {
							for fk := range fm {
								if !lvlTags[fk] {
									out = append(out, where+".privilege-levels."+ln+"."+fk)
								}
							}
						}
					}
				}
			}
		}
	}

	checkPlat("default", doc["default"])

	if vs, ok := doc["variants"].(map[string]interface{}); ok {
		for vn, v := range vs {
			checkPlat("variants."+vn, v)
		}
	}

	sort.Strings(out)

	return out
}
