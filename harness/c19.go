package main

import (
	"bytes"
	"encoding/json"
	"errors"
	"fmt"
	"io"
	"os"
	"path/filepath"
	"reflect"
	"regexp"
	"strings"
	"time"

	"github.com/scrapli/scrapligo/channel"
	"github.com/scrapli/scrapligo/driver/generic"
	"github.com/scrapli/scrapligo/driver/netconf"
	"github.com/scrapli/scrapligo/driver/network"
	"github.com/scrapli/scrapligo/driver/options"
	"github.com/scrapli/scrapligo/logging"
	"github.com/scrapli/scrapligo/platform"
	"github.com/scrapli/scrapligo/transport"
	"github.com/scrapli/scrapligo/util"
)

// C19: option lists of Options.tla applied through the four constructors; every observable setting compared with Fold.

func init() { register("c19", c19) }

type c19Scn struct {
	ID       int                 `json:"id"`
	User     []string            `json:"user"`
	Platform []string            `json:"platform"`
	Expect   map[string][]string `json:"expect"`
	Ctor     string              `json:"ctor,omitempty"`
	Kind     string              `json:"kind,omitempty"`
	Reject   map[string]string   `json:"reject,omitempty"`
	// kind "edge": a port at another transport's default, a transport type, and which of the two options comes first
	Port      int    `json:"port,omitempty"`
	Transport string `json:"transport,omitempty"`
	First     string `json:"first,omitempty"`
}

type c19Env struct {
	dir      string
	files    map[string]string
	loggers  [3]*logging.Instance
	writers  [3]io.Writer
	onOpen   [3]func(*generic.Driver) error
	onClose  [3]func(*generic.Driver) error
	nOnOpen  [3]func(*network.Driver) error
	nOnClose [3]func(*network.Driver) error
}

func newC19Env() (*c19Env, error) {
	d, err := os.MkdirTemp(os.Getenv("VERIF_TMP"), "c19-")
	if err != nil {
		return nil, err
	}

	e := &c19Env{dir: d, files: map[string]string{}}

	for _, n := range []string{"kh1", "kh2", "cfg1", "cfg2"} {
		p := filepath.Join(d, n)
		_ = os.WriteFile(p, []byte("# "+n+"\n"), 0o600)
		e.files[n] = p
	}

	for i := 1; i <= 2; i++ {
		i := i
		e.loggers[i], _ = logging.NewInstance(logging.WithLevel("debug"), logging.WithLogger(func(...interface{}) {}))
		e.writers[i] = &bytes.Buffer{}
	}

	// distinct function bodies: reflect can only tell functions apart by their code pointer
	e.onOpen[1], e.onOpen[2] = func(*generic.Driver) error { return nil }, func(*generic.Driver) error { return io.EOF }
	e.onClose[1], e.onClose[2] = func(*generic.Driver) error { return io.ErrClosedPipe }, func(*generic.Driver) error { return io.ErrNoProgress }
	e.nOnOpen[1], e.nOnOpen[2] = func(*network.Driver) error { return nil }, func(*network.Driver) error { return io.EOF }
	e.nOnClose[1], e.nOnClose[2] = func(*network.Driver) error { return io.ErrClosedPipe }, func(*network.Driver) error { return io.ErrNoProgress }

	return e, nil
}

func tagOf(tag string) (string, int) {
	k := strings.LastIndex(tag, ":")

	var v int

	fmt.Sscanf(tag[k+1:], "%d", &v)

	return tag[:k], v
}

// option returns the real option function for a tag.
func (e *c19Env) option(tag string) util.Option {
	switch tag {
	case "WithTransportType:bogus":
		return options.WithTransportType("bogus")
	case "WithNetconfPreferredVersion:bogus":
		return options.WithNetconfPreferredVersion("2.0")
	case "WithSSHKnownHostsFile:missing":
		return options.WithSSHKnownHostsFile(filepath.Join(e.dir, "no-such-file"))
	}

	name, v := tagOf(tag)
	s := fmt.Sprintf("%d", v)

	switch name {
	case "WithAuthUsername":
		return options.WithAuthUsername("user" + s)
	case "WithAuthPassword":
		return options.WithAuthPassword("pw" + s)
	case "WithAuthSecondary":
		return options.WithAuthSecondary("sec" + s)
	case "WithAuthPassphrase":
		return options.WithAuthPassphrase("pp" + s)
	case "WithAuthPrivateKey":
		return options.WithAuthPrivateKey("/keys/id"+s, "kp"+s)
	case "WithAuthNoStrictKey":
		return options.WithAuthNoStrictKey()
	case "WithAuthBypass":
		return options.WithAuthBypass()
	case "WithPromptSearchDepth":
		return options.WithPromptSearchDepth(111 * v)
	case "WithUsernamePattern":
		return options.WithUsernamePattern(regexp.MustCompile("user-pattern-" + s))
	case "WithPasswordPattern":
		return options.WithPasswordPattern(regexp.MustCompile("pass-pattern-" + s))
	case "WithPassphrasePattern":
		return options.WithPassphrasePattern(regexp.MustCompile("phrase-pattern-" + s))
	case "WithReturnChar":
		return options.WithReturnChar(strings.Repeat("\r", v))
	case "WithTimeoutOps":
		return options.WithTimeoutOps(time.Duration(v) * 1250 * time.Millisecond)
	case "WithReadDelay":
		return options.WithReadDelay(time.Duration(v) * 2500 * time.Microsecond)
	case "WithChannelLog":
		return options.WithChannelLog(e.writers[v])
	case "WithFailedWhenContains":
		return options.WithFailedWhenContains([]string{"fail-" + s})
	case "WithOnOpen":
		return options.WithOnOpen(e.onOpen[v])
	case "WithOnClose":
		return options.WithOnClose(e.onClose[v])
	case "WithDefaultLogger":
		return options.WithDefaultLogger()
	case "WithLogger":
		return options.WithLogger(e.loggers[v])
	case "WithNetconfPreferredVersion":
		return options.WithNetconfPreferredVersion([]string{"", "1.0", "1.1"}[v])
	case "WithNetconfForceSelfClosingTags":
		return options.WithNetconfForceSelfClosingTags()
	case "WithNetconfExcludeHeader":
		return options.WithNetconfExcludeHeader()
	case "WithNetworkOnOpen":
		return options.WithNetworkOnOpen(e.nOnOpen[v])
	case "WithNetworkOnClose":
		return options.WithNetworkOnClose(e.nOnClose[v])
	case "WithDefaultDesiredPriv":
		return options.WithDefaultDesiredPriv([]string{"", "exec", "privilege-exec"}[v])
	case "WithTransportReadSize":
		return options.WithTransportReadSize(1111 * v)
	case "WithPort":
		return options.WithPort(1000 + v)
	case "WithTermHeight":
		return options.WithTermHeight(50 + v)
	case "WithTermWidth":
		return options.WithTermWidth(100 + v)
	case "WithTimeoutSocket":
		return options.WithTimeoutSocket(time.Duration(v+2) * time.Second)
	case "WithSystemTransportOpenBin":
		return options.WithSystemTransportOpenBin("/bin/ssh" + s)
	case "WithSystemTransportOpenArgs":
		// a slice with room to spare, as one grown by append has
		l := append(make([]string, 0, 8), "-o", "X="+s)

		return options.WithSystemTransportOpenArgs(l)
	case "WithSystemTransportOpenArgsOverride":
		return options.WithSystemTransportOpenArgsOverride([]string{"override" + s})
	case "WithSSHKnownHostsFile":
		return options.WithSSHKnownHostsFile(e.files["kh"+s])
	case "WithSSHConfigFile":
		return options.WithSSHConfigFile(e.files["cfg"+s])
	}

	return nil
}

// yamlOption renders a platform-expressible option as an entry of a definition's options block.
func yamlOption(tag string) string {
	name, v := tagOf(tag)

	switch name {
	case "WithPort":
		return fmt.Sprintf("    - option: port\n      value: %d\n", 1000+v)
	case "WithAuthBypass":
		return "    - option: auth-bypass\n"
	case "WithAuthNoStrictKey":
		return "    - option: auth-strict-key\n      value: false\n"
	case "WithUsernamePattern":
		return fmt.Sprintf("    - option: username-pattern\n      value: 'user-pattern-%d'\n", v)
	case "WithPasswordPattern":
		return fmt.Sprintf("    - option: password-pattern\n      value: 'pass-pattern-%d'\n", v)
	case "WithPassphrasePattern":
		return fmt.Sprintf("    - option: passphrase-pattern\n      value: 'phrase-pattern-%d'\n", v)
	case "WithReturnChar":
		return fmt.Sprintf("    - option: return-char\n      value: \"%s\"\n", strings.Repeat("\\r", v))
	case "WithReadDelay":
		return fmt.Sprintf("    - option: read-delay\n      value: %g\n", float64(v)*0.0025)
	case "WithTimeoutOps":
		return fmt.Sprintf("    - option: timeout-ops\n      value: %g\n", float64(v)*1.25) // a YAML float (an integral value would decode to int)
	case "WithTransportReadSize":
		return fmt.Sprintf("    - option: read-size\n      value: %d\n", 1111*v)
	case "WithTermHeight":
		return fmt.Sprintf("    - option: transport-pty-height\n      value: %d\n", 50+v)
	case "WithTermWidth":
		return fmt.Sprintf("    - option: transport-pty-width\n      value: %d\n", 100+v)
	case "WithSystemTransportOpenArgs":
		return fmt.Sprintf("    - option: transport-system-open-args\n      value: ['-o', 'X=%d']\n", v)
	}

	return ""
}

func fptr(f interface{}) uintptr {
	v := reflect.ValueOf(f)
	if !v.IsValid() || v.IsNil() {
		return 0
	}

	return v.Pointer()
}

// observe turns the real settings back into tags (variant-insensitive for flags).
func (e *c19Env) observe(g *generic.Driver, n *network.Driver, c *netconf.Driver, ch *channel.Channel, tr *transport.Transport) map[string][]string {
	o := map[string][]string{}
	set := func(field, name string, variants map[int]bool) {
		for v, ok := range variants {
			if ok {
				o[field] = append(o[field], fmt.Sprintf("%s:%d", name, v))
			}
		}
	}
	two := func(field, name string, is func(v int) bool) { set(field, name, map[int]bool{1: is(1), 2: is(2)}) }
	a := tr.Args
	two("A.User", "WithAuthUsername", func(v int) bool { return a.User == fmt.Sprintf("user%d", v) })
	two("A.Password", "WithAuthPassword", func(v int) bool { return a.Password == fmt.Sprintf("pw%d", v) })
	two("A.ReadSize", "WithTransportReadSize", func(v int) bool { return a.ReadSize == 1111*v })
	two("A.Port", "WithPort", func(v int) bool { return a.Port == 1000+v })
	two("A.TermHeight", "WithTermHeight", func(v int) bool { return a.TermHeight == 50+v })
	two("A.TermWidth", "WithTermWidth", func(v int) bool { return a.TermWidth == 100+v })
	two("A.TimeoutSocket", "WithTimeoutSocket", func(v int) bool { return a.TimeoutSocket == time.Duration(v+2)*time.Second })
	two("C.PromptSearchDepth", "WithPromptSearchDepth", func(v int) bool { return ch.PromptSearchDepth == 111*v })
	two("C.UsernamePattern", "WithUsernamePattern", func(v int) bool { return ch.UsernamePattern.String() == fmt.Sprintf("user-pattern-%d", v) })
	two("C.PasswordPattern", "WithPasswordPattern", func(v int) bool { return ch.PasswordPattern.String() == fmt.Sprintf("pass-pattern-%d", v) })
	two("C.PassphrasePattern", "WithPassphrasePattern", func(v int) bool { return ch.PassphrasePattern.String() == fmt.Sprintf("phrase-pattern-%d", v) })
	two("C.ReturnChar", "WithReturnChar", func(v int) bool { return string(ch.ReturnChar) == strings.Repeat("\r", v) })
	two("C.TimeoutOps", "WithTimeoutOps", func(v int) bool { return ch.TimeoutOps == time.Duration(v)*1250*time.Millisecond })
	two("C.ReadDelay", "WithReadDelay", func(v int) bool { return ch.ReadDelay == time.Duration(v)*2500*time.Microsecond })
	two("C.ChannelLog", "WithChannelLog", func(v int) bool { return ch.ChannelLog == e.writers[v] })

	if ch.AuthBypass {
		o["C.AuthBypass"] = []string{"flag"}
	}

	if sys, ok := tr.Impl.(*transport.System); ok {
		s := sys.SSHArgs
		two("S.PrivateKeyPassPhrase", "WithAuthPassphrase", func(v int) bool { return s.PrivateKeyPassPhrase == fmt.Sprintf("pp%d", v) })
		two("S.PrivateKeyPassPhrase", "WithAuthPrivateKey", func(v int) bool { return s.PrivateKeyPassPhrase == fmt.Sprintf("kp%d", v) })
		two("S.PrivateKeyPath", "WithAuthPrivateKey", func(v int) bool { return s.PrivateKeyPath == fmt.Sprintf("/keys/id%d", v) })
		two("S.KnownHostsFile", "WithSSHKnownHostsFile", func(v int) bool { return s.KnownHostsFile != "" && s.KnownHostsFile == e.files[fmt.Sprintf("kh%d", v)] })
		two("S.ConfigFile", "WithSSHConfigFile", func(v int) bool { return s.ConfigFile != "" && s.ConfigFile == e.files[fmt.Sprintf("cfg%d", v)] })

		if !s.StrictKey {
			o["S.StrictKey"] = []string{"flag"}
		}

		two("Sys.OpenBin", "WithSystemTransportOpenBin", func(v int) bool { return sys.OpenBin == fmt.Sprintf("/bin/ssh%d", v) })
		two("Sys.OpenArgs", "WithSystemTransportOpenArgsOverride", func(v int) bool { return len(sys.OpenArgs) == 1 && sys.OpenArgs[0] == fmt.Sprintf("override%d", v) })

		for i := 0; i+1 < len(sys.ExtraArgs); i += 2 {
			var v int
			if sys.ExtraArgs[i] == "-o" {
				if k, _ := fmt.Sscanf(sys.ExtraArgs[i+1], "X=%d", &v); k == 1 {
					o["Sys.ExtraArgs"] = append(o["Sys.ExtraArgs"], fmt.Sprintf("WithSystemTransportOpenArgs:%d", v))

					continue
				}
			}

			o["Sys.ExtraArgs"] = append(o["Sys.ExtraArgs"], "?"+sys.ExtraArgs[i]+" "+sys.ExtraArgs[i+1])
		}

		if len(sys.ExtraArgs)%2 == 1 {
			o["Sys.ExtraArgs"] = append(o["Sys.ExtraArgs"], "?odd")
		}
	}

	var lg *logging.Instance

	if g != nil {
		lg = g.Logger
		two("G.FailedWhenContains", "WithFailedWhenContains", func(v int) bool {
			return len(g.FailedWhenContains) == 1 && g.FailedWhenContains[0] == fmt.Sprintf("fail-%d", v)
		})
		two("G.OnOpen", "WithOnOpen", func(v int) bool { return fptr(g.OnOpen) != 0 && fptr(g.OnOpen) == fptr(e.onOpen[v]) })
		two("G.OnClose", "WithOnClose", func(v int) bool { return fptr(g.OnClose) != 0 && fptr(g.OnClose) == fptr(e.onClose[v]) })
	}

	if n != nil {
		two("N.AuthSecondary", "WithAuthSecondary", func(v int) bool { return n.AuthSecondary == fmt.Sprintf("sec%d", v) })
		two("N.OnOpen", "WithNetworkOnOpen", func(v int) bool { return fptr(n.OnOpen) != 0 && fptr(n.OnOpen) == fptr(e.nOnOpen[v]) })
		two("N.OnClose", "WithNetworkOnClose", func(v int) bool { return fptr(n.OnClose) != 0 && fptr(n.OnClose) == fptr(e.nOnClose[v]) })
		two("N.DefaultDesiredPriv", "WithDefaultDesiredPriv", func(v int) bool { return n.DefaultDesiredPriv == []string{"", "exec", "privilege-exec"}[v] })
	}

	if c != nil {
		lg = c.Logger
		two("NC.PreferredVersion", "WithNetconfPreferredVersion", func(v int) bool { return c.PreferredVersion == []string{"", "1.0", "1.1"}[v] })

		if c.ForceSelfClosingTags {
			o["NC.ForceSelfClosingTags"] = []string{"flag"}
		}

		if c.ExcludeHeader {
			o["NC.ExcludeHeader"] = []string{"flag"}
		}
	}

	two("Logger", "WithLogger", func(v int) bool { return lg == e.loggers[v] })

	if lg != nil && lg != e.loggers[1] && lg != e.loggers[2] && lg.Level == "info" && len(lg.Loggers) == 1 {
		o["Logger"] = []string{"WithDefaultLogger:1"}
	}

	return o
}

var c19Fields = map[string]string{ // field -> constructors that expose it
	"A.User": "gncp", "A.Password": "gncp", "N.AuthSecondary": "np", "S.PrivateKeyPassPhrase": "gncp", "S.StrictKey": "gncp", "C.AuthBypass": "gncp",
	"C.PromptSearchDepth": "gncp", "C.UsernamePattern": "gncp", "C.PasswordPattern": "gncp", "C.PassphrasePattern": "gncp", "C.ReturnChar": "gncp", "C.TimeoutOps": "gncp",
	"C.ReadDelay": "gncp", "C.ChannelLog": "gncp", "G.FailedWhenContains": "gnp", "G.OnOpen": "gnp", "G.OnClose": "gnp", "Logger": "gncp", "NC.PreferredVersion": "c",
	"NC.ForceSelfClosingTags": "c", "NC.ExcludeHeader": "c", "N.OnOpen": "np", "N.OnClose": "np", "N.DefaultDesiredPriv": "np", "A.ReadSize": "gncp", "A.Port": "gncp",
	"A.TermHeight": "gncp", "A.TermWidth": "gncp", "A.TimeoutSocket": "gncp", "Sys.OpenBin": "gncp", "Sys.ExtraArgs": "gncp", "Sys.OpenArgs": "gncp",
	"S.KnownHostsFile": "gncp", "S.ConfigFile": "gncp", "S.PrivateKeyPath": "gncp",
}

func normFlag(tags []string, field string) []string {
	if field == "Logger" && len(tags) == 1 && strings.HasPrefix(tags[0], "WithDefaultLogger:") {
		return []string{"WithDefaultLogger:1"} // the option takes no value
	}

	if field == "S.StrictKey" || field == "C.AuthBypass" || field == "NC.ForceSelfClosingTags" || field == "NC.ExcludeHeader" {
		if len(tags) > 0 {
			return []string{"flag"}
		}
	}

	return tags
}

func c19Run(e *c19Env, s *c19Scn, ctor string) verdict {
	v := verdict{ID: s.ID, Variant: ctor, OK: true, Nontrivial: len(s.User)+len(s.Platform) > 1}
	all := append(append([]string{}, s.Platform...), s.User...)

	var opts []util.Option

	build := func(tags []string) []util.Option {
		var o []util.Option
		for _, t := range tags {
			if t == "NoPrivilegeLevels:0" {
				continue
			}

			if t == "TelnetIgnoresSSHFileOptions:0" {
				o = append(o, options.WithTransportType("telnet"), options.WithSSHKnownHostsFile(filepath.Join(e.dir, "no-such-kh")),
					options.WithSSHConfigFile(filepath.Join(e.dir, "no-such-cfg")))

				continue
			}

			o = append(o, e.option(t))
		}

		return o
	}

	base := []util.Option{options.WithPrivilegeLevels(stdLevels()), options.WithDefaultDesiredPriv("configuration")}

	for _, t := range s.User {
		if t == "NoPrivilegeLevels:0" {
			base = base[1:] // the default desired privilege level alone is not enough
		}
	}

	var g *generic.Driver

	var n *network.Driver

	var c *netconf.Driver

	var err error

	var pan interface{}

	overwritten := -1

	func() {
		defer func() { pan = recover() }()

		switch ctor {
		case "g":
			opts = build(all)
			overwritten = c19Earlier(opts)
			g, err = generic.NewDriver("h", opts...)
		case "n":
			opts = append(base, build(all)...)
			overwritten = c19Earlier(opts)
			n, err = network.NewDriver("h", opts...)
		case "c":
			opts = build(all)
			c, err = netconf.NewDriver("h", opts...)
		case "p":
			var y strings.Builder

			y.WriteString("---\nplatform-type: 'verif'\ndefault:\n  driver-type: 'network'\n  privilege-levels:\n")

			for _, name := range []string{"exec", "privilege-exec", "configuration"} {
				l := stdLevels()[name]
				fmt.Fprintf(&y, "    %s:\n      name: '%s'\n      pattern: '%s'\n      previous-priv: '%s'\n      deescalate: '%s'\n      escalate: '%s'\n      escalate-auth: %v\n      escalate-prompt: '%s'\n",
					name, name, l.Pattern, l.PreviousPriv, l.Deescalate, l.Escalate, l.EscalateAuth, l.EscalatePrompt)
			}

			y.WriteString("  default-desired-privilege-level: 'configuration'\n")

			if len(s.Platform) > 0 {
				y.WriteString("  options:\n")

				for _, t := range s.Platform {
					y.WriteString(yamlOption(t))
				}
			}

			var p *platform.Platform

			p, err = platform.NewPlatform([]byte(y.String()), "h", build(s.User)...)
			if err == nil {
				n, err = p.GetNetworkDriver()
			}
		case "q":
			// a platform definition of driver type 'generic': its options block counts just the same
			var y strings.Builder

			y.WriteString("---\nplatform-type: 'verifg'\ndefault:\n  driver-type: 'generic'\n")

			if len(s.Platform) > 0 {
				y.WriteString("  options:\n")

				for _, t := range s.Platform {
					y.WriteString(yamlOption(t))
				}
			}

			var p *platform.Platform

			p, err = platform.NewPlatform([]byte(y.String()), "h", build(s.User)...)
			if err == nil {
				g, err = p.GetGenericDriver()
			}
		}
	}()

	if overwritten >= 0 {
		fail(&v, "C19:caller-options-overwritten-by-an-earlier-constructor", "an earlier driver was built from the first options of the caller's slice; afterwards option %d of that slice (%v + %v) is no longer the caller's",
			overwritten+1, s.Platform, s.User)

		return v
	}

	if pan != nil {
		fail(&v, "C19:"+ctor+":panic", "constructor panicked for platform options %v + user options %v: %v", s.Platform, s.User, pan)

		return v
	}

	if s.Kind == "invalid" {
		want := s.Reject[ctor]
		bad := err != nil && errors.Is(err, util.ErrBadOption)
		inv := ""

		for _, t := range s.User {
			if strings.HasSuffix(t, ":bogus") || strings.HasSuffix(t, ":missing") || t == "NoPrivilegeLevels:0" {
				inv = t
			}
		}

		switch {
		case want == "bad" && err == nil:
			fail(&v, "C19:"+ctor+":invalid-accepted:"+inv, "constructor %s accepted the invalid option in %v", ctor, s.User)
		case want == "bad" && !bad:
			fail(&v, "C19:"+ctor+":invalid-wrong-error:"+inv, "constructor %s rejected %v with %v, which is not a bad-option error", ctor, s.User, err)
		case want == "bad-or-ignored" && err != nil && !bad:
			fail(&v, "C19:"+ctor+":invalid-wrong-error:"+inv, "constructor %s: %v for %v (neither ignored nor a bad-option error)", ctor, err, s.User)
		case want == "error" && err == nil:
			fail(&v, "C19:"+ctor+":invalid-accepted:"+inv, "constructor %s accepted %v", ctor, s.User)
		case want == "" && err != nil:
			fail(&v, "C19:"+ctor+":error:"+errClass(err), "constructor failed for %v: %v", s.User, err)
		}

		return v
	}

	if err != nil {
		fail(&v, "C19:"+ctor+":error:"+errClass(err), "constructor failed for %v + %v: %v", s.Platform, s.User, err)

		return v
	}

	var ch *channel.Channel

	var tr *transport.Transport

	switch {
	case g != nil:
		ch, tr = g.Channel, g.Transport
	case n != nil:
		g = n.Driver
		ch, tr = n.Channel, n.Transport
	case c != nil:
		ch, tr = c.Channel, c.Transport
	}

	got := e.observe(g, n, c, ch, tr)

	for field, ctors := range c19Fields {
		as := ctor
		if ctor == "q" {
			as = "g"
		}

		if !strings.Contains(ctors, as) {
			continue
		}

		if ctor == "c" && len(s.Expect[field]) == 1 && strings.HasPrefix(s.Expect[field][0], "WithDefaultLogger:") {
			continue // the default-logger option addresses the generic driver only
		}

		want := normFlag(s.Expect[field], field)
		have := normFlag(got[field], field)

		if field == "S.PrivateKeyPassPhrase" && len(have) > 1 {
			have = have[len(have)-1:]
		}

		if strings.Join(want, ",") != strings.Join(have, ",") {
			kind := "wrong-value"
			if len(want) > 0 && len(have) == 0 {
				kind = "no-effect"
			} else if len(want) == 0 && len(have) > 0 {
				kind = "foreign-setting-changed"
			}

			fail(&v, "C19:"+ctor+":"+field+":"+kind, "constructor %s, platform options %v, user options %v: %s is %v, Fold says %v", ctor, s.Platform, s.User, field, have, want)

			return v
		}
	}

	// option values can be used again: a second object built from the very same option values (and one more additive option)
	// leaves the first one as it is
	if ctor == "g" || ctor == "n" || ctor == "c" {
		again := append(append([]util.Option{}, opts...), e.option("WithSystemTransportOpenArgs:3"))

		var err2 error

		switch ctor {
		case "g":
			_, err2 = generic.NewDriver("h2", again...)
		case "n":
			_, err2 = network.NewDriver("h2", again...)
		case "c":
			_, err2 = netconf.NewDriver("h2", again...)
		}

		if err2 != nil {
			fail(&v, "C19:"+ctor+":second-construction:error", "a second object from the same option values: %v", err2)

			return v
		}

		// ... also when the two lists go on differently behind a shared additive option
		if s.ID%25 == 0 {
			shared := e.option("WithSystemTransportOpenArgs:1")
			mk := func(o ...util.Option) (*transport.Transport, error) {
				switch ctor {
				case "g":
					d, e1 := generic.NewDriver("h3", o...)
					if e1 != nil {
						return nil, e1
					}

					return d.Transport, nil
				case "n":
					d, e1 := network.NewDriver("h3", append(append([]util.Option{}, base...), o...)...)
					if e1 != nil {
						return nil, e1
					}

					return d.Transport, nil
				default:
					d, e1 := netconf.NewDriver("h3", o...)
					if e1 != nil {
						return nil, e1
					}

					return d.Transport, nil
				}
			}
			args := func(t *transport.Transport) string {
				if sys, ok := t.Impl.(*transport.System); ok {
					return strings.Join(sys.ExtraArgs, " ")
				}

				return "?"
			}

			tA, eA := mk(shared, e.option("WithSystemTransportOpenArgs:2"))
			if eA != nil {
				fail(&v, "C19:"+ctor+":second-construction:error", "%v", eA)

				return v
			}

			before := args(tA)
			tB, eB := mk(shared, e.option("WithSystemTransportOpenArgs:3"))

			if eB != nil || args(tA) != before || before != "-o X=1 -o X=2" || args(tB) != "-o X=1 -o X=3" {
				fail(&v, "C19:"+ctor+":Sys.ExtraArgs:changed-by-a-second-construction", "open-args [X=1 (one option value used for both objects), X=2] gave %q; after a second object was built from [the same X=1 value, X=3] (err %v, it has %q) the first has %q",
					before, eB, args(tB), args(tA))

				return v
			}
		}

		got2 := e.observe(g, n, c, ch, tr)

		for field := range c19Fields {
			if strings.Join(got[field], ",") != strings.Join(got2[field], ",") {
				fail(&v, "C19:"+ctor+":"+field+":changed-by-a-second-construction", "constructor %s, options %v: %s was %v; after a second object had been built from the same option values (plus open-args X=3) it is %v",
					ctor, all, field, got[field], got2[field])

				return v
			}
		}
	}

	return v
}

func c19(_ []string) error {
	e, err := newC19Env()
	if err != nil {
		return err
	}

	defer os.RemoveAll(e.dir)

	return readScenarios(func(raw json.RawMessage) error {
		s := &c19Scn{}
		if err := json.Unmarshal(raw, s); err != nil {
			return err
		}

		for _, ctor := range []string{"g", "n", "c", "p", "q"} {
			if ctor == "q" && s.Kind == "invalid" {
				continue
			}

			if s.Ctor != "" && s.Ctor != ctor {
				continue
			}

			if s.Kind == "edge" {
				emit(c19Edge(s, ctor))

				continue
			}

			if s.Kind == "edge-empty" {
				emit(c19Empty(s, ctor))

				continue
			}

			emit(c19Run(e, s, ctor))
		}

		return nil
	})
}

// c19Edge: Options!EdgeScn - the port given is the port held, whatever transport type is asked for and whichever option comes first.
func c19Edge(s *c19Scn, ctor string) verdict {
	v := verdict{ID: s.ID, Variant: ctor, OK: true, Nontrivial: true}
	o := []util.Option{options.WithPort(s.Port), options.WithTransportType(s.Transport)}

	if s.First == "type" {
		o[0], o[1] = o[1], o[0]
	}

	var tr *transport.Transport

	var err error

	var pan interface{}

	func() {
		defer func() { pan = recover() }()

		switch ctor {
		case "g":
			var g *generic.Driver

			g, err = generic.NewDriver("h", o...)
			if err == nil {
				tr = g.Transport
			}
		case "n":
			var n *network.Driver

			n, err = network.NewDriver("h", append([]util.Option{options.WithPrivilegeLevels(stdLevels()), options.WithDefaultDesiredPriv("configuration")}, o...)...)
			if err == nil {
				tr = n.Transport
			}
		case "c":
			var c *netconf.Driver

			c, err = netconf.NewDriver("h", o...)
			if err == nil {
				tr = c.Transport
			}
		case "p", "q":
			// the port stands in the definition's options block, the transport type is the user's; for "q" both are the user's
			y := "---\nplatform-type: 'verifg'\ndefault:\n  driver-type: 'generic'\n"
			user := o

			if ctor == "p" {
				y += fmt.Sprintf("  options:\n    - option: port\n      value: %d\n", s.Port)
				user = []util.Option{options.WithTransportType(s.Transport)}
			}

			var p *platform.Platform

			p, err = platform.NewPlatform([]byte(y), "h", user...)
			if err == nil {
				var g *generic.Driver

				g, err = p.GetGenericDriver()
				if err == nil {
					tr = g.Transport
				}
			}
		}
	}()

	kind := ""

	if tr != nil {
		switch tr.Impl.(type) {
		case *transport.System:
			kind = "system"
		case *transport.Standard:
			kind = "standard"
		case *transport.Telnet:
			kind = "telnet"
		default:
			kind = fmt.Sprintf("%T", tr.Impl)
		}
	}

	switch {
	case pan != nil:
		fail(&v, "C19:"+ctor+":panic", "constructor panicked for port %d with transport %s: %v", s.Port, s.Transport, pan)
	case err != nil:
		fail(&v, "C19:"+ctor+":error:"+errClass(err), "constructor failed for port %d with transport %s: %v", s.Port, s.Transport, err)
	case tr.Args.Port != s.Port:
		fail(&v, fmt.Sprintf("C19:%s:A.Port:edge-value-%d-with-%s", ctor, s.Port, s.Transport), "port %d given (%s first) with transport %s, the transport holds %d", s.Port, s.First, s.Transport, tr.Args.Port)
	case kind != s.Transport:
		fail(&v, "C19:"+ctor+":T.Type:"+s.Transport, "transport type %s asked for, %s built", s.Transport, kind)
	}

	return v
}

// c19Earlier: an earlier driver was built from the first options of the same list (a caller that keeps its options in one
// slice and hands sub-slices to the constructors): the caller's slice is the caller's - returns the index of an element that
// was overwritten, or -1.
func c19Earlier(opts []util.Option) (overwritten int) {
	overwritten = -1

	if len(opts) < 2 {
		return
	}

	before := make([]uintptr, len(opts))
	for i, o := range opts {
		before[i] = fptr(o)
	}

	func() {
		defer func() { _ = recover() }()

		_, _ = netconf.NewDriver("h", opts[:len(opts)-1]...)
		_, _ = generic.NewDriver("h", opts[:len(opts)-1]...)
	}()

	for i, o := range opts {
		if fptr(o) != before[i] {
			return i
		}
	}

	return -1
}

// c19Empty: Options!EmptyScn - an empty list of failure strings is a value like any other: given later it wins (also over the
// list of a platform definition), given earlier it loses.
func c19Empty(s *c19Scn, ctor string) verdict {
	v := verdict{ID: s.ID, Variant: ctor, OK: true, Nontrivial: true}
	some := []string{"% Invalid input", "Error:"}

	var got []string

	var err error

	var pan interface{}

	func() {
		defer func() { pan = recover() }()

		var o []util.Option

		switch s.First {
		case "user-then-empty":
			o = []util.Option{options.WithFailedWhenContains(some), options.WithFailedWhenContains([]string{})}
		case "empty-then-user":
			o = []util.Option{options.WithFailedWhenContains([]string{}), options.WithFailedWhenContains(some)}
		default:
			o = []util.Option{options.WithFailedWhenContains([]string{})}
		}

		switch ctor {
		case "g", "c":
			var g *generic.Driver

			g, err = generic.NewDriver("h", o...)
			if err == nil {
				got = g.FailedWhenContains
			}
		case "n":
			var n *network.Driver

			n, err = network.NewDriver("h", append([]util.Option{options.WithPrivilegeLevels(stdLevels()), options.WithDefaultDesiredPriv("configuration")}, o...)...)
			if err == nil {
				got = n.FailedWhenContains
			}
		default:
			y := "---\nplatform-type: 'verifg'\ndefault:\n  driver-type: 'generic'\n"
			if s.First == "platform-then-empty" {
				y += "  failed-when-contains:\n    - '% Invalid input'\n    - 'Error:'\n"
			}

			var p *platform.Platform

			p, err = platform.NewPlatform([]byte(y), "h", o...)
			if err == nil {
				var g *generic.Driver

				g, err = p.GetGenericDriver()
				if err == nil {
					got = g.FailedWhenContains
				}
			}
		}
	}()

	want := 0
	if s.First == "empty-then-user" {
		want = len(some)
	}

	switch {
	case pan != nil:
		fail(&v, "C19:"+ctor+":panic", "constructor panicked for an empty list of failure strings (%s): %v", s.First, pan)
	case err != nil:
		fail(&v, "C19:"+ctor+":error:"+errClass(err), "constructor failed for an empty list of failure strings (%s): %v", s.First, err)
	case len(got) != want:
		fail(&v, "C19:"+ctor+":G.FailedWhenContains:empty-value:"+s.First, "failure strings given as %s: the driver holds %q", s.First, got)
	}

	return v
}
