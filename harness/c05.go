package main

import (
	"encoding/json"
	"flag"
	"fmt"
	"hash/fnv"
	"os"
	"strings"
	"time"

	"github.com/scrapli/scrapligo/driver/opoptions"
	"github.com/scrapli/scrapligo/util"

	"verifharness/simdev"
)

// C05 (stall) and C06 (loss): fault enumeration over the standard operations.
//   vh faultexport -out ops.json     fault-free run of every operation -> exchange structure for Stall.tla
//   vh fault < scenarios             one run per (op, fault, k, timeout setting, segmentation)

func init() {
	register("faultexport", faultExport)
	register("fault", faultRun)
}

var faultSegs = map[string]simdev.Seg{
	"whole": {Mode: "whole"}, "one": {Mode: "one"}, "rand": {Mode: "rand", Max: 7},
}

func exportOp(op *faultOp) (*opExport, error) {
	c := sessCfg{connTimeout: 3 * time.Second, seg: simdev.Seg{Mode: "rand", Max: 9}, seed: 7}

	s, err := op.build(c)
	if err != nil {
		return nil, fmt.Errorf("%s: build: %w", op.name, err)
	}

	defer s.close()

	if op.prep != nil {
		if err = op.prep(s); err != nil {
			return nil, fmt.Errorf("%s: prep: %w", op.name, err)
		}
	}

	s.pipe.WaitDrained(time.Second)
	time.Sleep(3 * time.Millisecond)
	s.pipe.Lock()
	w0 := len(s.pipe.Writes)
	s.pipe.Unlock()
	s.pipe.Mark()

	res, err := op.run(s, nil, 3*time.Second)
	if err != nil {
		return nil, fmt.Errorf("%s: fault-free run failed: %w", op.name, err)
	}

	s.pipe.WaitDrained(time.Second)
	s.pipe.Lock()
	defer s.pipe.Unlock()

	e := &opExport{Name: op.name, Result: res, PerOp: op.perOp}
	if op.openIsOp {
		e.Pre = len(s.pipe.StartB)
		e.PreNeed = e.Pre - trailingWS(s.pipe.StartB)
	}

	// group the writes into exchanges: input write(s) followed by the return write(s)
	var cur *exchange

	lastTail := 0

	flush := func() {
		if cur != nil {
			if cur.RespLen == 0 && cur.EchoLen > 0 && !cur.Echo && s.srv != nil {
				// the reaction to the message write itself is the reply (NETCONF 1.0: the delimiter completes the request)
				cur.RespLen, cur.EchoLen = cur.EchoLen, 0
				cur.Need = cur.RespLen - lastTail
			}

			e.Exchanges = append(e.Exchanges, *cur)
			cur = nil
		}
	}

	for i := w0; i < len(s.pipe.Writes); i++ {
		w, r := s.pipe.Writes[i], s.pipe.ReactB[i]
		if string(w) != "\n" {
			if cur != nil && cur.RespLen > 0 {
				flush()
			}

			if cur == nil {
				cur = &exchange{}
			}

			cur.InLen += len(w)
			cur.EchoLen += len(r)

			if len(r) > 0 {
				lastTail = trailingWS(r)
			}

			continue
		}

		if cur == nil {
			cur = &exchange{}
		} else if cur.RespLen > 0 {
			// a further return after a response (NETCONF 1.1 second return): same exchange
			cur.RespLen += len(r)
			if len(r) > 0 {
				lastTail = trailingWS(r)
			}

			cur.Need = cur.RespLen - lastTail

			continue
		}

		cur.RespLen = len(r)
		if len(r) > 0 {
			lastTail = trailingWS(r)
		}

		cur.Need = len(r) - lastTail
		if cur.Need < 0 {
			cur.Need = 0
		}
		// the client waits for the echo only for visible CLI input
		cur.Echo = cur.EchoLen > 0 && s.srv == nil && s.pipe.States[i] != "" && !strings.HasSuffix(s.pipe.States[i], "/ask") && s.login == nil
	}

	flush()

	for i := range e.Exchanges {
		x := &e.Exchanges[i]
		if i == op.perOpFrom {
			e.PerOpFrom = e.Pre + e.Total
		}

		if s.login != nil && !strings.HasPrefix(s.login.State(), "shell") {
			x.Echo = false
		}

		e.Total += x.EchoLen + x.RespLen
	}

	e.Total += e.Pre

	return e, nil
}

func faultExport(args []string) error {
	fs := flag.NewFlagSet("faultexport", flag.ContinueOnError)
	out := fs.String("out", "ops.json", "output")

	if err := fs.Parse(args); err != nil {
		return err
	}

	var all []*opExport

	for _, op := range faultOps() {
		e, err := exportOp(op)
		if err != nil {
			return err
		}

		all = append(all, e)
		emit(e)
	}

	b, _ := json.Marshal(all)

	return os.WriteFile(*out, b, 0o600)
}

type faultScn struct {
	Op      string   `json:"op"`
	Fault   string   `json:"fault"` // stall | eof | err | werr
	K       int      `json:"k"`
	Allowed []string `json:"allowed"` // classes the model allows: ok | timeout | error
	Need    int      `json:"need"`
	Total   int      `json:"total"`
	LastRet int      `json:"lastret"` // stream offset after which the last return has been written (recovery clause)
	Setting string   `json:"setting"` // conn | opshort | oplong | zero
	Seg     string   `json:"seg"`
	Result  string   `json:"result"` // fault-free result
}

const (
	tConn  = 120 * time.Millisecond
	tSlack = 400 * time.Millisecond
)

func has(l []string, s string) bool {
	for _, x := range l {
		if x == s {
			return true
		}
	}

	return false
}

func faultOne(sc *faultScn, idx int) verdict {
	v := verdict{ID: idx, Variant: fmt.Sprintf("%s/%s/k=%d/%s/%s", sc.Op, sc.Fault, sc.K, sc.Setting, sc.Seg), OK: true, Nontrivial: sc.K < sc.Need}
	prop := "C05"
	if sc.Fault != "stall" {
		prop = "C06"
	}

	op := findOp(sc.Op)
	if op == nil {
		fail(&v, prop+":harness", "unknown op %s", sc.Op)

		return v
	}

	conn, eff := tConn, tConn

	var opOpts []util.Option

	switch sc.Setting {
	case "opshort":
		conn, eff = 2500*time.Millisecond, 90*time.Millisecond
		opOpts = append(opOpts, opoptions.WithTimeoutOps(eff))
	case "oplong":
		conn, eff = 40*time.Millisecond, 260*time.Millisecond
		opOpts = append(opOpts, opoptions.WithTimeoutOps(eff))
	case "zero":
		conn, eff = 70*time.Millisecond, 0
		opOpts = append(opOpts, opoptions.WithTimeoutOps(0))
	case "paced":
		// the device is slow but alive up to the stall: what it delivers before byte k takes 70 % of the timeout; the clock of
		// the operation runs from its start, not from the last byte or the last write
		conn, eff = time.Second, time.Second

		if sc.K%2 == 1 {
			conn = 3 * time.Second
			opOpts = append(opOpts, opoptions.WithTimeoutOps(eff))
		}
	}

	if sc.Fault != "stall" {
		conn, eff = 4*time.Second, 4*time.Second // a loss must surface long before this
	}

	if sc.Fault == "stall" && sc.Setting != "zero" && len(sc.Allowed) == 1 && sc.Allowed[0] == "ok" {
		// the stall lies behind everything the operation needs: nothing is waited for, so the tight budgets above would only
		// measure the machine's load (310 one-byte reads of a hello do not fit into 120 ms on a busy machine)
		conn, eff = 3*time.Second, 3*time.Second

		if sc.Setting == "opshort" || sc.Setting == "oplong" {
			opOpts = append(opOpts, opoptions.WithTimeoutOps(eff))
		}
	}

	c := sessCfg{connTimeout: conn, seg: faultSegs[sc.Seg], seed: int64(idx)}

	var s *sess

	var err error

	arm := func() {
		s.pipe.Mark()

		if sc.Setting == "paced" && sc.K > 0 {
			s.pipe.Lock()
			s.pipe.Seg = simdev.Seg{Mode: "one"}
			s.pipe.ReadDelay = eff * 7 / 10 / time.Duration(sc.K)
			s.pipe.Unlock()
		}

		if sc.Fault == "stall" {
			s.pipe.SetStall(sc.K)
		} else {
			s.pipe.SetLoss(sc.Fault, sc.K)
		}
	}

	if op.openIsOp {
		s, err = op.build(c)
		if err == nil {
			arm()
		}
	} else {
		// the preparation runs with a comfortable timeout; the setting under test is applied afterwards
		c2 := c
		c2.connTimeout = 3 * time.Second
		s, err = op.build(c2)

		if err == nil && op.prep != nil {
			err = op.prep(s)
		}

		if err == nil {
			s.pipe.WaitDrained(time.Second)
			time.Sleep(2 * time.Millisecond)

			switch {
			case s.nd != nil:
				s.nd.Channel.TimeoutOps = conn
			case s.gd != nil:
				s.gd.Channel.TimeoutOps = conn
			case s.nc != nil:
				s.nc.Channel.TimeoutOps = conn
			}

			arm()

			if sc.Fault != "stall" && sc.K == 0 {
				// "while idle": the loss happens before the operation starts; give the read loop time to notice it
				time.Sleep(4 * time.Millisecond)
			}
		}
	}

	if err != nil {
		fail(&v, prop+":harness:setup", "setup of %s failed: %v", sc.Op, err)

		return v
	}

	if sc.Fault == "stall" {
		defer s.close()
	}

	// which variant of a scenario is exercised depends on the scenario alone, so that a re-run of it alone does the same thing
	hsh := fnv.New32a()
	fmt.Fprintf(hsh, "%s/%s/%d/%s", sc.Op, sc.Fault, sc.K, sc.Setting)
	sel := int(hsh.Sum32() % 6)

	if len(opOpts) > 0 && sel%2 == 1 {
		// the per-operation timeout is not the first option of the call: an option of another layer precedes it (every layer
		// skips what is not its own and must go on to the next option)
		if s.nc != nil {
			opOpts = append([]util.Option{opoptions.WithFilterType("subtree")}, opOpts...)
		} else {
			opOpts = append([]util.Option{opoptions.WithFailedWhenContains([]string{"%% never printed %%"})}, opOpts...)
		}
	}

	var res string

	t0 := time.Now()
	tparam := eff

	if sc.Setting == "zero" {
		// must still be pending after 3x the connection-wide timeout, and succeed once the device catches up
		done := make(chan struct{})

		go func() {
			defer close(done)
			res, err = op.run(s, opOpts, 24*time.Hour)
		}()

		select {
		case <-done:
			if sc.K < sc.Need {
				fail(&v, "C05:"+sc.Op+":zero-timeout-not-maximum", "per-operation timeout 0 (= maximum): returned after %v with %v although the device was stalled at byte %d", time.Since(t0), err, sc.K)
			}
		case <-time.After(3*conn + 60*time.Millisecond):
		}

		s.pipe.SetStall(-1)

		select {
		case <-done:
			if v.OK && (err != nil || strings.TrimSpace(res) != strings.TrimSpace(sc.Result)) {
				fail(&v, "C05:"+sc.Op+":zero-timeout-catchup", "after catch-up: result %q err %v, expected %q", res, err, sc.Result)
			}
		case <-time.After(5 * time.Second):
			fail(&v, "C05:"+sc.Op+":zero-timeout-catchup", "still pending 5 s after the device caught up")
		}

		return v
	}

	fin, pan := withWatchdog(eff+6*time.Second, func() { res, err = op.run(s, opOpts, tparam) })
	dur := time.Since(t0)

	if sc.Setting == "paced" {
		// the device is back to its normal speed for whatever follows
		s.pipe.Lock()
		s.pipe.Seg = faultSegs["rand"]
		s.pipe.ReadDelay = 0
		s.pipe.Unlock()
	}
	class := errClass(err)

	if class != "ok" && class != "timeout" {
		if class == "privilege" && op.allowPriv && sc.Fault == "stall" {
			class = "timeout"
		} else if sc.Fault != "stall" {
			class = "error"
		}
	}

	if sc.Fault != "stall" && class == "timeout" && dur < eff/2 {
		// a timeout-class error that arrives promptly is still an error report, but the property wants "error, not waiting out the timeout":
		class = "timeout"
	}

	switch {
	case !fin:
		fail(&v, prop+":"+sc.Op+":"+sc.Fault+":hang", "operation did not return within %v (fault %s at byte %d of %d)", eff+6*time.Second, sc.Fault, sc.K, sc.Total)
	case pan != nil:
		fail(&v, prop+":"+sc.Op+":"+sc.Fault+":panic", "panic: %v", pan)
	case !has(sc.Allowed, class):
		what := "wrong-outcome"
		if class == "ok" {
			what = "success-despite-fault"
		} else if has(sc.Allowed, "ok") && len(sc.Allowed) == 1 {
			what = "spurious-error"
		} else if class == "timeout" && sc.Fault != "stall" {
			what = "waited-out-timeout"
		}

		fail(&v, prop+":"+sc.Op+":"+sc.Fault+":"+what, "fault %s at byte %d (need %d, total %d): outcome %s (%v) after %v, model allows %v", sc.Fault, sc.K, sc.Need, sc.Total, class, err, dur, sc.Allowed)
	case class == "ok" && strings.TrimSpace(res) != strings.TrimSpace(sc.Result):
		fail(&v, prop+":"+sc.Op+":"+sc.Fault+":partial-success", "fault at byte %d: success with result %q, complete result is %q", sc.K, res, sc.Result)
	case class == "timeout" && sc.Fault == "stall":
		grace := time.Duration(0)
		if op.openIsOp {
			grace = 200 * time.Millisecond
		}

		if dur > eff+tSlack+grace {
			fail(&v, "C05:"+sc.Op+":late:"+sc.Setting, "stall at byte %d: returned after %v, effective timeout %v", sc.K, dur, eff)
		} else if dur < eff*7/10 {
			fail(&v, "C05:"+sc.Op+":early:"+sc.Setting, "stall at byte %d: timeout reported after %v, effective timeout %v", sc.K, dur, eff)
		}
	case class == "error" && dur > time.Second && sc.Fault != "werr":
		fail(&v, "C06:"+sc.Op+":"+sc.Fault+":slow-error", "loss at byte %d: error %v only after %v", sc.K, err, dur)
	}

	if !v.OK || !fin {
		return v
	}

	// recovery clause (C05): stall after the last return was written, device catches up, next exchange is correct
	// ... and for the privilege-aware driver also a stall after ANY return it wrote (the device acts on that line - a mode
	// change, say - and its answer is what never arrived): nothing half-typed is left behind, so the next command must find
	// its way from wherever the device really is
	afterReturn := false
	if s.nd != nil && sc.Fault == "stall" && class == "timeout" {
		w := s.pipe.Received()
		afterReturn = len(w) > 0 && w[len(w)-1] == '\n'
	}

	if sc.Fault == "stall" && class == "timeout" && op.next != nil && (sc.K >= sc.LastRet || afterReturn) && !op.openIsOp {
		time.Sleep(5 * time.Millisecond)
		s.pipe.SetStall(-1)
		s.pipe.WaitDrained(time.Second)
		time.Sleep(3 * time.Millisecond)

		switch {
		case s.nd != nil:
			s.nd.Channel.TimeoutOps = 2 * time.Second
		case s.gd != nil:
			s.gd.Channel.TimeoutOps = 2 * time.Second
		case s.nc != nil:
			s.nc.Channel.TimeoutOps = 2 * time.Second
		}

		reopened := ""

		if sel%3 == 0 {
			// the usual reaction to a timeout: close, open the same object again. the late answer of the timed-out operation
			// (it arrived before the close) belongs to the old session and must not be taken for anything of the new one
			var cerr, oerr error

			finR, panR := withWatchdog(8*time.Second, func() {
				switch {
				case s.nc != nil:
					cerr = s.nc.Close()
					oerr = s.nc.Open()
				case s.nd != nil:
					cerr = s.nd.Close()
					oerr = s.nd.Open()
				case s.gd != nil:
					cerr = s.gd.Close()
					oerr = s.gd.Open()
				}
			})
			if !finR || panR != nil || oerr != nil {
				fail(&v, "C05:"+sc.Op+":recovery-reopen", "after time-out at byte %d and catch-up, Close (%v) and Open on the same object: fin=%v panic=%v err=%v", sc.K, cerr, finR, panR, oerr)

				return v
			}

			reopened = " in a new session on the same object"
		}

		var nres string

		var nerr error

		fin, pan = withWatchdog(8*time.Second, func() { nres, nerr = op.next(s) })
		if !fin || pan != nil || nerr != nil || nres != op.nextWant {
			fail(&v, "C05:"+sc.Op+":recovery", "after time-out at byte %d and catch-up, the next exchange%s returned %q / %v (fin=%v pan=%v), expected %q", sc.K, reopened, nres, nerr, fin, pan, op.nextWant)
		}

		if v.OK {
			// ... and so does the one after it (nothing of the timed-out operation is left to be tripped over later)
			fin, pan = withWatchdog(8*time.Second, func() { nres, nerr = op.next(s) })
			if !fin || pan != nil || nerr != nil || nres != op.nextWant {
				fail(&v, "C05:"+sc.Op+":recovery-second", "after time-out at byte %d, catch-up and one good exchange, the exchange after it%s returned %q / %v (fin=%v pan=%v), expected %q", sc.K, reopened, nres, nerr, fin, pan, op.nextWant)
			}
		}
	}

	// sticky (C06): every later operation also fails, promptly
	if sc.Fault != "stall" && class == "error" && op.next != nil && !op.openIsOp {
		for i := 0; i < 2 && v.OK; i++ {
			// a persistent read error is re-offered by the read loop after its read delay; an operation started inside
			// that window (< 100 us) can still consume queued stale data. Not asserted here: give the loop time to re-park.
			time.Sleep(2 * time.Millisecond)

			t1 := time.Now()

			var nerr error

			fin, pan = withWatchdog(8*time.Second, func() { _, nerr = op.next(s) })

			switch {
			case !fin:
				fail(&v, "C06:"+sc.Op+":"+sc.Fault+":later-op-hangs", "operation %d after the loss did not return", i+1)
			case pan != nil:
				fail(&v, "C06:"+sc.Op+":"+sc.Fault+":later-op-panics", "operation %d after the loss panicked: %v", i+1, pan)
			case nerr == nil:
				fail(&v, "C06:"+sc.Op+":"+sc.Fault+":later-op-succeeds", "operation %d after the loss reported success", i+1)
			case time.Since(t1) > 2500*time.Millisecond: // the operation's own timeout is 4 s
				fail(&v, "C06:"+sc.Op+":"+sc.Fault+":later-op-slow", "operation %d after the loss needed %v to fail (%v)", i+1, time.Since(t1), nerr)
			}
		}
	}

	// a caller that reconnects on error without closing first (one lost session in three): whatever the second Open and the
	// operation after it report, nothing hangs and nothing panics - in the caller's goroutine or, later, in a library goroutine
	// (the process runs one scenario at a time: its death is attributed to this scenario)
	if sc.Fault != "stall" && class == "error" && !op.openIsOp && v.OK && (sc.K+len(sc.Op))%3 == 0 {
		fin, pan = withWatchdog(12*time.Second, func() {
			switch {
			case s.nd != nil:
				_ = s.nd.Open()
			case s.gd != nil:
				_ = s.gd.Open()
			case s.nc != nil:
				_ = s.nc.Open()
			}

			if op.next != nil {
				_, _ = op.next(s)
			}
		})

		switch {
		case !fin:
			fail(&v, "C06:"+sc.Op+":"+sc.Fault+":open-again-without-close:hangs", "Open (and one operation) on the driver that lost its connection did not return")
		case pan != nil:
			fail(&v, "C06:"+sc.Op+":"+sc.Fault+":open-again-without-close:panics", "Open (and one operation) on the driver that lost its connection panicked: %v", pan)
		default:
			s.close()
			time.Sleep(15 * time.Millisecond)
		}
	}

	return v
}

func faultRun(args []string) error {
	if len(args) > 0 && args[0] == "-child" {
		return childLoop(func(raw json.RawMessage, idx int) interface{} {
			s := &faultScn{}
			if err := json.Unmarshal(raw, s); err != nil {
				return map[string]interface{}{"ok": false, "toolerror": err.Error()}
			}

			return faultOne(s, idx)
		})
	}

	var scns []*faultScn

	if err := readScenarios(func(raw json.RawMessage) error {
		s := &faultScn{}
		if err := json.Unmarshal(raw, s); err != nil {
			return err
		}

		scns = append(scns, s)

		return nil
	}); err != nil {
		return err
	}

	parallel(len(scns), envInt("VERIF_WORKERS", 8), func(i int) { emit(faultOne(scns[i], i)) })

	return nil
}
