package main

import (
	"strings"
	"time"

	"github.com/scrapli/scrapligo/driver/generic"
	"github.com/scrapli/scrapligo/driver/opoptions"
	"github.com/scrapli/scrapligo/driver/options"

	"verifharness/simdev"
)

// C05, callback sends: a callback may carry the timeout for what follows its firing. Two dialogues per segmentation:
//   short: the call allows 3 s, the callback that answers the device's question allows 200 ms for the next step; the device
//          goes silent after the answer -> a timeout error after about 200 ms, not after 3 s;
//   long:  the call allows 150 ms, the callback allows 3 s; the device takes 600 ms to act on the answer -> success.
//   vh c05next

func init() { register("c05next", c05next) }

func c05next(_ []string) error {
	id := 0

	for _, seg := range []string{"rand", "one", "whole"} {
		for _, kind := range []string{"short", "long"} {
			id++
			v := verdict{ID: id, Variant: kind + "/" + seg, OK: true, Nontrivial: true}
			cli := stdCLI("exec")
			pipe := simdev.NewPipe(cli, int64(id))
			pipe.Seg = faultSegs[seg]

			returns := 0
			cli.OnReturn = func(_ *simdev.CLI) {
				returns++

				if returns == 2 {
					// the answer to the device's question has arrived: from here on the device says nothing (short) / nothing
					// for 600 ms (long)
					pipe.StallFromHere()

					if kind == "long" {
						go func() {
							time.Sleep(600 * time.Millisecond)
							pipe.SetStall(-1)
						}()
					}
				}
			}

			d, err := generic.NewDriver("sim", options.WithCustomTransport(pipe), options.WithReadDelay(30*time.Microsecond), options.WithTimeoutOps(5*time.Second))
			if err == nil {
				err = d.Open()
			}

			if err == nil {
				_, err = d.GetPrompt()
			}

			if err != nil {
				v.OK, v.Sig, v.Detail = false, "TOOL", err.Error()
				emit(v)

				continue
			}

			returns = 0
			callT, nextT := 3*time.Second, 200*time.Millisecond

			if kind == "long" {
				callT, nextT = 150*time.Millisecond, 3*time.Second
			}

			cb1, _ := generic.NewCallback(func(dd *generic.Driver, _ string) error { return dd.Channel.WriteAndReturn([]byte("y"), false) },
				opoptions.WithCallbackContains("[confirm]"), opoptions.WithCallbackResetOutput(), opoptions.WithCallbackNextTimeout(nextT))
			cb2, _ := generic.NewCallback(nil, opoptions.WithCallbackContains("done\nr1>"), opoptions.WithCallbackComplete())

			var res string

			var oerr error

			t0 := time.Now()
			fin, pan := withWatchdog(10*time.Second, func() {
				r, e := d.SendWithCallbacks("clear q", []*generic.Callback{cb1, cb2}, callT)
				oerr = e

				if r != nil {
					res = r.Result
				}
			})
			dur := time.Since(t0)

			switch {
			case !fin || pan != nil:
				fail(&v, "C05:g.sendwithcallbacks:next-timeout:hang-or-panic", "%s: returned=%v panic=%v", kind, fin, pan)
			case kind == "short" && errClass(oerr) != "timeout":
				fail(&v, "C05:g.sendwithcallbacks:next-timeout:outcome", "the device went silent after the callback's answer: %v / %q, expected a timeout error", oerr, res)
			case kind == "short" && dur > nextT+tSlack:
				fail(&v, "C05:g.sendwithcallbacks:next-timeout:late", "the callback allows %v for the step after it (the call as a whole %v): the timeout came after %v", nextT, callT, dur)
			case kind == "short" && dur < nextT*7/10:
				fail(&v, "C05:g.sendwithcallbacks:next-timeout:early", "the callback allows %v for the step after it: the timeout came after %v", nextT, dur)
			case kind == "long" && (oerr != nil || !strings.Contains(res, "done")):
				fail(&v, "C05:g.sendwithcallbacks:next-timeout:spurious-error", "the callback allows %v for the step after it (the call as a whole %v), the device answered after 600 ms: %v / %q", nextT, callT, oerr, res)
			}

			pipe.SetStall(-1)
			_, _ = withWatchdog(3*time.Second, func() { _ = d.Close() })

			emit(v)
		}
	}

	return nil
}
