package main

import (
	"fmt"
	"io"
	"regexp"
	"strings"
	"time"

	"github.com/scrapli/scrapligo/channel"
	"github.com/scrapli/scrapligo/driver/generic"
	"github.com/scrapli/scrapligo/driver/netconf"
	"github.com/scrapli/scrapligo/driver/network"
	"github.com/scrapli/scrapligo/driver/opoptions"
	"github.com/scrapli/scrapligo/driver/options"
	"github.com/scrapli/scrapligo/platform"
	"github.com/scrapli/scrapligo/transport"
	"github.com/scrapli/scrapligo/util"

	"verifharness/simdev"
)

// The standard operations used by the fault-enumeration checks (C05 stall, C06 loss) and by C07:
// one table of real operations, each with its scripted device, so that every property sees the
// same set of blocking operations.

const stdSecret = "s3cret"

func stdLevels() map[string]*network.PrivilegeLevel {
	return map[string]*network.PrivilegeLevel{
		"exec":           {Name: "exec", Pattern: `(?im)^[a-z0-9]{1,20}>\s?$`},
		"privilege-exec": {Name: "privilege-exec", Pattern: `(?im)^[a-z0-9]{1,20}#\s?$`, PreviousPriv: "exec", Escalate: "enable", Deescalate: "disable", EscalateAuth: true, EscalatePrompt: `(?im)^password:\s?$`},
		"configuration":  {Name: "configuration", Pattern: `(?im)^[a-z0-9]{1,20}\(config\)#\s?$`, PreviousPriv: "privilege-exec", Escalate: "configure terminal", Deescalate: "end"},
	}
}

func stdCLI(mode string) *simdev.CLI {
	return &simdev.CLI{
		Prompts: map[string]string{"exec": "r1> ", "privilege-exec": "r1# ", "configuration": "r1(config)# "},
		Mode:    mode, Banner: "Welcome to r1\r\n\r\n",
		Handler: func(c *simdev.CLI, line string) string {
			switch {
			case line == "enable" && c.Mode == "exec":
				c.Pending = &simdev.Ask{Prompt: "Password: ", OnAnswer: func(c *simdev.CLI, a string) string {
					if a == stdSecret {
						c.Mode = "privilege-exec"

						return ""
					}

					return "% Access denied"
				}}

				return ""
			case line == "disable" && c.Mode == "privilege-exec":
				c.Mode = "exec"

				return ""
			case line == "configure terminal" && c.Mode == "privilege-exec":
				c.Mode = "configuration"

				return ""
			case line == "end" && c.Mode == "configuration":
				c.Mode = "privilege-exec"

				return ""
			case strings.HasPrefix(line, "show ") && c.Mode == "configuration":
				// like the real thing: no show commands in configuration mode
				return "% Invalid input detected at '^' marker."
			case line == "show v7":
				return "Version 9\r\nuptime 5"
			case line == "show z8":
				return "zeta 8"
			case line == "show w5":
				return "omega"
			case line == "show h6":
				// context help: lines whose TAIL looks like a prompt ("cr>") although no line of it is one
				return "  level  priv level\r\n  <cr>\r\n  | Output modifier\r\n  rate  set a<cr>\r\nend of help"
			case line == "clear q":
				c.Pending = &simdev.Ask{Prompt: "Proceed? [confirm]", Echo: true, OnAnswer: func(_ *simdev.CLI, _ string) string { return "done" }}

				return ""
			case (line == "hostname k3" || line == "interface x4") && c.Mode == "configuration":
				return ""
			}

			return "% Invalid input"
		},
	}
}

type sess struct {
	pipe  *simdev.Pipe
	cli   *simdev.CLI
	login *simdev.Login
	srv   *simdev.NCServer
	gd    *generic.Driver
	nd    *network.Driver
	nc    *netconf.Driver
}

func (s *sess) close() {
	_, _ = withWatchdog(5*time.Second, func() {
		switch {
		case s.nd != nil:
			_ = s.nd.Close()
		case s.gd != nil:
			_ = s.gd.Close()
		case s.nc != nil:
			_ = s.nc.Close()
		}
	})
}

type sessCfg struct {
	connTimeout time.Duration
	readDelay   time.Duration
	seg         simdev.Seg
	seed        int64
	devDelay    time.Duration
	closeBeh    string
	poll        bool
	extra       []util.Option
}

func (c sessCfg) base(p transport.Implementation) []util.Option {
	rd := c.readDelay
	if rd == 0 {
		rd = 50 * time.Microsecond
	}

	o := []util.Option{options.WithCustomTransport(p), options.WithReadDelay(rd), options.WithTimeoutOps(c.connTimeout)}

	return append(o, c.extra...)
}

func (c sessCfg) pipe(r simdev.Reactor) *simdev.Pipe {
	p := simdev.NewPipe(r, c.seed)
	p.Seg = c.seg
	p.ReadDelay = c.devDelay

	if c.closeBeh != "" {
		p.CloseBehaviour = c.closeBeh
	}

	p.Poll = c.poll

	return p
}

// faultOp is one real blocking operation with its device.
type faultOp struct {
	name      string
	perOp     bool // accepts opoptions.WithTimeoutOps
	allowPriv bool // an implicit privilege change may report the privilege class instead of timeout
	openIsOp  bool // the operation under test is Open itself (faults are armed before it)
	// perOpFrom: index of the first exchange that the per-operation timeout governs (the implicit privilege change
	// in front of a network-driver operation runs under the connection-wide timeout by design)
	perOpFrom int
	// build creates the session (not opened when openIsOp) ; prep brings it to the starting state
	build func(c sessCfg) (*sess, error)
	prep  func(s *sess) error
	run   func(s *sess, opts []util.Option, t time.Duration) (string, error)
	// next is the follow-up operation of the recovery clause; nextWant its correct result
	next     func(s *sess) (string, error)
	nextWant string
}

func buildGeneric(mode string) func(c sessCfg) (*sess, error) {
	return func(c sessCfg) (*sess, error) {
		s := &sess{cli: stdCLI(mode)}
		s.pipe = c.pipe(s.cli)

		var err error

		s.gd, err = generic.NewDriver("sim", c.base(s.pipe)...)
		if err != nil {
			return nil, err
		}

		return s, s.gd.Open()
	}
}

func buildNetwork(mode string) func(c sessCfg) (*sess, error) {
	return func(c sessCfg) (*sess, error) {
		s := &sess{cli: stdCLI(mode)}
		s.pipe = c.pipe(s.cli)
		o := append(c.base(s.pipe), options.WithPrivilegeLevels(stdLevels()), options.WithDefaultDesiredPriv("privilege-exec"),
			options.WithAuthSecondary(stdSecret))

		var err error

		s.nd, err = network.NewDriver("sim", o...)
		if err != nil {
			return nil, err
		}

		return s, s.nd.Open()
	}
}

// buildNetworkOnOpen: not opened; the on-open hook acquires the default privilege level.
func buildNetworkOnOpen(c sessCfg) (*sess, error) {
	s := &sess{cli: stdCLI("exec")}
	s.pipe = c.pipe(s.cli)
	o := append(c.base(s.pipe), options.WithPrivilegeLevels(stdLevels()), options.WithDefaultDesiredPriv("privilege-exec"),
		options.WithAuthSecondary(stdSecret), options.WithNetworkOnOpen(func(d *network.Driver) error { return d.AcquirePriv("privilege-exec") }))

	var err error

	s.nd, err = network.NewDriver("sim", o...)

	return s, err
}

// stdPlatformYAML: a platform definition with the standard levels and the given on-open / on-close steps (YAML fragments).
func stdPlatformYAML(desired, onOpen, onClose string) []byte {
	var y strings.Builder

	y.WriteString("---\nplatform-type: 'verifplat'\ndefault:\n  driver-type: 'network'\n  privilege-levels:\n")

	for _, name := range []string{"exec", "privilege-exec", "configuration"} {
		l := stdLevels()[name]
		fmt.Fprintf(&y, "    %s:\n      name: '%s'\n      pattern: '%s'\n      previous-priv: '%s'\n      deescalate: '%s'\n      escalate: '%s'\n      escalate-auth: %v\n      escalate-prompt: '%s'\n",
			name, name, l.Pattern, l.PreviousPriv, l.Deescalate, l.Escalate, l.EscalateAuth, l.EscalatePrompt)
	}

	fmt.Fprintf(&y, "  default-desired-privilege-level: '%s'\n", desired)

	if onOpen != "" {
		y.WriteString("  network-on-open:\n" + onOpen)
	}

	if onClose != "" {
		y.WriteString("  network-on-close:\n" + onClose)
	}

	return []byte(y.String())
}

// buildPlatformOnOpen: not opened; a driver built from a platform definition whose on-open steps are what the shipped
// definitions do: acquire the default level, then send preparation commands through the driver.
func buildPlatformOnOpen(c sessCfg) (*sess, error) {
	s := &sess{cli: stdCLI("exec")}
	s.pipe = c.pipe(s.cli)
	y := stdPlatformYAML("privilege-exec",
		"    - operation: 'acquire-priv'\n    - operation: 'driver.send-command'\n      command: 'show z8'\n    - operation: 'driver.send-command'\n      command: 'show v7'\n", "")

	p, err := platform.NewPlatform(y, "sim", append(c.base(s.pipe), options.WithAuthSecondary(stdSecret))...)
	if err != nil {
		return nil, err
	}

	s.nd, err = p.GetNetworkDriver()

	return s, err
}

// buildGenericChanLog: a generic session with a channel log configured.
// buildGenericDepth: a prompt search depth just above the longest line the device prints (24 bytes)
func buildGenericDepth(c sessCfg) (*sess, error) {
	c.extra = append(c.extra, options.WithPromptSearchDepth(24))

	return buildGeneric("exec")(c)
}

func buildGenericChanLog(c sessCfg) (*sess, error) {
	c.extra = append(c.extra, options.WithChannelLog(io.Discard))

	return buildGeneric("exec")(c)
}

func buildLogin(kind string) func(c sessCfg) (*sess, error) {
	return func(c sessCfg) (*sess, error) {
		s := &sess{cli: stdCLI("exec")}
		if kind == "telnet" {
			s.login = &simdev.Login{Inner: s.cli, EchoUser: true, Steps: []simdev.LoginStep{
				{Kind: "banner", Text: "\r\nUser Access Verification\r\n\r\n"}, {Kind: "askuser", Text: "Username: "},
				{Kind: "askpass", Text: "Password: "}, {Kind: "shell"},
			}}
		} else {
			s.login = &simdev.Login{Inner: s.cli, Steps: []simdev.LoginStep{
				{Kind: "banner", Text: "Warning: Permanently added 'r1' (ED25519) to the list of known hosts.\r\n"},
				{Kind: "askpassphrase", Text: "Enter passphrase for key '/k/id': "}, {Kind: "askpass", Text: "admin@r1's password: "}, {Kind: "shell"},
			}}
		}

		s.pipe = c.pipe(s.login)
		ap := &simdev.AuthPipe{Pipe: s.pipe, SSH: &transport.SSHArgs{PrivateKeyPassPhrase: "kp4ss"}}
		ap.AuthType = transport.InChannelAuthSSH

		if kind == "telnet" {
			ap.AuthType = transport.InChannelAuthTelnet
		}

		o := append(c.base(ap), options.WithAuthUsername("admin"), options.WithAuthPassword("pw0rd"))

		var err error

		s.gd, err = generic.NewDriver("sim", o...)

		return s, err
	}
}

func ncReplyOK(s *simdev.NCServer, r simdev.NCRequest) []byte {
	// <c>: which connection of this server the request came in on (a reply of an earlier session can be told from one of this session)
	pay := fmt.Sprintf(`<rpc-reply xmlns="urn:ietf:params:xml:ns:netconf:base:1.0" message-id="%d"><data><v>%d</v><c>%d</c></data></rpc-reply>`, r.MsgID, r.MsgID, s.Hellos())
	if s.Version == "1.1" {
		return simdev.Frame11([]byte(pay), []int{40, 7})
	}

	return simdev.Frame10([]byte(pay))
}

func buildNetconf(version string, open bool) func(c sessCfg) (*sess, error) {
	return func(c sessCfg) (*sess, error) {
		s := &sess{}
		s.srv = &simdev.NCServer{
			Hello:      simdev.HelloXML([]string{cap10, cap11, "urn:example:x?module=x"}, "7", "", true, false),
			Advertises: map[string]bool{"1.0": true, "1.1": true}, Reply: ncReplyOK,
		}
		s.pipe = c.pipe(s.srv)
		s.pipe.MsgBounds = true
		o := append(c.base(s.pipe), options.WithNetconfPreferredVersion(version))

		var err error

		s.nc, err = netconf.NewDriver("sim", o...)
		if err != nil || !open {
			return s, err
		}

		return s, s.nc.Open()
	}
}

func showW5(s *sess) (string, error) {
	if s.nd != nil {
		r, err := s.nd.SendCommand("show w5")
		if err != nil {
			return "", err
		}

		return r.Result, nil
	}

	r, err := s.gd.SendCommand("show w5")
	if err != nil {
		return "", err
	}

	return r.Result, nil
}

func ncNextGet(s *sess) (string, error) {
	r, err := s.nc.Get("")
	if err != nil {
		return "", err
	}

	if r.Failed != nil {
		return "", r.Failed
	}

	m := regexp.MustCompile(`<v>(\d+)</v>`).FindStringSubmatch(r.Result)
	in := regexp.MustCompile(`message-id="(\d+)"`).FindStringSubmatch(string(r.Input))

	if m == nil || in == nil || m[1] != in[1] {
		return "", fmt.Errorf("reply does not belong to the request: input %q result %q", r.Input, r.Result)
	}

	s.pipe.Lock()
	conn := s.srv.Hellos()
	s.pipe.Unlock()

	if !strings.Contains(r.Result, fmt.Sprintf("<c>%d</c>", conn)) {
		return "", fmt.Errorf("the reply was not produced in this session (connection %d of the server): result %q", conn, r.Result)
	}

	return "own-reply", nil
}

func faultOps() []*faultOp {
	interactive := []*channel.SendInteractiveEvent{
		{ChannelInput: "clear q", ChannelResponse: `\[confirm\]`, HideInput: false},
		{ChannelInput: "y", ChannelResponse: "", HideInput: false},
	}

	return []*faultOp{
		{name: "g.getprompt", build: buildGeneric("exec"),
			// consume the login banner and first prompt, otherwise the stale prompt satisfies GetPrompt by itself
			prep: func(s *sess) error { _, err := s.gd.SendCommand("show z8"); return err },
			run:  func(s *sess, _ []util.Option, _ time.Duration) (string, error) { return s.gd.GetPrompt() }, next: showW5, nextWant: "omega"},
		{name: "g.getprompt.stale", build: buildGeneric("exec"),
			// an earlier GetPrompt leaves the device's fresh prompt unconsumed in the queue
			prep: func(s *sess) error { _, err := s.gd.GetPrompt(); return err },
			run:  func(s *sess, _ []util.Option, _ time.Duration) (string, error) { return s.gd.GetPrompt() }, next: func(s *sess) (string, error) { return s.gd.GetPrompt() }, nextWant: "r1>"},
		{name: "g.sendcommand", perOp: true, build: buildGeneric("exec"),
			run: func(s *sess, o []util.Option, _ time.Duration) (string, error) {
				r, err := s.gd.SendCommand("show v7", o...)
				if err != nil {
					return "", err
				}

				return r.Result, nil
			}, next: showW5, nextWant: "omega"},
		{name: "g.sendcommand.exact", perOp: true, build: buildGeneric("exec"),
			run: func(s *sess, o []util.Option, _ time.Duration) (string, error) {
				r, err := s.gd.SendCommand("show v7", append(o, opoptions.WithExactMatchInput())...)
				if err != nil {
					return "", err
				}

				return r.Result, nil
			}, next: showW5, nextWant: "omega"},
		{name: "g.sendcommand.interim", perOp: true, build: buildGeneric("exec"),
			// with interim prompt patterns the output is awaited through ReadUntilAnyPrompt (a separate branch of SendInputB)
			run: func(s *sess, o []util.Option, _ time.Duration) (string, error) {
				r, err := s.gd.SendCommand("show v7", append(o, opoptions.WithInterimPromptPattern([]*regexp.Regexp{regexp.MustCompile(`(?m)^\(interim-\d+\)$`)}))...)
				if err != nil {
					return "", err
				}

				return r.Result, nil
			}, next: showW5, nextWant: "omega"},
		{name: "g.sendcommands", perOp: true, build: buildGeneric("exec"),
			run: func(s *sess, o []util.Option, _ time.Duration) (string, error) {
				r, err := s.gd.SendCommands([]string{"show v7", "show z8"}, o...)
				if err != nil {
					return "", err
				}

				return r.JoinedResult(), nil
			}, next: showW5, nextWant: "omega"},
		{name: "g.sendinteractive", perOp: true, build: buildGeneric("exec"),
			run: func(s *sess, o []util.Option, _ time.Duration) (string, error) {
				r, err := s.gd.SendInteractive(interactive, o...)
				if err != nil {
					return "", err
				}

				return r.Result, nil
			}, next: showW5, nextWant: "omega"},
		{name: "g.sendwithcallbacks", build: buildGeneric("exec"),
			run: func(s *sess, _ []util.Option, t time.Duration) (string, error) {
				cb1, _ := generic.NewCallback(func(d *generic.Driver, _ string) error { return d.Channel.WriteAndReturn([]byte("y"), false) },
					opoptions.WithCallbackContains("[confirm]"), opoptions.WithCallbackResetOutput())
				cb2, _ := generic.NewCallback(nil, opoptions.WithCallbackContains("done\nr1>"), opoptions.WithCallbackComplete())

				r, err := s.gd.SendWithCallbacks("clear q", []*generic.Callback{cb1, cb2}, t)
				if err != nil {
					return "", err
				}

				return r.Result, nil
			}, next: showW5, nextWant: "omega"},
		{name: "n.sendcommand.cold", perOp: true, allowPriv: true, perOpFrom: 3, build: buildNetwork("exec"),
			run: func(s *sess, o []util.Option, _ time.Duration) (string, error) {
				r, err := s.nd.SendCommand("show v7", o...)
				if err != nil {
					return "", err
				}

				return r.Result, nil
			}, next: showW5, nextWant: "omega"},
		{name: "n.acquirepriv", build: buildNetwork("exec"),
			run: func(s *sess, _ []util.Option, _ time.Duration) (string, error) {
				return "", s.nd.AcquirePriv("configuration")
			}, next: showW5, nextWant: "omega"},
		{name: "n.sendconfigs", perOp: true, perOpFrom: 2, build: buildNetwork("privilege-exec"),
			prep: func(s *sess) error { return s.nd.AcquirePriv("privilege-exec") },
			run: func(s *sess, o []util.Option, _ time.Duration) (string, error) {
				r, err := s.nd.SendConfigs([]string{"hostname k3", "interface x4"}, o...)
				if err != nil {
					return "", err
				}

				return r.JoinedResult(), nil
			}, next: showW5, nextWant: "omega"},
		{name: "n.open.onopen", openIsOp: true, build: buildNetworkOnOpen,
			// Open of a network driver whose on-open hook escalates (what every platform definition does): a loss during the hook
			// must make Open fail
			run: func(s *sess, _ []util.Option, _ time.Duration) (string, error) { return "", s.nd.Open() }},
		{name: "p.open.onopen", openIsOp: true, build: buildPlatformOnOpen,
			// the same through a platform definition (acquire-priv, then two commands through the driver)
			run: func(s *sess, _ []util.Option, _ time.Duration) (string, error) { return "", s.nd.Open() }},
		{name: "g.sendcommand.helpout", perOp: true, build: buildGenericDepth,
			// with a small search depth the window the prompt is looked for in starts in the middle of the output: only a
			// window that begins at a line start keeps "  <cr>" from being taken for the prompt "cr>"
			run: func(s *sess, o []util.Option, _ time.Duration) (string, error) {
				r, err := s.gd.SendCommand("show h6", o...)
				if err != nil {
					return "", err
				}

				return r.Result, nil
			}, next: showW5, nextWant: "omega"},
		{name: "g.sendcommand.chanlog", perOp: true, build: buildGenericChanLog,
			run: func(s *sess, o []util.Option, _ time.Duration) (string, error) {
				r, err := s.gd.SendCommand("show v7", o...)
				if err != nil {
					return "", err
				}

				return r.Result, nil
			}, next: showW5, nextWant: "omega"},
		{name: "telnet.open", openIsOp: true, build: buildLogin("telnet"),
			run: func(s *sess, _ []util.Option, _ time.Duration) (string, error) { return "", s.gd.Open() }, next: showW5, nextWant: "omega"},
		{name: "ssh.open", openIsOp: true, build: buildLogin("ssh"),
			run: func(s *sess, _ []util.Option, _ time.Duration) (string, error) { return "", s.gd.Open() }, next: showW5, nextWant: "omega"},
		{name: "nc.open", openIsOp: true, build: buildNetconf("1.1", false),
			run: func(s *sess, _ []util.Option, _ time.Duration) (string, error) { return "", s.nc.Open() }, next: ncNextGet, nextWant: "own-reply"},
		{name: "nc.get.10", perOp: true, build: buildNetconf("1.0", true),
			run: func(s *sess, o []util.Option, _ time.Duration) (string, error) {
				r, err := s.nc.Get("", o...)
				if err != nil {
					return "", err
				}

				return r.Result, nil
			}, next: ncNextGet, nextWant: "own-reply"},
		{name: "nc.get.11", perOp: true, build: buildNetconf("1.1", true),
			run: func(s *sess, o []util.Option, _ time.Duration) (string, error) {
				r, err := s.nc.Get("", o...)
				if err != nil {
					return "", err
				}

				return r.Result, nil
			}, next: ncNextGet, nextWant: "own-reply"},
		{name: "nc.editconfig.11", build: buildNetconf("1.1", true),
			run: func(s *sess, _ []util.Option, _ time.Duration) (string, error) {
				r, err := s.nc.EditConfig("candidate", "<config><a>1</a></config>")
				if err != nil {
					return "", err
				}

				return r.Result, nil
			}, next: ncNextGet, nextWant: "own-reply"},
		{name: "nc.lock.10", build: buildNetconf("1.0", true),
			run: func(s *sess, _ []util.Option, _ time.Duration) (string, error) {
				r, err := s.nc.Lock("candidate")
				if err != nil {
					return "", err
				}

				return r.Result, nil
			}, next: ncNextGet, nextWant: "own-reply"},
		{name: "nc.unlock.10", build: buildNetconf("1.0", true),
			run: func(s *sess, _ []util.Option, _ time.Duration) (string, error) {
				r, err := s.nc.Unlock("candidate")
				if err != nil {
					return "", err
				}

				return r.Result, nil
			}, next: ncNextGet, nextWant: "own-reply"},
		{name: "nc.validate.11", build: buildNetconf("1.1", true),
			run: func(s *sess, _ []util.Option, _ time.Duration) (string, error) {
				r, err := s.nc.Validate("candidate")
				if err != nil {
					return "", err
				}

				return r.Result, nil
			}, next: ncNextGet, nextWant: "own-reply"},
		{name: "nc.discard.10", build: buildNetconf("1.0", true),
			run: func(s *sess, _ []util.Option, _ time.Duration) (string, error) {
				r, err := s.nc.Discard()
				if err != nil {
					return "", err
				}

				return r.Result, nil
			}, next: ncNextGet, nextWant: "own-reply"},
		{name: "nc.copyconfig.11", build: buildNetconf("1.1", true),
			run: func(s *sess, _ []util.Option, _ time.Duration) (string, error) {
				r, err := s.nc.CopyConfig("running", "startup")
				if err != nil {
					return "", err
				}

				return r.Result, nil
			}, next: ncNextGet, nextWant: "own-reply"},
		{name: "nc.deleteconfig.10", build: buildNetconf("1.0", true),
			run: func(s *sess, _ []util.Option, _ time.Duration) (string, error) {
				r, err := s.nc.DeleteConfig("startup")
				if err != nil {
					return "", err
				}

				return r.Result, nil
			}, next: ncNextGet, nextWant: "own-reply"},
		{name: "nc.getconfig.11", build: buildNetconf("1.1", true),
			run: func(s *sess, _ []util.Option, _ time.Duration) (string, error) {
				r, err := s.nc.GetConfig("running")
				if err != nil {
					return "", err
				}

				return r.Result, nil
			}, next: ncNextGet, nextWant: "own-reply"},
		{name: "nc.commit.11", build: buildNetconf("1.1", true),
			run: func(s *sess, _ []util.Option, _ time.Duration) (string, error) {
				r, err := s.nc.Commit()
				if err != nil {
					return "", err
				}

				return r.Result, nil
			}, next: ncNextGet, nextWant: "own-reply"},
	}
}

func findOp(name string) *faultOp {
	for _, o := range faultOps() {
		if o.name == name {
			return o
		}
	}

	return nil
}

// exchange as Stall.tla wants it.
type exchange struct {
	InLen   int  `json:"inlen"`
	EchoLen int  `json:"echolen"`
	Echo    bool `json:"echo"`
	RespLen int  `json:"resplen"`
	Need    int  `json:"need"`
}

type opExport struct {
	Name      string     `json:"name"`
	Pre       int        `json:"pre"`
	PreNeed   int        `json:"preneed"`
	Exchanges []exchange `json:"exchanges"`
	Total     int        `json:"total"`
	Result    string     `json:"result"`
	PerOp     bool       `json:"perop"`
	PerOpFrom int        `json:"peropfrom"` // stream offset from which the per-operation timeout applies
}

func trailingWS(b []byte) int {
	n := 0
	for n < len(b) && strings.ContainsRune(" \r\n", rune(b[len(b)-1-n])) {
		n++
	}

	return n
}

// buildGenericUnopened returns the default prompt pattern of a freshly constructed channel.
func buildGenericUnopened() (*regexp.Regexp, error) {
	d, err := generic.NewDriver("sim", options.WithCustomTransport(simdev.NewPipe(nil, 1)))
	if err != nil {
		return nil, err
	}

	return d.Channel.PromptPattern, nil
}
