module verifharness

go 1.20

require (
	github.com/scrapli/scrapligo v0.0.0
	golang.org/x/crypto v0.26.0
	gopkg.in/yaml.v3 v3.0.1
)

require (
	github.com/creack/pty v1.1.23 // indirect
	github.com/sirikothe/gotextfsm v1.0.1-0.20200816110946-6aa2cfd355e4 // indirect
)

replace github.com/scrapli/scrapligo => /repo
