package main

import (
	"encoding/json"
	"flag"
	"fmt"
	"math/rand"
	"os"
	"reflect"
	"runtime"
	"sync"
	"time"

	"github.com/scrapli/scrapligo/util"
)

// C20: util.Queue against QueueSeq.tla (sequential histories, direction G) and QueueTrace.tla
// (concurrent histories, direction V).

func init() {
	register("c20seq", c20seq)
	register("c20stress", c20stress)
}

type qop struct {
	Op  string `json:"op"`
	Arg int    `json:"arg"`
	Res []int  `json:"res"`
}

func chunkOf(id int) []byte { return []byte(fmt.Sprintf("%04d", id)) }

func idsOf(b []byte) []int {
	r := []int{}

	for i := 0; i+4 <= len(b); i += 4 {
		var v int

		fmt.Sscanf(string(b[i:i+4]), "%04d", &v)
		r = append(r, v)
	}

	if len(b)%4 != 0 {
		r = append(r, -1)
	}

	return r
}

func applyQ(q *util.Queue, o qop) (res []int, pan interface{}) {
	defer func() { pan = recover() }()

	switch o.Op {
	case "enq":
		q.Enqueue(chunkOf(o.Arg))

		return []int{}, nil
	case "req":
		q.Requeue(chunkOf(o.Arg))

		return []int{}, nil
	case "deq":
		return idsOf(q.Dequeue()), nil
	case "all":
		return idsOf(q.DequeueAll()), nil
	case "depth":
		return []int{q.GetDepth()}, nil
	}

	return nil, "bad op"
}

func c20seq(_ []string) error {
	n := 0

	return readScenarios(func(raw json.RawMessage) error {
		var s struct {
			Ops []qop `json:"ops"`
		}

		if err := json.Unmarshal(raw, &s); err != nil {
			return err
		}

		n++
		q := util.NewQueue()
		ok, detail, sig := true, "", ""
		nontriv := false

		for i, o := range s.Ops {
			done := make(chan struct{})

			var got []int

			var pan interface{}

			go func() { got, pan = applyQ(q, o); close(done) }()

			select {
			case <-done:
			case <-time.After(2 * time.Second):
				ok, sig, detail = false, "C20:seq:blocks:"+o.Op, fmt.Sprintf("op %d (%s) blocked", i, o.Op)
			}

			if !ok {
				break
			}

			if pan != nil {
				ok, sig, detail = false, "C20:seq:panic:"+o.Op, fmt.Sprintf("op %d (%s) panicked: %v", i, o.Op, pan)

				break
			}

			want := o.Res
			if want == nil {
				want = []int{}
			}

			if !reflect.DeepEqual(got, want) {
				ok, sig = false, "C20:seq:result:"+o.Op
				detail = fmt.Sprintf("op %d (%s): got %v want %v", i, o.Op, got, want)

				break
			}

			if (o.Op == "deq" || o.Op == "all") && len(want) > 0 {
				nontriv = true
			}
		}

		emit(map[string]interface{}{"id": n, "ok": ok, "sig": sig, "detail": detail, "nontrivial": nontriv})

		return nil
	})
}

type qev struct {
	Ev  string `json:"ev"`
	G   string `json:"g,omitempty"`
	Op  string `json:"op,omitempty"`
	Arg int    `json:"arg"`
	Res []int  `json:"res"`
}

// c20stress -hist N -ops M -out trace.ndjson : two goroutines on one util.Queue; global log of
// invocation / response events (appended under one mutex: log order = real-time order).
func c20stress(args []string) error {
	fs := flag.NewFlagSet("c20stress", flag.ContinueOnError)
	nh := fs.Int("hist", 20, "histories")
	nops := fs.Int("ops", 200, "consumer ops per history")
	out := fs.String("out", "trace.ndjson", "trace file")

	if err := fs.Parse(args); err != nil {
		return err
	}

	f, err := os.Create(*out)
	if err != nil {
		return err
	}

	defer f.Close()

	enc := json.NewEncoder(f)
	rng := rand.New(rand.NewSource(seed()))
	procs := []int{1, 2, 4, 16}

	for h := 0; h < *nh; h++ {
		runtime.GOMAXPROCS(procs[h%len(procs)])

		var mu sync.Mutex

		var evs []qev

		logEv := func(e qev) {
			mu.Lock()
			evs = append(evs, e)
			mu.Unlock()
		}

		q := util.NewQueue()
		nprod := *nops / 2
		ps, cs := rng.Int63(), rng.Int63()

		var wg sync.WaitGroup

		var panics []string

		run := func(g string, body func(r *rand.Rand)) {
			wg.Add(1)

			go func() {
				defer wg.Done()
				defer func() {
					if p := recover(); p != nil {
						mu.Lock()
						panics = append(panics, fmt.Sprintf("%s: %v", g, p))
						mu.Unlock()
					}
				}()

				seedv := ps
				if g == "c" {
					seedv = cs
				}

				body(rand.New(rand.NewSource(seedv)))
			}()
		}

		call := func(g string, o qop) []int {
			logEv(qev{Ev: "inv", G: g, Op: o.Op, Arg: o.Arg, Res: []int{}})

			res, pan := applyQ(q, o)
			if pan != nil {
				panic(pan)
			}

			logEv(qev{Ev: "res", G: g, Res: res})

			return res
		}

		// every third history is "tight": no pauses, the consumer mostly drains (DequeueAll / Dequeue) so that the windows
		// inside the drain operations meet the producer often; every history ends with a final drain by the consumer
		tight := h%3 == 2

		pause := func(r *rand.Rand) {
			if tight {
				return
			}

			switch r.Intn(6) {
			case 0:
				runtime.Gosched()
			case 1:
				time.Sleep(time.Duration(r.Intn(20)) * time.Microsecond)
			case 2:
				for i := 0; i < r.Intn(200); i++ {
					_ = i
				}
			}
		}

		run("p", func(r *rand.Rand) {
			for i := 1; i <= nprod; i++ {
				call("p", qop{Op: "enq", Arg: i})
				pause(r)
			}
		})
		run("c", func(r *rand.Rand) {
			fresh := 5000

			for i := 0; i < *nops; i++ {
				x := r.Intn(10)
				if tight && x >= 4 {
					x = 5 + x%2*3 // all | depth
				}

				switch {
				case x < 5:
					call("c", qop{Op: "deq"})
				case x < 7:
					call("c", qop{Op: "all"})
				case x < 8:
					fresh++
					call("c", qop{Op: "req", Arg: fresh})
				default:
					call("c", qop{Op: "depth"})
				}

				pause(r)
			}
		})

		done := make(chan struct{})

		go func() { wg.Wait(); close(done) }()

		select {
		case <-done:
		case <-time.After(20 * time.Second):
			emit(map[string]interface{}{"id": h, "ok": false, "sig": "C20:stress:deadlock",
				"detail": "producer/consumer did not finish within 20 s"})

			return nil
		}

		if len(panics) > 0 {
			emit(map[string]interface{}{"id": h, "ok": false, "sig": "C20:stress:panic", "detail": panics[0]})

			continue
		}

		// final drain by the consumer, after the producer has finished: whatever was enqueued and not handed out must come now
		func() {
			defer func() {
				if p := recover(); p != nil {
					panics = append(panics, fmt.Sprintf("final drain: %v", p))
				}
			}()

			call("c", qop{Op: "depth"})
			call("c", qop{Op: "all"})
			call("c", qop{Op: "depth"})
		}()

		if len(panics) > 0 {
			emit(map[string]interface{}{"id": h, "ok": false, "sig": "C20:stress:panic", "detail": panics[0]})

			continue
		}

		if err := enc.Encode(qev{Ev: "reset", Res: []int{}}); err != nil {
			return err
		}

		for _, e := range evs {
			if e.Res == nil {
				e.Res = []int{}
			}

			if err := enc.Encode(e); err != nil {
				return err
			}
		}

		emit(map[string]interface{}{"id": h, "ok": true, "events": len(evs) + 1, "gomaxprocs": procs[h%len(procs)]})
	}

	return nil
}
