package main

import (
	"encoding/json"
	"fmt"
	"regexp"
	"strings"
	"time"

	"github.com/scrapli/scrapligo/driver/opoptions"
	"github.com/scrapli/scrapligo/response"

	"verifharness/simdev"
)

// C08: scenarios of NcSession.tla (reply policy per request, echo) x version x segmentation.

func init() { register("c08", c08) }

type c08Scn struct {
	N       int      `json:"n"`
	Echo    bool     `json:"echo"`
	Policy  []string `json:"policy"`
	Outcome []string `json:"outcome"`
	IDs     []int    `json:"ids"`
	Version string   `json:"version,omitempty"`
	Seg     string   `json:"seg,omitempty"`
	Idx     *int     `json:"idx,omitempty"` // replay: the position the scenario had in its batch (selects the variant exercised)
	idx     int
}

var vRe = regexp.MustCompile(`<v>(\d+)</v>`)

func c08Run(s *c08Scn, version, segName string) verdict {
	v := verdict{ID: s.idx, Variant: version + "/" + segName, OK: true}

	for _, p := range s.Policy {
		if p != "now" {
			v.Nontrivial = true
		}
	}

	var held []byte

	// epilogue "two calls in flight": the replies are kept back until both requests are in, then released in either order
	holdAll := false

	var heldAll [][]byte

	var sess *ncSession

	reqNo := 0
	frame := func(id, k int) []byte {
		pay := fmt.Sprintf(`<rpc-reply xmlns="urn:ietf:params:xml:ns:netconf:base:1.0" message-id="%d"><data><v>%d</v><k>%d</k></data></rpc-reply>`, id, id, k)
		if k%3 == 2 {
			// a reply that mentions a subscription (establish-subscription, subscription state): it is still the reply to its request
			pay = strings.Replace(pay, "</data>", "<subscription-id>7</subscription-id></data>", 1)
		}
		if version == "1.1" {
			return simdev.Frame11([]byte(pay), []int{30, 50})
		}

		return simdev.Frame10([]byte(pay))
	}

	var err error

	// a slow read loop (whole-stream reads) lets the next server message arrive between two of its iterations
	rd := 30 * time.Microsecond
	if segName == "whole" {
		rd = 2 * time.Millisecond
	}

	sess, err = newNcSession(ncConfig{adv10: true, adv11: true, preferred: version, echo: s.Echo, seg: faultSegs[segName], seed: int64(s.idx), timeout: 4 * time.Second, readDelay: rd,
		onlcr: s.idx%4 == 2, // one session in four over a transport that delivers CR LF for LF; a read may end between the two
		replyMulti: func(_ *simdev.NCServer, r simdev.NCRequest) [][]byte {
			reqNo++
			k := reqNo

			var out [][]byte

			// the late reply to the previous request goes out first; the pipe never puts two server messages into one read
			if held != nil {
				out = append(out, held)
				held = nil
			}

			if holdAll {
				heldAll = append(heldAll, frame(r.MsgID, k))

				return out
			}

			if k <= len(s.Policy) {
				switch s.Policy[k-1] {
				case "now", "werr":
					out = append(out, frame(r.MsgID, k))
				case "late", "lateecho":
					held = frame(r.MsgID, k)
				}
			} else {
				out = append(out, frame(r.MsgID, k))
			}

			return out
		}})
	if err == nil {
		err = sess.d.Open()
	}

	if err != nil {
		fail(&v, "C08:open-error", "%v", err)

		return v
	}

	defer func() { _, _ = withWatchdog(3*time.Second, func() { _ = sess.d.Close() }) }()

	for j := 0; j < s.N && v.OK; j++ {
		var r *response.NetconfResponse

		var oerr error

		// a call the server answers at once gets a generous deadline (NoLoss is judged without a timing race);
		// calls that are answered late or never use a short per-operation timeout
		to := opoptions.WithTimeoutOps(4 * time.Second)
		kind := j % 4

		if s.Policy[j] != "now" {
			to = opoptions.WithTimeoutOps(250 * time.Millisecond)

			if kind == 3 {
				kind = 0 // Lock takes no per-operation options
			}
		}

		sess.pipe.Lock()
		sess.srv.HoldEcho = s.Policy[j] == "lateecho"
		sess.pipe.Unlock()

		if j > 0 && s.idx%3 == 2 && s.Policy[j] == "now" && s.Policy[j-1] == "now" {
			// between two calls the server sends a message that is neither a reply nor a message of a subscription (an RFC 5277
			// notification without subscription-id): it is nobody's, and it must not stick to the reply that follows
			note := []byte(fmt.Sprintf(`<notification xmlns="urn:ietf:params:xml:ns:netconf:notification:1.0"><eventTime>2026-01-01T00:00:0%dZ</eventTime><event><n>%d</n></event></notification>`, j%10, j))
			if version == "1.1" {
				note = simdev.Frame11(note, []int{len(note)})
			} else {
				note = simdev.Frame10(note)
			}

			sess.pipe.Inject(note)
			sess.pipe.WaitDrained(time.Second)
			time.Sleep(3 * time.Millisecond)
		}

		if s.Policy[j] == "werr" {
			// the framed message goes out, the write of the return after it fails (1.1: the last of the two returns)
			n := 1
			if version == "1.1" {
				n = 2
			}

			sess.pipe.ArmWriteFailure(n)
			sess.pipe.Lock()
			sess.srv.MissingLF++
			sess.pipe.Unlock()
		}

		fin, pan := withWatchdog(8*time.Second, func() {
			switch kind {
			case 0:
				r, oerr = sess.d.Get("", to)
			case 1:
				r, oerr = sess.d.GetConfig("running", to)
			case 2:
				r, oerr = sess.d.RPC(opoptions.WithFilter("<x/>"), to)
			default:
				r, oerr = sess.d.Lock("candidate")
			}
		})

		sess.pipe.Lock()
		nreq := len(sess.srv.Requests)
		seenID := 0

		if nreq >= j+1 {
			seenID = sess.srv.Requests[j].MsgID
		}

		ferr := append([]string(nil), sess.srv.FramingErrors...)
		sess.pipe.Unlock()

		sig := fmt.Sprintf("C08:%s:call-%d-of-%s", version, j+1, strings.Join(s.Policy[:j+1], ","))

		switch {
		case !fin:
			fail(&v, "C08:"+version+":hang", "call %d did not return", j+1)
		case pan != nil:
			fail(&v, "C08:"+version+":panic", "call %d: %v", j+1, pan)
		case len(ferr) > 0:
			fail(&v, "C08:"+version+":client-framing", "client stream violates the framing: %v", ferr)
		case nreq != j+1 && !(version == "1.1" && strings.Contains(strings.Join(s.Policy[:j+1], ","), "werr")):
			fail(&v, "C08:"+version+":request-count", "after call %d the server has decoded %d requests", j+1, nreq)
		case seenID != s.IDs[j]:
			fail(&v, "C08:"+version+":message-id-sequence", "request %d carries message-id %d, must be %d (policies %v)", j+1, seenID, s.IDs[j], s.Policy)
		case s.Outcome[j] == "ok" && oerr != nil:
			fail(&v, sig+":reply-lost", "call %d: %v although the server answered at once (echo=%v)", j+1, oerr, s.Echo)
		case s.Outcome[j] == "ok":
			m := vRe.FindStringSubmatch(r.Result)
			if m == nil || m[1] != fmt.Sprint(seenID) || !strings.Contains(r.Result, fmt.Sprintf("<k>%d</k>", j+1)) {
				fail(&v, sig+":foreign-reply", "call %d (message-id %d) returned %q", j+1, seenID, r.Result)
			} else if r.Failed != nil {
				fail(&v, sig+":reply-failed", "call %d: own reply marked failed: %v", j+1, r.Failed)
			}
		case s.Outcome[j] == "error" && oerr == nil:
			fail(&v, sig+":success-despite-write-error", "call %d returned %q although a write failed", j+1, r.Result)
		case s.Outcome[j] == "error":
			// any error class will do; the reply to this request may arrive later and must never be handed to another call
		case s.Outcome[j] == "timeout" && oerr == nil:
			fail(&v, sig+":reply-from-nowhere", "call %d returned %q although the server had not answered it", j+1, r.Result)
		case s.Outcome[j] == "timeout" && errClass(oerr) != "timeout":
			fail(&v, sig+":error-class", "call %d: %v, expected a timeout", j+1, oerr)
		}
	}

	if v.OK && s.idx%4 == 3 && !strings.Contains(strings.Join(s.Policy, ","), "werr") {
		// two goroutines, one call each, the second made while the first is waiting for its reply (the requests go out one after
		// the other); the server answers both, in either order: each call returns the reply to its own request
		sess.pipe.Lock()
		h := held
		held = nil
		sess.srv.HoldEcho = false
		holdAll = true
		before := len(sess.srv.Requests)
		sess.pipe.Unlock()

		if h != nil {
			sess.pipe.Inject(h)
			sess.pipe.WaitDrained(time.Second)
			time.Sleep(3 * time.Millisecond)
		}

		type cres struct {
			r   *response.NetconfResponse
			err error
		}

		resc := [2]chan cres{make(chan cres, 1), make(chan cres, 1)}
		call := func(i int) {
			r, e := sess.d.Get("", opoptions.WithTimeoutOps(4*time.Second))
			resc[i] <- cres{r, e}
		}
		waitReqs := func(n int) bool {
			for t0 := time.Now(); time.Since(t0) < 3*time.Second; time.Sleep(200 * time.Microsecond) {
				sess.pipe.Lock()
				got := len(sess.srv.Requests) - before
				sess.pipe.Unlock()

				if got >= n {
					return true
				}
			}

			return false
		}

		go call(0)

		ok1 := waitReqs(1)

		go call(1)

		ok2 := waitReqs(2)

		sess.pipe.Lock()
		reps := heldAll
		heldAll = nil
		holdAll = false
		ids := []int{0, 0}

		if len(sess.srv.Requests)-before >= 2 {
			ids[0], ids[1] = sess.srv.Requests[before].MsgID, sess.srv.Requests[before+1].MsgID
		}
		sess.pipe.Unlock()

		if !ok1 || !ok2 || len(reps) != 2 {
			fail(&v, "C08:"+version+":two-in-flight:requests", "two calls from two goroutines: the server saw %d of 2 requests", len(reps))

			return v
		}

		order := []int{0, 1}
		if s.idx%8 == 7 {
			order = []int{1, 0}
		}

		for _, o := range order {
			sess.pipe.Inject(reps[o])
			sess.pipe.WaitDrained(time.Second)
			time.Sleep(2 * time.Millisecond)
		}

		for i := 0; i < 2 && v.OK; i++ {
			select {
			case cr := <-resc[i]:
				switch {
				case cr.err != nil:
					fail(&v, "C08:"+version+":two-in-flight:reply-lost", "two calls in flight (replies released in order %v): call %d (message-id %d): %v although the server answered it in full", order, i+1, ids[i], cr.err)
				default:
					m := vRe.FindStringSubmatch(cr.r.Result)
					if m == nil || m[1] != fmt.Sprint(ids[i]) {
						fail(&v, "C08:"+version+":two-in-flight:foreign-reply", "two calls in flight: call %d (message-id %d) returned %q", i+1, ids[i], cr.r.Result)
					}
				}
			case <-time.After(8 * time.Second):
				fail(&v, "C08:"+version+":two-in-flight:hang", "two calls in flight: call %d did not return", i+1)
			}
		}

		return v
	}

	if v.OK && s.idx%4 == 1 && !strings.Contains(strings.Join(s.Policy, ","), "werr") {
		// a transient transport error: one Read fails (not end-of-stream), the connection stays usable. The call that is waiting
		// or the next one may be handed that error; every call after it is answered at once by the server and gets its reply
		sess.pipe.Lock()
		sess.srv.HoldEcho = false
		sess.pipe.Unlock()
		sess.pipe.FailReadOnce()
		time.Sleep(3 * time.Millisecond)

		for j := 0; j < 3 && v.OK; j++ {
			sess.pipe.Lock()
			before := len(sess.srv.Requests)
			k := reqNo + 1
			sess.pipe.Unlock()

			var r *response.NetconfResponse

			var oerr error

			fin, pan := withWatchdog(8*time.Second, func() { r, oerr = sess.d.Get("", opoptions.WithTimeoutOps(3*time.Second)) })

			sess.pipe.Lock()
			seenID := 0
			if len(sess.srv.Requests) == before+1 {
				seenID = sess.srv.Requests[before].MsgID
			}
			sess.pipe.Unlock()

			switch {
			case !fin || pan != nil:
				fail(&v, "C08:"+version+":after-transient-error:hang-or-panic", "call %d after a transient read error: returned=%v panic=%v", j+1, fin, pan)
			case j == 0 && oerr != nil:
				// the error report itself
			case oerr != nil:
				fail(&v, "C08:"+version+":after-transient-error:reply-lost", "call %d after a transient read error (one Read failed, the connection is up, the server answered at once): %v", j+1, oerr)
			default:
				m := vRe.FindStringSubmatch(r.Result)
				if m == nil || seenID == 0 || m[1] != fmt.Sprint(seenID) || !strings.Contains(r.Result, fmt.Sprintf("<k>%d</k>", k)) {
					fail(&v, "C08:"+version+":after-transient-error:foreign-reply", "call %d after a transient read error (message-id %d) returned %q", j+1, seenID, r.Result)
				}
			}
		}

		return v
	}

	if !v.OK || s.idx%2 != 0 || strings.Contains(strings.Join(s.Policy, ","), "werr") {
		return v
	}

	// a second session on the same driver object: what the first one left behind - a late reply that was filed and never
	// fetched, a reply still on its way - belongs to requests of the first session; every call of the second session gets
	// the reply to its own request (the server numbers its replies through, <k>, so a reply of the first session is recognised
	// whatever message-ids the second session uses), and its ids are again strictly increasing
	sess.pipe.Lock()
	h := held
	held = nil
	sess.srv.HoldEcho = false
	sess.pipe.Unlock()

	if h != nil {
		sess.pipe.Inject(h)
	}

	sess.pipe.WaitDrained(time.Second)
	time.Sleep(5 * time.Millisecond)

	var rerr error

	fin, pan := withWatchdog(10*time.Second, func() {
		_ = sess.d.Close()
		rerr = sess.d.Open()
	})
	if !fin || pan != nil || rerr != nil {
		fail(&v, "C08:"+version+":reopen", "Close and Open on the same driver after the session: returned=%v panic=%v err=%v", fin, pan, rerr)

		return v
	}

	lastID := 0

	for j := 0; j < s.N+1 && v.OK; j++ {
		sess.pipe.Lock()
		before := len(sess.srv.Requests)
		k := reqNo + 1
		sess.pipe.Unlock()

		var r *response.NetconfResponse

		var oerr error

		fin, pan := withWatchdog(8*time.Second, func() { r, oerr = sess.d.Get("", opoptions.WithTimeoutOps(4*time.Second)) })

		sess.pipe.Lock()
		seenID := 0
		if len(sess.srv.Requests) == before+1 {
			seenID = sess.srv.Requests[before].MsgID
		}
		sess.pipe.Unlock()

		sig := fmt.Sprintf("C08:%s:second-session-after-%s", version, strings.Join(s.Policy, ","))

		switch {
		case !fin || pan != nil:
			fail(&v, "C08:"+version+":second-session:hang-or-panic", "call %d of the second session: returned=%v panic=%v", j+1, fin, pan)
		case seenID == 0:
			fail(&v, "C08:"+version+":second-session:request-count", "call %d of the second session: the server did not decode exactly one more request", j+1)
		case seenID <= lastID:
			fail(&v, "C08:"+version+":second-session:message-id-sequence", "call %d of the second session carries message-id %d after %d", j+1, seenID, lastID)
		case oerr != nil:
			fail(&v, sig+":reply-lost", "call %d of the second session: %v although the server answered at once", j+1, oerr)
		default:
			m := vRe.FindStringSubmatch(r.Result)
			if m == nil || m[1] != fmt.Sprint(seenID) || !strings.Contains(r.Result, fmt.Sprintf("<k>%d</k>", k)) {
				fail(&v, sig+":foreign-reply", "call %d of the second session (message-id %d, request %d of the server's count) returned %q", j+1, seenID, k, r.Result)
			}
		}

		lastID = seenID
	}

	return v
}

func c08(_ []string) error {
	var scns []*c08Scn

	if err := readScenarios(func(raw json.RawMessage) error {
		s := &c08Scn{}
		if err := json.Unmarshal(raw, s); err != nil {
			return err
		}

		s.idx = len(scns)
		if s.Idx != nil {
			s.idx = *s.Idx
		}

		scns = append(scns, s)

		return nil
	}); err != nil {
		return err
	}

	segs := []string{"rand", "one", "whole"}

	type job struct {
		s        *c08Scn
		ver, seg string
	}

	var jobs []job

	for _, s := range scns {
		if s.Version != "" {
			jobs = append(jobs, job{s, s.Version, s.Seg})

			continue
		}

		for vi, ver := range []string{"1.0", "1.1"} {
			jobs = append(jobs, job{s, ver, segs[(s.idx+vi)%3]})

			if tier() == "thorough" {
				jobs = append(jobs, job{s, ver, segs[(s.idx+vi+1)%3]}, job{s, ver, segs[(s.idx+vi+2)%3]})
			}
		}
	}

	parallel(len(jobs), 10, func(i int) { emit(c08Run(jobs[i].s, jobs[i].ver, jobs[i].seg)) })

	return nil
}
