package main

import (
	"encoding/json"
	"fmt"
	"regexp"
	"strings"
	"time"

	"github.com/scrapli/scrapligo/driver/opoptions"
	"github.com/scrapli/scrapligo/response"

	"verifharness/simdev"
)

// C08: scenarios of NcSession.tla (reply policy per request, echo) x version x segmentation.

func init() { register("c08", c08) }

type c08Scn struct {
	N       int      `json:"n"`
	Echo    bool     `json:"echo"`
	Policy  []string `json:"policy"`
	Outcome []string `json:"outcome"`
	IDs     []int    `json:"ids"`
	Version string   `json:"version,omitempty"`
	Seg     string   `json:"seg,omitempty"`
	idx     int
}

var vRe = regexp.MustCompile(`<v>(\d+)</v>`)

func c08Run(s *c08Scn, version, segName string) verdict {
	v := verdict{ID: s.idx, Variant: version + "/" + segName, OK: true}

	for _, p := range s.Policy {
		if p != "now" {
			v.Nontrivial = true
		}
	}

	var held []byte

	var sess *ncSession

	reqNo := 0
	frame := func(id, k int) []byte {
		pay := fmt.Sprintf(`<rpc-reply xmlns="urn:ietf:params:xml:ns:netconf:base:1.0" message-id="%d"><data><v>%d</v><k>%d</k></data></rpc-reply>`, id, id, k)
		if version == "1.1" {
			return simdev.Frame11([]byte(pay), []int{30, 50})
		}

		return simdev.Frame10([]byte(pay))
	}

	var err error

	// a slow read loop (whole-stream reads) lets the next server message arrive between two of its iterations
	rd := 30 * time.Microsecond
	if segName == "whole" {
		rd = 2 * time.Millisecond
	}

	sess, err = newNcSession(ncConfig{adv10: true, adv11: true, preferred: version, echo: s.Echo, seg: faultSegs[segName], seed: int64(s.idx), timeout: 4 * time.Second, readDelay: rd,
		replyMulti: func(_ *simdev.NCServer, r simdev.NCRequest) [][]byte {
			reqNo++
			k := reqNo

			var out [][]byte

			// the late reply to the previous request goes out first; the pipe never puts two server messages into one read
			if held != nil {
				out = append(out, held)
				held = nil
			}

			if k <= len(s.Policy) {
				switch s.Policy[k-1] {
				case "now", "werr":
					out = append(out, frame(r.MsgID, k))
				case "late", "lateecho":
					held = frame(r.MsgID, k)
				}
			} else {
				out = append(out, frame(r.MsgID, k))
			}

			return out
		}})
	if err == nil {
		err = sess.d.Open()
	}

	if err != nil {
		fail(&v, "C08:open-error", "%v", err)

		return v
	}

	defer func() { _, _ = withWatchdog(3*time.Second, func() { _ = sess.d.Close() }) }()

	for j := 0; j < s.N && v.OK; j++ {
		var r *response.NetconfResponse

		var oerr error

		// a call the server answers at once gets a generous deadline (NoLoss is judged without a timing race);
		// calls that are answered late or never use a short per-operation timeout
		to := opoptions.WithTimeoutOps(4 * time.Second)
		kind := j % 4

		if s.Policy[j] != "now" {
			to = opoptions.WithTimeoutOps(250 * time.Millisecond)

			if kind == 3 {
				kind = 0 // Lock takes no per-operation options
			}
		}

		sess.pipe.Lock()
		sess.srv.HoldEcho = s.Policy[j] == "lateecho"
		sess.pipe.Unlock()

		if s.Policy[j] == "werr" {
			// the framed message goes out, the write of the return after it fails (1.1: the last of the two returns)
			n := 1
			if version == "1.1" {
				n = 2
			}

			sess.pipe.ArmWriteFailure(n)
			sess.pipe.Lock()
			sess.srv.MissingLF++
			sess.pipe.Unlock()
		}

		fin, pan := withWatchdog(8*time.Second, func() {
			switch kind {
			case 0:
				r, oerr = sess.d.Get("", to)
			case 1:
				r, oerr = sess.d.GetConfig("running", to)
			case 2:
				r, oerr = sess.d.RPC(opoptions.WithFilter("<x/>"), to)
			default:
				r, oerr = sess.d.Lock("candidate")
			}
		})

		sess.pipe.Lock()
		nreq := len(sess.srv.Requests)
		seenID := 0

		if nreq >= j+1 {
			seenID = sess.srv.Requests[j].MsgID
		}

		ferr := append([]string(nil), sess.srv.FramingErrors...)
		sess.pipe.Unlock()

		sig := fmt.Sprintf("C08:%s:call-%d-of-%s", version, j+1, strings.Join(s.Policy[:j+1], ","))

		switch {
		case !fin:
			fail(&v, "C08:"+version+":hang", "call %d did not return", j+1)
		case pan != nil:
			fail(&v, "C08:"+version+":panic", "call %d: %v", j+1, pan)
		case len(ferr) > 0:
			fail(&v, "C08:"+version+":client-framing", "client stream violates the framing: %v", ferr)
		case nreq != j+1 && !(version == "1.1" && strings.Contains(strings.Join(s.Policy[:j+1], ","), "werr")):
			fail(&v, "C08:"+version+":request-count", "after call %d the server has decoded %d requests", j+1, nreq)
		case seenID != s.IDs[j]:
			fail(&v, "C08:"+version+":message-id-sequence", "request %d carries message-id %d, must be %d (policies %v)", j+1, seenID, s.IDs[j], s.Policy)
		case s.Outcome[j] == "ok" && oerr != nil:
			fail(&v, sig+":reply-lost", "call %d: %v although the server answered at once (echo=%v)", j+1, oerr, s.Echo)
		case s.Outcome[j] == "ok":
			m := vRe.FindStringSubmatch(r.Result)
			if m == nil || m[1] != fmt.Sprint(seenID) || !strings.Contains(r.Result, fmt.Sprintf("<k>%d</k>", j+1)) {
				fail(&v, sig+":foreign-reply", "call %d (message-id %d) returned %q", j+1, seenID, r.Result)
			} else if r.Failed != nil {
				fail(&v, sig+":reply-failed", "call %d: own reply marked failed: %v", j+1, r.Failed)
			}
		case s.Outcome[j] == "error" && oerr == nil:
			fail(&v, sig+":success-despite-write-error", "call %d returned %q although a write failed", j+1, r.Result)
		case s.Outcome[j] == "error":
			// any error class will do; the reply to this request may arrive later and must never be handed to another call
		case s.Outcome[j] == "timeout" && oerr == nil:
			fail(&v, sig+":reply-from-nowhere", "call %d returned %q although the server had not answered it", j+1, r.Result)
		case s.Outcome[j] == "timeout" && errClass(oerr) != "timeout":
			fail(&v, sig+":error-class", "call %d: %v, expected a timeout", j+1, oerr)
		}
	}

	return v
}

func c08(_ []string) error {
	var scns []*c08Scn

	if err := readScenarios(func(raw json.RawMessage) error {
		s := &c08Scn{}
		if err := json.Unmarshal(raw, s); err != nil {
			return err
		}

		s.idx = len(scns)
		scns = append(scns, s)

		return nil
	}); err != nil {
		return err
	}

	segs := []string{"rand", "one", "whole"}

	type job struct {
		s        *c08Scn
		ver, seg string
	}

	var jobs []job

	for _, s := range scns {
		if s.Version != "" {
			jobs = append(jobs, job{s, s.Version, s.Seg})

			continue
		}

		for vi, ver := range []string{"1.0", "1.1"} {
			jobs = append(jobs, job{s, ver, segs[(s.idx+vi)%3]})

			if tier() == "thorough" {
				jobs = append(jobs, job{s, ver, segs[(s.idx+vi+1)%3]}, job{s, ver, segs[(s.idx+vi+2)%3]})
			}
		}
	}

	parallel(len(jobs), 10, func(i int) { emit(c08Run(jobs[i].s, jobs[i].ver, jobs[i].seg)) })

	return nil
}
