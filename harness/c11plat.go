package main

import (
	"bytes"
	"encoding/json"
	"fmt"
	"os"
	"strings"
	"sync"
	"time"

	"github.com/scrapli/scrapligo/driver/options"
	"github.com/scrapli/scrapligo/logging"
	"github.com/scrapli/scrapligo/platform"

	"verifharness/simdev"
)

// C11, platform definitions: on-open / on-close steps that write a secret with `redacted: true` (a string, and an all-digit
// value that YAML decodes as a number). Whatever the loader makes of such a step - run it or refuse it - the value must not show
// up in any log message or in the channel log. Sessions are recorded in the LogTrace format.

func init() { register("c11plat", c11plat) }

func c11plat(args []string) error {
	out := "c11plat.ndjson"
	if len(args) >= 2 && args[0] == "-logtrace" {
		out = args[1]
	}

	f, err := os.Create(out)
	if err != nil {
		return err
	}

	defer f.Close()

	enc := json.NewEncoder(f)

	const strSecret = "on0pen-S3cr3t%s[x]"

	const numSecret = "73190452"

	cases := []struct{ name, input, where string }{
		{"string-onopen", "'" + strSecret + "'", "network-on-open"}, {"number-onopen", numSecret, "network-on-open"},
		{"string-onclose", "'" + strSecret + "'", "network-on-close"}, {"number-onclose", numSecret, "network-on-close"},
	}

	for k, c := range cases {
		v := verdict{ID: k, Variant: c.name, OK: true, Nontrivial: true}

		var y strings.Builder

		y.WriteString("---\nplatform-type: 'verifplat'\ndefault:\n  driver-type: 'network'\n  privilege-levels:\n")

		for _, name := range []string{"exec", "privilege-exec", "configuration"} {
			l := stdLevels()[name]
			fmt.Fprintf(&y, "    %s:\n      name: '%s'\n      pattern: '%s'\n      previous-priv: '%s'\n      deescalate: '%s'\n      escalate: '%s'\n      escalate-auth: %v\n      escalate-prompt: '%s'\n",
				name, name, l.Pattern, l.PreviousPriv, l.Deescalate, l.Escalate, l.EscalateAuth, l.EscalatePrompt)
		}

		y.WriteString("  default-desired-privilege-level: 'exec'\n")
		fmt.Fprintf(&y, "  %s:\n    - operation: 'channel.write'\n      input: %s\n      redacted: true\n    - operation: 'channel.return'\n", c.where, c.input)

		cli := stdCLI("exec")
		pipe := simdev.NewPipe(cli, int64(k))
		pipe.Seg = simdev.Seg{Mode: "rand", Max: 9}
		capDebug := &logCapture{}
		li, _ := logging.NewInstance(logging.WithLevel("debug"), logging.WithLogger(capDebug.log))
		chanLog := &bytes.Buffer{}
		chanLogMu := &sync.Mutex{}

		p, perr := platform.NewPlatform([]byte(y.String()), "sim", options.WithCustomTransport(pipe), options.WithReadDelay(30*time.Microsecond),
			options.WithTimeoutOps(time.Second), options.WithLogger(li), options.WithChannelLog(lockedWriter{chanLog, chanLogMu}))

		class := "refused"

		if perr == nil {
			d, derr := p.GetNetworkDriver()
			if derr == nil {
				_, pan := withWatchdog(5*time.Second, func() {
					if oerr := d.Open(); oerr == nil {
						class = "ran"
						_ = d.Close()
					}
				})
				if pan != nil {
					class = "panic"
				}
			}
		}

		secrets := []string{strSecret, numSecret}
		capDebug.mu.Lock()
		msgs := append([]string(nil), capDebug.msgs...)
		capDebug.mu.Unlock()
		chanLogMu.Lock()
		cl := chanLog.String()
		chanLogMu.Unlock()

		_ = enc.Encode(map[string]interface{}{"ev": "reset", "t": "plat-" + c.name, "kind": "platform", "class": class})

		for _, m := range msgs {
			_ = enc.Encode(map[string]interface{}{"ev": "log", "sink": "logger", "taint": nz(secretsIn(m, secrets)), "len": len(m)})
		}

		_ = enc.Encode(map[string]interface{}{"ev": "log", "sink": "channel-log", "taint": nz(secretsIn(cl, secrets)), "len": len(cl)})

		if class == "panic" {
			fail(&v, "C11:platform:panic", "the platform step %s made the driver panic", c.name)
		}

		v.Extra = map[string]interface{}{"class": class, "logs": len(msgs)}
		emit(v)
	}

	return nil
}
