package main

import (
	"fmt"
	"io"
	"net"
	"strings"
	"sync"
	"sync/atomic"
	"time"

	"golang.org/x/crypto/ssh"

	"github.com/scrapli/scrapligo/driver/generic"
	"github.com/scrapli/scrapligo/driver/options"
	"github.com/scrapli/scrapligo/util"

	"verifharness/simdev"
)

// C07 with the built-in transports: the same Close contract (returns, no panic in any goroutine, in-flight operation ends,
// second Close harmless, on-close hook may write) with a real telnet connection over loopback TCP and the standard SSH
// transport against the in-process server; the device behind them is the scripted CLI.

// bridge serves a scripted device on a byte stream.
type bridge struct {
	mu    sync.Mutex
	r     simdev.Reactor
	stall int32 // the device stops answering (operation in flight)
}

func (b *bridge) serve(rw io.ReadWriter) {
	b.mu.Lock()
	start := b.r.Start()
	b.mu.Unlock()

	if _, err := rw.Write(start); err != nil {
		return
	}

	buf := make([]byte, 4096)

	for {
		n, err := rw.Read(buf)
		if n > 0 && atomic.LoadInt32(&b.stall) == 0 {
			b.mu.Lock()
			out := b.r.OnInput(append([]byte(nil), buf[:n]...))
			b.mu.Unlock()

			if len(out) > 0 {
				if _, werr := rw.Write(out); werr != nil {
					return
				}
			}
		}

		if err != nil {
			return
		}
	}
}

type realSess struct {
	gd      *generic.Driver
	br      *bridge
	dropAll func()
	stop    func()
	// standard transport only: the server ends the session (closes the channel, as after "exit") and keeps the connection;
	// live tells how many SSH connections the server still holds
	endSessions func()
	live        func() int
}

func buildReal(kind string, onClose bool) (*realSess, error) {
	cli := stdCLI("exec")
	rs := &realSess{}

	opts := []util.Option{options.WithTransportType(kind), options.WithAuthNoStrictKey(), options.WithAuthUsername("admin"), options.WithAuthPassword("pw0rd"),
		options.WithReadDelay(200 * time.Microsecond), options.WithTimeoutOps(5 * time.Second), options.WithTimeoutSocket(3 * time.Second)}

	if onClose {
		// what platform definitions do: say goodbye to the device before the channel is closed
		opts = append(opts, options.WithOnClose(func(d *generic.Driver) error { return d.Channel.WriteAndReturn([]byte("exit"), false) }))
	}

	switch kind {
	case "telnet":
		login := &simdev.Login{Inner: cli, EchoUser: true, Steps: []simdev.LoginStep{
			{Kind: "banner", Text: "\r\nUser Access Verification\r\n\r\n"}, {Kind: "askuser", Text: "Username: "},
			{Kind: "askpass", Text: "Password: "}, {Kind: "shell"},
		}}
		rs.br = &bridge{r: login}

		ln, err := net.Listen("tcp", "127.0.0.1:0")
		if err != nil {
			return nil, err
		}

		var mu sync.Mutex

		var conns []net.Conn

		go func() {
			for {
				c, aerr := ln.Accept()
				if aerr != nil {
					return
				}

				mu.Lock()
				conns = append(conns, c)
				mu.Unlock()

				go rs.br.serve(c)
			}
		}()

		rs.dropAll = func() {
			mu.Lock()
			for _, c := range conns {
				_ = c.Close()
			}
			mu.Unlock()
		}
		rs.stop = func() { _ = ln.Close(); rs.dropAll() }
		opts = append(opts, options.WithPort(ln.Addr().(*net.TCPAddr).Port))
	default:
		rs.br = &bridge{r: cli}

		var chMu sync.Mutex

		var chans []ssh.Channel

		srv, err := startSSHSrv(sshSrvCfg{User: "admin", Password: "pw0rd", OnSession: func(_ string, ch ssh.Channel) {
			chMu.Lock()
			chans = append(chans, ch)
			chMu.Unlock()
			rs.br.serve(ch)
		}})
		if err != nil {
			return nil, err
		}

		rs.endSessions = func() {
			chMu.Lock()
			for _, ch := range chans {
				_ = ch.Close()
			}
			chMu.Unlock()
		}
		rs.live = func() int { return int(atomic.LoadInt32(&srv.Live)) }

		rs.dropAll = srv.DropConns
		rs.stop = srv.Close
		opts = append(opts, options.WithPort(srv.Port))
	}

	var err error

	rs.gd, err = generic.NewDriver("127.0.0.1", opts...)
	if err != nil {
		rs.stop()

		return nil, err
	}

	if err = rs.gd.Open(); err != nil {
		rs.stop()

		return nil, fmt.Errorf("open: %w", err)
	}

	return rs, nil
}

func c07Real(sc *c07Scn, idx int) verdict {
	name := fmt.Sprintf("%s/%s/%s/closes=%d/onclose=%v", sc.Driver, sc.Transport, sc.State, sc.Closes, sc.OnClose)
	v := verdict{ID: idx, Variant: name, OK: true, Nontrivial: true}
	sigBase := fmt.Sprintf("C07:%s:%s:closes=%d:onclose=%v", sc.Transport, sc.State, sc.Closes, sc.OnClose)
	before := len(libGoroutines(false))

	var rs *realSess

	var err error

	for try := 0; try < 4; try++ {
		if rs, err = buildReal(sc.Transport, sc.OnClose); err == nil {
			break
		}

		time.Sleep(50 * time.Millisecond)
	}

	if err != nil {
		v.OK, v.Sig, v.Detail = false, "TOOL", fmt.Sprintf("setup failed 4 times: %v", err)

		return v
	}

	defer rs.stop()

	// a first command proves the session works
	if r, cerr := rs.gd.SendCommand("show v7"); cerr != nil || r.Result == "" {
		v.OK, v.Sig, v.Detail = false, "TOOL", fmt.Sprintf("warm-up command failed: %v", cerr)

		return v
	}

	opDone := make(chan error, 1)
	opStarted := false

	switch sc.State {
	case "inflight":
		atomic.StoreInt32(&rs.br.stall, 1)

		opStarted = true

		go func() { _, e := rs.gd.SendCommand("show z8"); opDone <- e }()

		time.Sleep(3 * time.Millisecond)
	case "eof":
		rs.dropAll()
		time.Sleep(5 * time.Millisecond)
	case "session-ended":
		// the device ends the session (logout) but the connection is still there: closing the driver closes it
		rs.endSessions()
		time.Sleep(5 * time.Millisecond)
	}

	for i := 1; i <= sc.Closes && v.OK; i++ {
		t0 := time.Now()
		fin, pan := withWatchdog(4*time.Second, func() { _ = rs.gd.Close() })

		switch {
		case !fin:
			fail(&v, fmt.Sprintf("%s:close-%d-hangs", sigBase, i), "Close #%d did not return within 4 s", i)
		case pan != nil:
			fail(&v, fmt.Sprintf("%s:close-%d-panics", sigBase, i), "Close #%d panicked in the caller's goroutine: %v", i, pan)
		case time.Since(t0) > 2500*time.Millisecond:
			fail(&v, fmt.Sprintf("%s:close-%d-slow", sigBase, i), "Close #%d needed %v", i, time.Since(t0))
		}
	}

	if !v.OK {
		return v
	}

	if opStarted {
		select {
		case e := <-opDone:
			if e == nil {
				fail(&v, sigBase+":inflight-op-success", "operation in flight during Close reported success")
			}
		case <-time.After(1500 * time.Millisecond):
			fail(&v, sigBase+":inflight-op-outlives-close", "the operation in flight during Close (own timeout 5 s) had not returned 1.5 s after Close returned")

			return v
		}
	}

	if sc.State == "session-ended" && rs.live != nil {
		deadline := time.Now().Add(time.Second)
		for rs.live() > 0 && time.Now().Before(deadline) {
			time.Sleep(5 * time.Millisecond)
		}

		if n := rs.live(); n > 0 {
			fail(&v, sigBase+":transport-not-closed", "Close returned, yet the server still holds %d SSH connection(s) of this driver 1 s later: the transport was not closed", n)

			return v
		}
	}

	// a write after Close is an error, never a panic
	_, pan := withWatchdog(2*time.Second, func() { _ = rs.gd.Channel.WriteAndReturn([]byte("show z8"), false) })
	if pan != nil {
		fail(&v, sigBase+":write-after-close-panics", "a write after Close panicked: %v", pan)

		return v
	}

	var left []string

	deadline := time.Now().Add(600 * time.Millisecond)

	for {
		left = libGoroutines(false)
		if len(left) <= before || time.Now().After(deadline) {
			break
		}

		time.Sleep(5 * time.Millisecond)
	}

	if len(left) > before {
		fail(&v, sigBase+":goroutine-leak", "%d library goroutine(s) still alive 600 ms after Close returned:\n%s", len(left)-before, strings.Join(left, "\n\n"))
	}

	return v
}
