package main

import (
	"bytes"
	"encoding/json"
	"fmt"
	"regexp"
	"strings"
	"time"

	"github.com/scrapli/scrapligo/driver/opoptions"
	"github.com/scrapli/scrapligo/driver/options"
	"github.com/scrapli/scrapligo/response"
	"github.com/scrapli/scrapligo/util"

	"verifharness/simdev"
)

// C02: (a) c02rec: every raw byte-class string / edited frame of MCNcFraming.tla through the public
// response.NetconfResponse.Record; (b) c02drv: replies of NcReplyScn.tla through the whole driver.

func init() {
	register("c02rec", c02rec)
	register("c02drv", c02drv)
}

type c02Raw struct {
	Raw   string `json:"raw"`
	Class string `json:"class"`
	Why   string `json:"why"`
	Data  string `json:"data"`
	LOK   bool   `json:"lok"`
	LData string `json:"ldata"`
}

func concClass(s string) string {
	var b strings.Builder

	for _, r := range s {
		switch r {
		case 'H':
			b.WriteByte('#')
		case 'N':
			b.WriteByte('\n')
		case '_':
			b.WriteByte(' ')
		case 'x':
			b.WriteByte('a')
		default:
			b.WriteRune(r)
		}
	}

	return b.String()
}

func isSubsequence(a, b string) bool {
	i := 0
	for j := 0; i < len(a) && j < len(b); j++ {
		if a[i] == b[j] {
			i++
		}
	}

	return i == len(a)
}

func c02RecOne(s *c02Raw, idx int) verdict {
	v := verdict{ID: idx, OK: true, Nontrivial: s.Class != "grey"}
	raw := concClass(s.Raw)
	// slack capacity filled with a poison byte: reading past the end of the input becomes visible
	buf := make([]byte, len(raw)+48)
	for i := range buf {
		buf[i] = 'P'
	}

	copy(buf, raw)
	in := buf[:len(raw)]
	r := response.NewNetconfResponse([]byte("<rpc/>"), []byte("<rpc/>"), "h", 830, "1.1")

	var pan interface{}

	func() {
		defer func() { pan = recover() }()
		r.Record(in)
	}()

	kind := strings.ReplaceAll(s.Why, " ", "-")
	if kind == "" {
		kind = s.Class
	}

	switch {
	case pan != nil:
		fail(&v, "C02:record:1.1:panic:"+kind, "Record(%q) panicked: %v", raw, pan)
	case !isSubsequence(r.Result, raw):
		fail(&v, "C02:record:1.1:foreign-bytes:"+kind, "Record(%q): Result %q contains bytes that are not in the input", raw, r.Result)
	case s.Class == "legal":
		want := concClass(s.Data)
		if r.Failed != nil {
			fail(&v, "C02:record:1.1:legal-frame-failed", "Record(%q): legal frame marked failed: %v", raw, r.Failed)
		} else if r.Result != want {
			fail(&v, "C02:record:1.1:legal-frame-result", "Record(%q): Result %q, payload is %q", raw, r.Result, want)
		}
	case s.Class == "malformed":
		if r.Failed == nil {
			fail(&v, "C02:record:1.1:malformed-accepted:"+kind, "Record(%q): malformed frame (%s) accepted with Result %q", raw, s.Why, r.Result)
		}
	case s.Class == "grey" && s.LOK && r.Failed == nil:
		if want := concClass(s.LData); r.Result != want {
			fail(&v, "C02:record:1.1:lenient-frame-result", "Record(%q): accepted, but Result %q is not the payload %q", raw, r.Result, want)
		}
	}

	return v
}

func c02rec(_ []string) error {
	var scns []*c02Raw

	if err := readScenarios(func(raw json.RawMessage) error {
		s := &c02Raw{}
		if err := json.Unmarshal(raw, s); err != nil {
			return err
		}

		scns = append(scns, s)

		return nil
	}); err != nil {
		return err
	}

	// results are aggregated: one line per failing case, plus a summary
	type agg struct {
		N, Nontrivial int
		ByClass       map[string]int
	}

	a := agg{ByClass: map[string]int{}}

	for i, s := range scns {
		v := c02RecOne(s, i)
		a.N++
		a.ByClass[s.Class]++

		if v.Nontrivial {
			a.Nontrivial++
		}

		if !v.OK {
			v.Extra = s
			emit(v)
		}
	}

	emit(map[string]interface{}{"summary": true, "n": a.N, "nontrivial": a.Nontrivial, "byclass": a.ByClass})

	return nil
}

type c02Drv struct {
	ID      int    `json:"id"`
	Version string `json:"version"`
	Payload string `json:"payload"`
	Sizes   []int  `json:"sizes"`
	SplitU  bool   `json:"splitU"`
	SplitD  bool   `json:"splitD"`
	Echo    bool   `json:"echo"`
	Result  string `json:"result"`
	Failed  bool   `json:"failed"`
	Variant string `json:"variant,omitempty"`
}

func concPay(sym rune, id int, k int) string { //nolint
	switch sym {
	case 'P':
		return fmt.Sprintf(`<rpc-reply xmlns="urn:ietf:params:xml:ns:netconf:base:1.0" message-id="%d">`, id)
	case 'S':
		return "</rpc-reply>"
	case 'D':
		return `<?xml version="1.0" encoding="UTF-8"?>`
	case 'x':
		return "a"
	case 'U':
		_ = k

		if id%2 == 0 {
			return "é"
		}

		return "€"
	case 'H':
		return "#"
	case 'N':
		return "\n"
	case '_':
		return " "
	case 'L':
		return "<rpc-"
	case 'l':
		return "</rpc-"
	case 'r':
		return "error"
	case 'G':
		return ">"
	case 'A':
		return ` a="b"`
	case 'Q':
		return `<?target some data?>`
	}

	return string(sym)
}

// uvar selects the multi-byte rune used for 'U' (set per scenario, single-threaded use per call chain)
func concPayloadU(s string, id int, u int) (string, []int) {
	var b strings.Builder

	ends := []int{}

	for k, r := range s {
		if r == 'U' {
			if u%2 == 0 {
				b.WriteString("é")
			} else {
				b.WriteString("€")
			}
		} else {
			b.WriteString(concPay(r, id, k))
		}

		ends = append(ends, b.Len())
	}

	return b.String(), ends
}

func concPayload(s string, id int) (string, []int) {
	var b strings.Builder

	ends := []int{}

	for k, r := range s {
		b.WriteString(concPay(r, id, k))
		ends = append(ends, b.Len())
	}

	return b.String(), ends
}

var c02Segs = []struct {
	name string
	seg  simdev.Seg
}{
	{"one", simdev.Seg{Mode: "one"}}, {"whole", simdev.Seg{Mode: "whole"}}, {"rand5", simdev.Seg{Mode: "rand", Max: 5}},
	{"rand40", simdev.Seg{Mode: "rand", Max: 40}}, {"list", simdev.Seg{Mode: "list", List: []int{3, 1, 2, 7, 1, 1}}},
}

func c02DrvOne(s *c02Drv, segIdx int) verdict {
	sg := c02Segs[segIdx%len(c02Segs)]
	v := verdict{ID: s.ID, Variant: sg.name, OK: true, Nontrivial: true}
	// which data lines could trip the read loop's delimiter pattern (known weakness, see DESIGN)
	sigTag := ""

	var reply []byte

	// with one byte per read every prefix of the stream is examined by the read loop. In those sessions the reply goes on after
	// the generated payload with a line that ENDS in "##" and more data than the (shortened) prompt search depth behind it: the
	// end-of-chunks marker is a line of its own, wherever the examined part of the buffer happens to begin
	const tailLine = "\n<pad>tail##\n"

	tail := ""

	var extra []util.Option

	if sg.name == "one" && s.Version == "1.1" {
		tail = tailLine + strings.Repeat("y", 90) + "</pad>"
		extra = append(extra, options.WithPromptSearchDepth(48))
	}

	// every third session is the second one on its driver: in the first, a call timed out and its reply came late (it is filed,
	// nobody fetches it); close, open again. What the call under observation returns is the reply to ITS request.
	earlier := s.ID%3 == 0
	nreq, lastID := 0, 0

	sess, err := newNcSession(ncConfig{
		adv10: true, adv11: true, preferred: s.Version, echo: s.Echo, seg: sg.seg, seed: int64(s.ID), timeout: 1500 * time.Millisecond, extra: extra, trace: true,
		reuseBuf: s.ID%4 == 1, // one session in four over a transport that hands out slices of one long-lived read buffer
		reply: func(_ *simdev.NCServer, r simdev.NCRequest) []byte {
			nreq++
			lastID = r.MsgID

			if earlier && nreq == 1 {
				return nil // answered late, see below
			}

			pay, ends := concPayloadU(s.Payload, r.MsgID, s.ID)
			if s.Version == "1.0" {
				reply = append([]byte(pay), []byte("]]>]]>")...)

				return reply
			}

			sizes := []int{}
			sym := []rune(s.Payload)
			pos, prevEnd := 0, 0

			if s.SplitD && len(sym) > 0 && sym[0] == 'D' && ends[0] > 2 {
				// the first chunk ends inside the XML declaration: what is trimmed is the declaration of the PAYLOAD, not of a chunk
				prevEnd = 1 + (s.ID*7)%(ends[0]-1)
				sizes = append(sizes, prevEnd)
			}

			for _, n := range s.Sizes {
				pos += n
				if pos > len(ends) {
					break
				}

				end := ends[pos-1]
				if s.SplitU && sym[pos-1] == 'U' && pos < len(ends) {
					end-- // cut inside the multi-byte rune
				}

				if end > prevEnd {
					sizes = append(sizes, end-prevEnd)
					prevEnd = end
				}
			}

			if tail != "" {
				pay += tail
				sizes = append(sizes, len(tail))
			}

			reply = simdev.Frame11([]byte(pay), sizes)

			return reply
		},
	})
	if err != nil {
		fail(&v, "C02:driver:new-error", "%v", err)

		return v
	}

	if err = sess.d.Open(); err != nil {
		fail(&v, "C02:driver:open-error", "open (%s): %v", s.Version, err)

		return v
	}

	if earlier {
		_, e1 := sess.d.Get("", opoptions.WithTimeoutOps(150*time.Millisecond))

		sess.pipe.Lock()
		id1 := lastID
		sess.pipe.Unlock()

		late := []byte(fmt.Sprintf(`<rpc-reply xmlns="urn:ietf:params:xml:ns:netconf:base:1.0" message-id="%d"><late-reply-of-the-first-session/></rpc-reply>`, id1))
		if s.Version == "1.1" {
			late = simdev.Frame11(late, []int{len(late)})
		} else {
			late = append(late, []byte("]]>]]>")...)
		}

		sess.pipe.Inject(late)
		sess.pipe.WaitDrained(time.Second)
		time.Sleep(5 * time.Millisecond)

		var e2 error

		finR, panR := withWatchdog(8*time.Second, func() {
			_ = sess.d.Close()
			e2 = sess.d.Open()
		})
		if e1 == nil {
			v.OK, v.Sig, v.Detail = false, "TOOL", "the earlier session: the call that was to time out did not"

			return v
		}

		if !finR || panR != nil || e2 != nil {
			// the session under observation does not even come up: what the library makes of the server's hello is its own doing
			fail(&v, "C02:driver:"+s.Version+":second-session-does-not-open", "after an earlier session (a call timed out, its reply came late) close/open: returned=%v panic=%v err=%v", finR, panR, e2)

			return v
		}
	}

	var r *response.NetconfResponse

	fin, pan := withWatchdog(20*time.Second, func() { r, err = sess.d.Get("") })

	sess.pipe.Lock()
	reqID := lastID
	sess.pipe.Unlock()

	if !earlier {
		reqID = 101
	}

	want, _ := concPayloadU(s.Result, reqID, s.ID)
	if tail != "" {
		// the result is the payload without surrounding white space; what was trailing before is now in the middle
		full, _ := concPayloadU(s.Payload, reqID, s.ID)
		want += full[len(strings.TrimRight(full, " \t\r\n")):] + tail
	}

	// the input class of the known finding: on the wire, a line starts with "##" before the end-of-chunks marker - a data
	// line of the payload, or a chunk whose data starts with "##" (chunk data always follows the LF of its header)
	if s.Version == "1.1" && len(reply) > 4 && bytes.Contains(reply[:len(reply)-4], []byte("\n##")) && c02PrematureEnd(sess.pipe.Snapshot(), reply) {
		sigTag = ":data-line-starts-with-##"
	}

	switch {
	case !fin:
		fail(&v, "C02:driver:"+s.Version+":hang"+sigTag, "Get did not return")
	case pan != nil:
		fail(&v, "C02:driver:"+s.Version+":panic"+sigTag, "panic: %v", pan)
	case err != nil:
		fail(&v, "C02:driver:"+s.Version+":error:"+errClass(err)+sigTag, "Get: %v (reply %q)", err, reply)
	case r.Result != want:
		fail(&v, "C02:driver:"+s.Version+":result-mismatch"+sigTag, "Result %q, payload %q (wire %q)", r.Result, want, reply)
	case (r.Failed != nil) != s.Failed:
		fail(&v, "C02:driver:"+s.Version+":failed-flag"+sigTag, "Failed=%v (%v), payload carries rpc-error: %v (wire %q)", r.Failed != nil, r.Failed, s.Failed, reply)
	}

	if !v.OK && sigTag != "" {
		// one finding whatever the symptom (truncated result, parse error, timeout): see known_findings.json
		v.Sig = "C02:driver:1.1:data-line-starts-with-##"
	}

	_, _ = withWatchdog(3*time.Second, func() { _ = sess.d.Close() })

	return v
}

func c02drv(_ []string) error {
	var scns []*c02Drv

	if err := readScenarios(func(raw json.RawMessage) error {
		s := &c02Drv{}
		if err := json.Unmarshal(raw, s); err != nil {
			return err
		}

		scns = append(scns, s)

		return nil
	}); err != nil {
		return err
	}

	type job struct {
		s   *c02Drv
		seg int
	}

	var jobs []job

	nseg := 3
	if tier() == "thorough" {
		nseg = 5
	}

	for _, s := range scns {
		for k := 0; k < nseg; k++ {
			idx := s.ID + k
			if s.Variant != "" && c02Segs[idx%len(c02Segs)].name != s.Variant {
				continue
			}

			jobs = append(jobs, job{s, idx})
		}
	}

	parallel(len(jobs), 12, func(i int) { emit(c02DrvOne(jobs[i].s, jobs[i].seg)) })

	return nil
}

var c02EndOfChunks = regexp.MustCompile(`(?m)^##$`)

// c02PrematureEnd decides the input class of the known finding exactly: the read loop looks for a line "##" in what it has read
// so far, after every transport read. The class is: some read ended inside the reply (before its end-of-chunks marker) with a
// line "##" - or a line beginning "##" cut right behind these two characters - already in view.
func c02PrematureEnd(evs []simdev.Event, reply []byte) bool {
	if len(reply) > 4 && bytes.Contains(reply[:len(reply)-3], []byte("\n##\n")) {
		// a line that IS "##" in front of the end-of-chunks marker: in view whatever the reads were
		return true
	}

	var stream []byte

	var ends []int

	for _, e := range evs {
		if e.Ev == "deliver" {
			stream = append(stream, e.B...)
			ends = append(ends, len(stream))
		}
	}

	at := bytes.LastIndex(stream, reply)
	if at < 0 {
		// the reply was not delivered in one piece of the stream as expected (late bytes, loss): keep the wide class
		return true
	}

	for _, q := range ends {
		k := q - at
		if k > 0 && k <= len(reply)-4 && c02EndOfChunks.Match(reply[:k]) {
			return true
		}
	}

	return false
}
