package main

import (
	"encoding/json"
	"fmt"
	"math/rand"
	"regexp"
	"strings"
	"time"

	"github.com/scrapli/scrapligo/driver/generic"
	"github.com/scrapli/scrapligo/driver/network"
	"github.com/scrapli/scrapligo/driver/opoptions"
	"github.com/scrapli/scrapligo/driver/options"
	"github.com/scrapli/scrapligo/response"
	"github.com/scrapli/scrapligo/util"

	"verifharness/simdev"
)

// C01: scenarios of ChannelScn.tla replayed on generic / network drivers under several
// segmentations and delays; results and device log compared with the contract's prediction.

func init() { register("c01", c01) }

type c01Scn struct {
	ID       int      `json:"id"`
	NC       int      `json:"nc"`
	Prompt   string   `json:"prompt"`
	ReadSize int      `json:"readSize"`
	Strip    bool     `json:"strip"`
	Wrap     bool     `json:"wrap"`
	Exact    bool     `json:"exact"`
	Interim  bool     `json:"interim"`
	Depth    int      `json:"depth"`
	Cmds     []string `json:"cmds"`
	Outs     []string `json:"outs"`
	Expect   []string `json:"expect"`
	DevLog   []string `json:"devlog"`
	Early    bool     `json:"early"`
	// replay: run only this variant
	Variant string `json:"variant,omitempty"`
}

type c01Variant struct {
	name      string
	seg       simdev.Seg
	devDelay  time.Duration
	readDelay time.Duration
	driver    string // generic | network
	api       string // single | multi
}

func c01Variants(t string) []c01Variant {
	us := time.Microsecond
	v := []c01Variant{
		{"one/generic/single", simdev.Seg{Mode: "one"}, 0, 30 * us, "generic", "single"},
		{"whole/generic/multi", simdev.Seg{Mode: "whole"}, 0, 30 * us, "generic", "multi"},
		{"rand/network/single", simdev.Seg{Mode: "rand", Max: 6}, 20 * us, 60 * us, "network", "single"},
		{"rand/generic/single/slowdev", simdev.Seg{Mode: "rand", Max: 3}, 150 * us, 20 * us, "generic", "single"},
	}
	if t == "thorough" {
		v = append(v,
			c01Variant{"line/network/multi", simdev.Seg{Mode: "line"}, 0, 250 * us, "network", "multi"},
			c01Variant{"list/generic/single", simdev.Seg{Mode: "list", List: []int{2, 1, 5, 1, 1, 9}}, 10 * us, 100 * us, "generic", "single"},
			c01Variant{"rand/generic/multi/slowread", simdev.Seg{Mode: "rand", Max: 12}, 0, 1000 * us, "generic", "multi"},
			c01Variant{"one/network/single/slowdev", simdev.Seg{Mode: "one"}, 40 * us, 20 * us, "network", "single"},
		)
	}

	return v
}

type cmdSender interface {
	SendCommand(command string, opts ...util.Option) (*response.Response, error)
	SendCommands(commands []string, opts ...util.Option) (*response.MultiResponse, error)
	Close() error
}

func c01Run(s *c01Scn, va c01Variant, seedv int64) verdict {
	v := verdict{ID: s.ID, Variant: va.name, OK: true}
	rng := rand.New(rand.NewSource(seedv))
	prompt := concretise(s.Prompt, nil)
	cmds := make([]string, s.NC)
	outs := make([]string, s.NC)

	for i := 0; i < s.NC; i++ {
		cmds[i] = concretise(s.Cmds[i], nil)
		outs[i] = concretiseMax(s.Outs[i], rng, s.ReadSize)

		if strings.TrimSpace(s.Expect[i]) != "" {
			v.Nontrivial = true
		}
	}

	next := 0
	unexpected := []string{}
	cli := &simdev.CLI{
		Prompts: map[string]string{"m": prompt}, Mode: "m", Banner: "f \n", AlwaysEOL: true,
		Handler: func(c *simdev.CLI, line string) string {
			if next < len(cmds) && line == cmds[next] {
				next++

				return outs[next-1]
			}

			unexpected = append(unexpected, line)

			return "% bad command"
		},
	}

	if s.Wrap {
		cli.EchoWrap = 2
	}

	pipe := simdev.NewPipe(cli, seedv)
	pipe.Seg = va.seg
	pipe.ReadDelay = va.devDelay

	opts := []util.Option{
		options.WithCustomTransport(pipe),
		options.WithTransportReadSize(s.ReadSize),
		options.WithPromptSearchDepth(s.Depth),
		options.WithReadDelay(va.readDelay),
		options.WithTimeoutOps(4 * time.Second),
	}

	if s.ID%3 == 1 && len(outs) > 0 && len(strings.TrimSpace(outs[0])) >= 2 {
		// failure marking is switched on and the first answer is marked (as every platform definition does it): marking an
		// answer must not change what is returned for it or for the commands after it
		t := strings.TrimSpace(outs[0])
		opts = append(opts, options.WithFailedWhenContains([]string{t[:2]}))
	}

	var d cmdSender

	var err error

	switch va.driver {
	case "network":
		// a single-level tree whose pattern is the default prompt pattern: the joined pattern is that pattern
		lv := map[string]*network.PrivilegeLevel{"exec": {
			Name: "exec", Pattern: `(?im)^[a-z\d.\-@()/:]{1,48}[#>$]\s*$`,
		}}
		opts = append(opts, options.WithPrivilegeLevels(lv), options.WithDefaultDesiredPriv("exec"))

		var nd *network.Driver

		nd, err = network.NewDriver("sim", opts...)
		if err == nil {
			err = nd.Open()
			d = nd
		}
	default:
		var gd *generic.Driver

		gd, err = generic.NewDriver("sim", opts...)
		if err == nil {
			err = gd.Open()
			d = gd
		}
	}

	if err != nil {
		fail(&v, "C01:"+va.driver+":open-error", "open: %v", err)

		return v
	}

	var opOpts []util.Option
	if !s.Strip {
		opOpts = append(opOpts, opoptions.WithNoStripPrompt())
	}

	if s.Exact {
		opOpts = append(opOpts, opoptions.WithExactMatchInput())
	}

	if s.Interim {
		opOpts = append(opOpts, opoptions.WithInterimPromptPattern([]*regexp.Regexp{regexp.MustCompile(`(?m)^\(interim-\d+\)\s?$`)}))
	}

	got := []string{}

	fin, pan := withWatchdog(30*time.Second, func() {
		if va.api == "multi" {
			m, e := d.SendCommands(cmds, opOpts...)
			if e != nil {
				err = e

				return
			}

			for _, r := range m.Responses {
				got = append(got, r.Result)

				if string(r.RawResult) != r.Result {
					err = fmt.Errorf("RawResult %q differs from Result %q", r.RawResult, r.Result)
				}
			}

			return
		}

		for _, c := range cmds {
			r, e := d.SendCommand(c, opOpts...)
			if e != nil {
				err = e

				return
			}

			got = append(got, r.Result)

			if r.Input != c {
				err = fmt.Errorf("Response.Input %q differs from command %q", r.Input, c)
			}
		}
	})

	switch {
	case !fin:
		fail(&v, "C01:"+va.driver+":hang", "send did not return within 30 s")
	case pan != nil:
		fail(&v, "C01:"+va.driver+":panic", "panic: %v", pan)
	case err != nil:
		fail(&v, "C01:"+va.driver+":"+va.api+":error:"+errClass(err), "after %d results: %v", len(got), err)
	}

	if v.OK {
		if len(got) != s.NC {
			fail(&v, "C01:"+va.driver+":"+va.api+":response-count", "got %d responses for %d commands", len(got), s.NC)
		}

		for i := 0; v.OK && i < s.NC; i++ {
			want := concretise(s.Expect[i], nil)
			if got[i] != want {
				kind := "result-mismatch"
				if i > 0 {
					kind = "result-mismatch-later-command"
				}

				if s.Early {
					// the specification predicts this deviation (Text!EarlyEcho)
					fail(&v, "C01:echo-wait-satisfied-by-stale-bytes",
						"command %d %q: result %q, contract says %q (out %q, prompt %q)", i+1, cmds[i], got[i], want, outs[i], prompt)

					break
				}

				fail(&v, "C01:"+va.driver+":"+va.api+":"+kind,
					"command %d %q: result %q, contract says %q (out %q)", i+1, cmds[i], got[i], want, outs[i])
			}
		}
	}

	_, _ = withWatchdog(5*time.Second, func() { _ = d.Close() })

	// what the device received: every command followed by one return, in order (bare returns from the
	// network driver's prompt fetches are legal and ignored)
	pipe.Lock()
	lines := []string{}

	for _, r := range cli.Log {
		if r.Line != "" {
			lines = append(lines, r.Line)
		}
	}

	bare := len(cli.Log) - len(lines)
	unexp := append([]string(nil), unexpected...)
	pipe.Unlock()

	if v.OK {
		if strings.Join(lines, "\x00") != strings.Join(cmds, "\x00") || len(unexp) > 0 {
			fail(&v, "C01:"+va.driver+":devlog-mismatch", "device received lines %q, expected %q", lines, cmds)
		} else if va.driver == "generic" && bare != 0 {
			fail(&v, "C01:generic:extra-returns", "device received %d bare returns besides the commands", bare)
		}
	}

	return v
}

func c01(_ []string) error {
	var scns []*c01Scn

	if err := readScenarios(func(raw json.RawMessage) error {
		s := &c01Scn{}
		if err := json.Unmarshal(raw, s); err != nil {
			return err
		}

		scns = append(scns, s)

		return nil
	}); err != nil {
		return err
	}

	vars := c01Variants(tier())

	type job struct {
		s  *c01Scn
		va c01Variant
	}

	var jobs []job

	for _, s := range scns {
		for _, va := range vars {
			if s.Variant != "" && s.Variant != va.name {
				continue
			}

			jobs = append(jobs, job{s, va})
		}
	}

	parallel(len(jobs), 8, func(i int) {
		j := jobs[i]
		emit(c01Run(j.s, j.va, seed()*1000003+int64(j.s.ID)*31+int64(i%7)))
	})

	return nil
}
