package main

import (
	"encoding/json"
	"fmt"
	"math/rand"
	"os"
	"path/filepath"
	"regexp"
	"strings"
	"time"

	"github.com/scrapli/scrapligo/channel"
	"github.com/scrapli/scrapligo/driver/generic"
	"github.com/scrapli/scrapligo/driver/network"
	"github.com/scrapli/scrapligo/driver/opoptions"
	"github.com/scrapli/scrapligo/driver/options"
	"github.com/scrapli/scrapligo/response"
	"github.com/scrapli/scrapligo/util"

	"verifharness/simdev"
)

// C01: scenarios of ChannelScn.tla replayed on generic / network drivers under several
// segmentations and delays; results and device log compared with the contract's prediction.

func init() { register("c01", c01) }

type c01Scn struct {
	ID       int      `json:"id"`
	NC       int      `json:"nc"`
	Prompt   string   `json:"prompt"`
	ReadSize int      `json:"readSize"`
	Strip    bool     `json:"strip"`
	Wrap     bool     `json:"wrap"`
	Brk      bool     `json:"brk"`
	Exact    bool     `json:"exact"`
	Interim  bool     `json:"interim"`
	Depth    int      `json:"depth"`
	Cmds     []string `json:"cmds"`
	Outs     []string `json:"outs"`
	Expect   []string `json:"expect"`
	// ExpectEmpty: the result the contract gives for an empty command
	ExpectEmpty string   `json:"expectempty"`
	DevLog      []string `json:"devlog"`
	Early       bool     `json:"early"`
	// replay: run only this variant
	Variant string `json:"variant,omitempty"`
}

type c01Variant struct {
	name      string
	seg       simdev.Seg
	devDelay  time.Duration
	readDelay time.Duration
	driver    string // generic | network
	api       string // single | multi
}

func c01Variants(t string) []c01Variant {
	us := time.Microsecond
	v := []c01Variant{
		{"one/generic/single", simdev.Seg{Mode: "one"}, 0, 30 * us, "generic", "single"},
		{"whole/generic/multi", simdev.Seg{Mode: "whole"}, 0, 30 * us, "generic", "multi"},
		{"rand/network/single", simdev.Seg{Mode: "rand", Max: 6}, 20 * us, 60 * us, "network", "single"},
		{"rand/generic/single/slowdev", simdev.Seg{Mode: "rand", Max: 3}, 150 * us, 20 * us, "generic", "single"},
	}
	if t == "thorough" {
		v = append(v,
			c01Variant{"line/network/multi", simdev.Seg{Mode: "line"}, 0, 250 * us, "network", "multi"},
			c01Variant{"list/generic/single", simdev.Seg{Mode: "list", List: []int{2, 1, 5, 1, 1, 9}}, 10 * us, 100 * us, "generic", "single"},
			c01Variant{"rand/generic/multi/slowread", simdev.Seg{Mode: "rand", Max: 12}, 0, 1000 * us, "generic", "multi"},
			c01Variant{"one/network/single/slowdev", simdev.Seg{Mode: "one"}, 40 * us, 20 * us, "network", "single"},
		)
	}

	return v
}

type cmdSender interface {
	SendCommand(command string, opts ...util.Option) (*response.Response, error)
	SendCommands(commands []string, opts ...util.Option) (*response.MultiResponse, error)
	SendCommandsFromFile(f string, opts ...util.Option) (*response.MultiResponse, error)
	Close() error
}

func c01Run(s *c01Scn, va c01Variant, seedv int64) verdict {
	v := verdict{ID: s.ID, Variant: va.name, OK: true}
	rng := rand.New(rand.NewSource(seedv))
	prompt := concretise(s.Prompt, nil)
	cmds := make([]string, s.NC)
	outs := make([]string, s.NC)

	for i := 0; i < s.NC; i++ {
		cmds[i] = concretise(s.Cmds[i], nil)
		outs[i] = concretiseMax(s.Outs[i], rng, s.ReadSize)

		if strings.TrimSpace(s.Expect[i]) != "" {
			v.Nontrivial = true
		}
	}

	// one session in seven ends with an empty command (a bare return, to get a fresh prompt): nothing is echoed, the result is
	// empty, the device receives exactly one return for it
	emptyLast := s.ID%7 == 2 && !(va.api == "multi" && s.ID%4 == 2) // (not when the commands come from a file)
	expects := append([]string(nil), s.Expect...)

	if emptyLast {
		cmds = append(cmds, "")
		outs = append(outs, "")
		expects = append(expects, s.ExpectEmpty) // Text!Post of the device's answer to a bare return (ChannelScn.tla)
	}

	nc := len(cmds)

	next := 0
	unexpected := []string{}
	cli := &simdev.CLI{
		Prompts: map[string]string{"m": prompt}, Mode: "m", Banner: "f \n", AlwaysEOL: true,
		Handler: func(c *simdev.CLI, line string) string {
			if next < len(cmds) && line == cmds[next] {
				next++

				return outs[next-1]
			}

			unexpected = append(unexpected, line)

			return "% bad command"
		},
	}

	cli.EchoBreak = s.Brk

	if s.Wrap {
		cli.EchoWrap = 2
	}

	// a console that wants a carriage return for the return key, and a driver told so
	crReturn := s.ID%5 == 3
	if crReturn {
		cli.Return = '\r'
	}

	pipe := simdev.NewPipe(cli, seedv)
	pipe.Seg = va.seg
	pipe.ReadDelay = va.devDelay
	// one session in five: the transport hands every read out in the same buffer (what the library keeps, it has to copy)
	pipe.ReuseBuf = s.ID%5 == 1

	opts := []util.Option{
		options.WithCustomTransport(pipe),
		options.WithTransportReadSize(s.ReadSize),
		options.WithPromptSearchDepth(s.Depth),
		options.WithReadDelay(va.readDelay),
		options.WithTimeoutOps(4 * time.Second),
	}

	if crReturn {
		opts = append(opts, options.WithReturnChar("\r"))
	}

	if s.ID%3 == 1 && len(outs) > 0 && len(strings.TrimSpace(outs[0])) >= 2 {
		// failure marking is switched on and the first answer is marked (as every platform definition does it): marking an
		// answer must not change what is returned for it or for the commands after it
		t := strings.TrimSpace(outs[0])
		opts = append(opts, options.WithFailedWhenContains([]string{t[:2]}))
	}

	var d cmdSender

	var err error

	switch va.driver {
	case "network":
		// a single-level tree whose pattern is the default prompt pattern: the joined pattern is that pattern
		lv := map[string]*network.PrivilegeLevel{"exec": {
			Name: "exec", Pattern: `(?im)^[a-z\d.\-@()/:]{1,48}[#>$]\s*$`,
		}}
		opts = append(opts, options.WithPrivilegeLevels(lv), options.WithDefaultDesiredPriv("exec"))

		var nd *network.Driver

		nd, err = network.NewDriver("sim", opts...)
		if err == nil {
			err = nd.Open()
			d = nd
		}
	default:
		var gd *generic.Driver

		gd, err = generic.NewDriver("sim", opts...)
		if err == nil {
			err = gd.Open()
			d = gd
		}
	}

	if err != nil {
		fail(&v, "C01:"+va.driver+":open-error", "open: %v", err)

		return v
	}

	var opOpts []util.Option
	if !s.Strip {
		opOpts = append(opOpts, opoptions.WithNoStripPrompt())
	}

	if s.Exact {
		opOpts = append(opOpts, opoptions.WithExactMatchInput())
	}

	if s.Interim {
		opOpts = append(opOpts, opoptions.WithInterimPromptPattern([]*regexp.Regexp{regexp.MustCompile(`(?m)^\(interim-\d+\)\s?$`)}))
	}

	got := []string{}

	fin, pan := withWatchdog(30*time.Second, func() {
		if va.api == "multi" {
			var m *response.MultiResponse

			var e error

			if s.ID%4 == 2 {
				// the same commands from a file: LF or CR LF line ends, with or without one after the last line
				eol := "\n"
				if s.ID%8 == 2 {
					eol = "\r\n"
				}

				content := strings.Join(cmds, eol)
				if s.ID%3 != 0 {
					content += eol
				}

				f := filepath.Join(os.TempDir(), fmt.Sprintf("c01-%d-%d-%s.txt", os.Getpid(), s.ID, strings.ReplaceAll(va.name, "/", "_")))
				if werr := os.WriteFile(f, []byte(content), 0o600); werr != nil {
					panic(werr)
				}

				defer os.Remove(f)

				m, e = d.SendCommandsFromFile(f, opOpts...)
			} else {
				m, e = d.SendCommands(cmds, opOpts...)
			}

			if e != nil {
				err = e

				return
			}

			for _, r := range m.Responses {
				got = append(got, r.Result)

				if string(r.RawResult) != r.Result {
					err = fmt.Errorf("RawResult %q differs from Result %q", r.RawResult, r.Result)
				}
			}

			return
		}

		for _, c := range cmds {
			r, e := d.SendCommand(c, opOpts...)
			if e != nil {
				err = e

				return
			}

			got = append(got, r.Result)

			if r.Input != c {
				err = fmt.Errorf("Response.Input %q differs from command %q", r.Input, c)
			}
		}
	})

	switch {
	case !fin:
		fail(&v, "C01:"+va.driver+":hang", "send did not return within 30 s")
	case pan != nil:
		fail(&v, "C01:"+va.driver+":panic", "panic: %v", pan)
	case err != nil:
		fail(&v, "C01:"+va.driver+":"+va.api+":error:"+errClass(err), "after %d results: %v", len(got), err)
	}

	if v.OK {
		if len(got) != nc {
			fail(&v, "C01:"+va.driver+":"+va.api+":response-count", "got %d responses for %d commands", len(got), nc)
		}

		for i := 0; v.OK && i < nc; i++ {
			want := concretise(expects[i], nil)
			if got[i] != want {
				kind := "result-mismatch"
				if i > 0 {
					kind = "result-mismatch-later-command"
				}

				if s.Early {
					// the specification predicts this deviation (Text!EarlyEcho)
					fail(&v, "C01:echo-wait-satisfied-by-stale-bytes",
						"command %d %q: result %q, contract says %q (out %q, prompt %q)", i+1, cmds[i], got[i], want, outs[i], prompt)

					break
				}

				fail(&v, "C01:"+va.driver+":"+va.api+":"+kind,
					"command %d %q: result %q, contract says %q (out %q)", i+1, cmds[i], got[i], want, outs[i])
			}
		}
	}

	_, _ = withWatchdog(5*time.Second, func() { _ = d.Close() })

	// what the device received: every command followed by one return, in order (bare returns from the
	// network driver's prompt fetches are legal and ignored)
	pipe.Lock()
	lines := []string{}

	for _, r := range cli.Log {
		if r.Line != "" {
			lines = append(lines, r.Line)
		}
	}

	bare := len(cli.Log) - len(lines)
	unexp := append([]string(nil), unexpected...)
	pipe.Unlock()

	if v.OK {
		wantLines, wantBare := cmds, 0
		if emptyLast {
			wantLines, wantBare = cmds[:nc-1], 1
		}

		if strings.Join(lines, "\x00") != strings.Join(wantLines, "\x00") || len(unexp) > 0 {
			fail(&v, "C01:"+va.driver+":devlog-mismatch", "device received lines %q, expected %q", lines, wantLines)
		} else if va.driver == "generic" && bare != wantBare {
			fail(&v, "C01:generic:extra-returns", "device received %d bare returns besides the commands, expected %d", bare, wantBare)
		}
	}

	return v
}

// c01Reopen: a history instead of a session. The first command of the scenario is sent to a device that is busy: not even
// the echo arrives, the send times out. The caller closes the driver; while the close is under way (the read loop is still
// inside its transport read) the device's late bytes arrive. The same driver object is opened again - a new session, the
// device greets it with banner and prompt - and the same command is sent again: it returns exactly its own output and the
// device receives exactly the command and one return, whatever the old session left behind.
func c01Reopen(s *c01Scn) verdict {
	va := s.Variant
	v := verdict{ID: s.ID, Variant: va, OK: true, Nontrivial: true}
	rng := rand.New(rand.NewSource(int64(s.ID)))
	prompt := concretise(s.Prompt, nil)
	cmd := concretise(s.Cmds[0], nil)
	out := concretiseMax(s.Outs[0], rng, s.ReadSize)
	want := concretise(s.Expect[0], nil)

	var unexpected []string

	cli := &simdev.CLI{
		Prompts: map[string]string{"m": prompt}, Mode: "m", StartMode: "m", Banner: "f \n", AlwaysEOL: true,
		Handler: func(c *simdev.CLI, line string) string {
			if line == cmd {
				return out
			}

			unexpected = append(unexpected, line)

			return "% bad command"
		},
	}
	cli.EchoBreak = s.Brk

	if s.Wrap {
		cli.EchoWrap = 2
	}

	pipe := simdev.NewPipe(cli, int64(s.ID))
	pipe.Seg = simdev.Seg{Mode: "rand", Max: 6}

	if strings.Contains(va, "whole") {
		pipe.Seg = simdev.Seg{Mode: "whole"}
	}

	opts := []util.Option{
		options.WithCustomTransport(pipe), options.WithTransportReadSize(s.ReadSize), options.WithPromptSearchDepth(s.Depth),
		options.WithReadDelay(30 * time.Microsecond), options.WithTimeoutOps(3 * time.Second),
	}

	var d cmdSender

	var ch *channel.Channel

	var err error

	open := func() error { return nil }

	if strings.Contains(va, "network") {
		lv := map[string]*network.PrivilegeLevel{"exec": {Name: "exec", Pattern: `(?im)^[a-z\d.\-@()/:]{1,48}[#>$]\s*$`}}
		opts = append(opts, options.WithPrivilegeLevels(lv), options.WithDefaultDesiredPriv("exec"))

		var nd *network.Driver

		if nd, err = network.NewDriver("sim", opts...); err == nil {
			d, ch, open = nd, nd.Channel, nd.Open
		}
	} else {
		var gd *generic.Driver

		if gd, err = generic.NewDriver("sim", opts...); err == nil {
			d, ch, open = gd, gd.Channel, gd.Open
		}
	}

	if err == nil {
		err = open()
	}

	if err != nil {
		v.OK, v.Sig, v.Detail = false, "TOOL", fmt.Sprintf("first open: %v", err)

		return v
	}

	var opOpts []util.Option
	if !s.Strip {
		opOpts = append(opOpts, opoptions.WithNoStripPrompt())
	}

	if s.Exact {
		opOpts = append(opOpts, opoptions.WithExactMatchInput())
	}

	// session 1: the device is busy
	pipe.WaitDrained(time.Second)
	time.Sleep(2 * time.Millisecond)
	pipe.Mark()
	pipe.SetStall(0)

	ch.TimeoutOps = 150 * time.Millisecond

	var e1 error

	fin, pan := withWatchdog(10*time.Second, func() { _, e1 = d.SendCommand(cmd, opOpts...) })
	if !fin || pan != nil || e1 == nil {
		v.OK, v.Sig, v.Detail = false, "TOOL", fmt.Sprintf("the send to the busy device: fin=%v panic=%v err=%v", fin, pan, e1)

		return v
	}

	ch.TimeoutOps = 3 * time.Second

	// the late bytes arrive while Close is waiting for the read loop
	g := &gate{reached: map[string]bool{}, at: "C_wait", atFn: func() {
		pipe.SetStall(-1)
		pipe.WaitDrained(500 * time.Millisecond)
		time.Sleep(3 * time.Millisecond)
	}}
	curGate.Store(g)

	var e2 error

	fin, pan = withWatchdog(10*time.Second, func() {
		_ = d.Close()
		e2 = open()
	})

	curGate.Store((*gate)(nil))

	if !fin || pan != nil || e2 != nil {
		v.OK, v.Sig, v.Detail = false, "TOOL", fmt.Sprintf("close and open again: fin=%v panic=%v err=%v", fin, pan, e2)

		return v
	}

	pipe.Lock()
	logPos := len(cli.Log)
	pipe.Unlock()

	var r *response.Response

	fin, pan = withWatchdog(10*time.Second, func() { r, err = d.SendCommand(cmd, opOpts...) })

	switch {
	case !fin:
		fail(&v, "C01:reopen:hang", "the send in the second session did not return")
	case pan != nil:
		fail(&v, "C01:reopen:panic", "%v", pan)
	case err != nil:
		fail(&v, "C01:reopen:error:"+errClass(err), "the send in the second session (late bytes of the first arrived during its Close: %v): %v", g.atFired, err)
	case r.Result != want:
		fail(&v, "C01:reopen:result-mismatch", "second session on the same driver, command %q: result %q, contract says %q (out %q; the first session's send had timed out, its late bytes arrived during Close)", cmd, r.Result, want, out)
	}

	_, _ = withWatchdog(5*time.Second, func() { _ = d.Close() })

	pipe.Lock()
	lines := []string{}

	for _, rc := range cli.Log[logPos:] {
		if rc.Line != "" {
			lines = append(lines, rc.Line)
		}
	}
	pipe.Unlock()

	if v.OK && (len(lines) != 1 || lines[0] != cmd) {
		fail(&v, "C01:reopen:devlog-mismatch", "in the second session the device received lines %q, expected [%q]", lines, cmd)
	}

	if v.OK && !g.atFired {
		v.OK, v.Sig, v.Detail = false, "TOOL", "Close never reached the point at which the late bytes are released"
	}

	return v
}

func c01(_ []string) error {
	var scns []*c01Scn

	if err := readScenarios(func(raw json.RawMessage) error {
		s := &c01Scn{}
		if err := json.Unmarshal(raw, s); err != nil {
			return err
		}

		scns = append(scns, s)

		return nil
	}); err != nil {
		return err
	}

	vars := c01Variants(tier())

	type job struct {
		s  *c01Scn
		va c01Variant
	}

	var jobs []job

	var histories []*c01Scn

	for _, s := range scns {
		if strings.HasPrefix(s.Variant, "reopen/") {
			histories = append(histories, s)

			continue
		}

		for _, va := range vars {
			if s.Variant != "" && s.Variant != va.name {
				continue
			}

			jobs = append(jobs, job{s, va})
		}
	}

	parallel(len(jobs), 8, func(i int) {
		j := jobs[i]
		emit(c01Run(j.s, j.va, seed()*1000003+int64(j.s.ID)*31+int64(i%7)))
	})

	// the histories use the yield points of the library, which are process-wide: one at a time, after everything else
	for _, s := range histories {
		emit(c01Reopen(s))
	}

	return nil
}
