package main

import (
	"encoding/json"
	"fmt"
	"regexp"
	"sort"
	"strings"
	"time"

	"github.com/scrapli/scrapligo/channel"
	"github.com/scrapli/scrapligo/driver/generic"
	"github.com/scrapli/scrapligo/driver/netconf"
	"github.com/scrapli/scrapligo/driver/network"
	"github.com/scrapli/scrapligo/driver/opoptions"
	"github.com/scrapli/scrapligo/util"
)

// opopts: every option list of OpOptions.tla handed to NewOperation of the four layers; the settings each layer ends up with
// are compared, field by field, with the fold the specification computes.
//   vh opopts < scenarios

func init() { register("opopts", opopts) }

type opoptsScn struct {
	ID     int                          `json:"id"`
	Opts   []string                     `json:"opts"`
	Expect map[string]map[string]string `json:"expect"`
}

func opoptMake(name string) (util.Option, error) {
	base, arg := name, ""
	if i := strings.Index(name, ":"); i >= 0 {
		base, arg = name[:i], name[i+1:]
	}

	pats := func(a string) []*regexp.Regexp {
		return []*regexp.Regexp{regexp.MustCompile("pat-" + a + "-a"), regexp.MustCompile("pat-" + a + "-b")}
	}

	switch base {
	case "WithNoStripPrompt":
		return opoptions.WithNoStripPrompt(), nil
	case "WithEager":
		return opoptions.WithEager(), nil
	case "WithExactMatchInput":
		return opoptions.WithExactMatchInput(), nil
	case "WithTimeoutOps":
		var v int

		fmt.Sscanf(arg, "%d", &v)

		return opoptions.WithTimeoutOps(time.Duration(v) * time.Second), nil
	case "WithCompletePatterns":
		return opoptions.WithCompletePatterns(pats(arg)), nil
	case "WithInterimPromptPattern":
		return opoptions.WithInterimPromptPattern(pats(arg)), nil
	case "WithStopOnFailed":
		return opoptions.WithStopOnFailed(), nil
	case "WithFailedWhenContains":
		return opoptions.WithFailedWhenContains([]string{"fw-" + arg + "-a", "fw-" + arg + "-b"}), nil
	case "WithPrivilegeLevel":
		return opoptions.WithPrivilegeLevel("level-" + arg), nil
	case "WithFilterType":
		return opoptions.WithFilterType(arg), nil
	case "WithDefaultType":
		return opoptions.WithDefaultType("default-" + arg), nil
	case "WithFilter":
		return opoptions.WithFilter("<f" + arg + "/>"), nil
	case "WithCommitConfirmed":
		return opoptions.WithCommitConfirmed(), nil
	case "WithCommitConfirmTimeout":
		var v uint

		fmt.Sscanf(arg, "%d", &v)

		return opoptions.WithCommitConfirmTimeout(v), nil
	case "WithCommitConfirmedPersist":
		return opoptions.WithCommitConfirmedPersist("persist-" + arg), nil
	case "WithCommitConfirmedPersistID":
		return opoptions.WithCommitConfirmedPersistID("persist-id-" + arg), nil
	}

	return nil, fmt.Errorf("unknown option %q", name)
}

// the real settings turned back into the tags of the specification
func opoptTag(kind, s string) string {
	switch kind {
	case "pats":
		if s == "" {
			return ""
		}

		if m := regexp.MustCompile(`^pat-(\w+)-a\|pat-(\w+)-b$`).FindStringSubmatch(s); m != nil && m[1] == m[2] {
			return m[1]
		}
	case "fw":
		if s == "" {
			return ""
		}

		if m := regexp.MustCompile(`^fw-(\w+)-a\|fw-(\w+)-b$`).FindStringSubmatch(s); m != nil && m[1] == m[2] {
			return m[1]
		}
	case "prefix":
		return s
	}

	return "?" + s
}

func strip(s, prefix, suffix string) string {
	if s == "" {
		return ""
	}

	if strings.HasPrefix(s, prefix) && strings.HasSuffix(s, suffix) {
		return s[len(prefix) : len(s)-len(suffix)]
	}

	return "?" + s
}

func dur(d time.Duration) string {
	if d == -1 {
		return "default"
	}

	if d%time.Second == 0 {
		return fmt.Sprint(int(d / time.Second))
	}

	return "?" + d.String()
}

func joinPats(p []*regexp.Regexp) string {
	s := make([]string, len(p))
	for i, r := range p {
		s[i] = r.String()
	}

	return strings.Join(s, "|")
}

func opoptsOne(s *opoptsScn) verdict {
	v := verdict{ID: s.ID, Variant: strings.Join(s.Opts, ","), OK: true, Nontrivial: len(s.Opts) > 0}

	var opts []util.Option

	for _, n := range s.Opts {
		o, err := opoptMake(n)
		if err != nil {
			v.OK, v.Sig, v.Detail = false, "TOOL", err.Error()

			return v
		}

		opts = append(opts, o)
	}

	got := map[string]map[string]string{}

	var errs []string

	func() {
		defer func() {
			if r := recover(); r != nil {
				errs = append(errs, fmt.Sprintf("panic: %v", r))
			}
		}()

		if c, err := channel.NewOperation(opts...); err != nil {
			errs = append(errs, "channel: "+err.Error())
		} else {
			got["channel"] = map[string]string{"StripPrompt": fmt.Sprint(c.StripPrompt), "Eager": fmt.Sprint(c.Eager), "ExactMatchInput": fmt.Sprint(c.ExactMatchInput), "Timeout": dur(c.Timeout),
				"CompletePatterns": opoptTag("pats", joinPats(c.CompletePatterns)), "InterimPromptPatterns": opoptTag("pats", joinPats(c.InterimPromptPatterns))}
		}

		if g, err := generic.NewOperation(opts...); err != nil {
			errs = append(errs, "generic: "+err.Error())
		} else {
			got["generic"] = map[string]string{"StopOnFailed": fmt.Sprint(g.StopOnFailed), "FailedWhenContains": opoptTag("fw", strings.Join(g.FailedWhenContains, "|"))}
		}

		if n, err := network.NewOperation(opts...); err != nil {
			errs = append(errs, "network: "+err.Error())
		} else {
			got["network"] = map[string]string{"PrivilegeLevel": strip(n.PrivilegeLevel, "level-", "")}
		}

		if c, err := netconf.NewOperation(opts...); err != nil {
			errs = append(errs, "netconf: "+err.Error())
		} else {
			got["netconf"] = map[string]string{"Filter": strip(c.Filter, "<f", "/>"), "FilterType": c.FilterType, "DefaultType": strip(c.DefaultType, "default-", ""), "Timeout": dur(c.Timeout),
				"CommitConfirmed": fmt.Sprint(c.CommitConfirmed), "CommitConfirmTimeout": fmt.Sprint(c.CommitConfirmTimeout),
				"CommitConfirmedPersist": strip(c.CommitConfirmedPersist, "persist-", ""), "CommitConfirmedPersistID": strip(c.CommitConfirmedPersistID, "persist-id-", "")}
		}
	}()

	// one entry per deviating field: "<layer>.<field>" -> got / want; the caller judges the fields its property relies on
	dev := map[string]string{}

	for _, e := range errs {
		dev["error"] = e
	}

	layers := make([]string, 0, len(s.Expect))
	for l := range s.Expect {
		layers = append(layers, l)
	}

	sort.Strings(layers)

	for _, l := range layers {
		for f, want := range s.Expect[l] {
			if g, ok := got[l][f]; !ok || g != want {
				dev[l+"."+f] = fmt.Sprintf("is %q, the fold over %v says %q", got[l][f], s.Opts, want)
			}
		}
	}

	v.Extra = map[string]interface{}{"deviations": dev}

	return v
}

func opopts(_ []string) error {
	return readScenarios(func(raw json.RawMessage) error {
		s := &opoptsScn{}
		if err := json.Unmarshal(raw, s); err != nil {
			return err
		}

		emit(opoptsOne(s))

		return nil
	})
}
