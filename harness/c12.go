package main

import (
	"bytes"
	"encoding/json"
	"fmt"
	"os"
	"regexp"
	"strings"
	"sync"
	"time"

	"github.com/scrapli/scrapligo/channel"
	"github.com/scrapli/scrapligo/driver/generic"
	"github.com/scrapli/scrapligo/driver/network"
	"github.com/scrapli/scrapligo/driver/opoptions"
	"github.com/scrapli/scrapligo/driver/options"
	"github.com/scrapli/scrapligo/logging"
	"github.com/scrapli/scrapligo/util"

	"verifharness/simdev"
)

// C12 (pacing, secrets only at their prompt) and C11 (no secret in logs) on interactive dialogues, plain commands
// and privilege escalations of InteractiveScn.tla.
//   vh c12 -out pacing.ndjson [-logtrace log.ndjson] < scenarios

func init() { register("c12", c12) }

type c12Event struct {
	Hidden bool `json:"hidden"`
	Resp   bool `json:"resp"`
	Noisy  bool `json:"noisy"`
}

type c12Scn struct {
	ID      int        `json:"id"`
	Kind    string     `json:"kind"`
	Events  []c12Event `json:"events"`
	Early   bool       `json:"early"`
	Esc     string     `json:"esc"`
	DelayUs int        `json:"delayus"`
	Long    bool       `json:"long"`
	Stale   bool       `json:"stale"`
	Fault   string     `json:"fault,omitempty"` // C11: "" | "werr-on-secret" | "rerr-after-secret"
}

const c12Hidden = "h1dd3n-%s[x]+"

func c12Device(s *c12Scn) (*simdev.CLI, []*channel.SendInteractiveEvent, []string) {
	cli := stdCLI("exec")
	if s.Kind == "interactive-network" {
		cli.Mode = "privilege-exec"
	}

	var events []*channel.SendInteractiveEvent

	var phrases []string

	base := cli.Handler
	n := len(s.Events)
	input := func(j int) string {
		if s.Events[j].Hidden {
			return fmt.Sprintf("%s%d", c12Hidden, j)
		}

		return fmt.Sprintf("step%d go", j+1)
	}

	var ask func(j int) *simdev.Ask

	respText := func(j int) string {
		t := ""
		if s.Events[j].Noisy && !s.Early {
			t = "%LOG-5-ASYNC: link flap\r\n" + cli.Prompts[cli.Mode] + "\r\n"
		}

		if s.Long && !s.Early {
			var l strings.Builder
			for k := 0; k < 45; k++ {
				fmt.Fprintf(&l, "  -rw-  %6d  file-%d-%03d.cfg\r\n", 1000+k, j+1, k)
			}

			t = l.String() + t
		}

		return t + fmt.Sprintf("Confirm step%d? [y/n]: ", j+1)
	}

	ask = func(j int) *simdev.Ask {
		// the question shown after event j (0-based); its answer is event j+1
		return &simdev.Ask{Prompt: respText(j), Echo: j+1 < n && !s.Events[j+1].Hidden, OnAnswer: func(c *simdev.CLI, _ string) string {
			nj := j + 1
			if nj < n-1 || (nj == n-1 && s.Events[nj].Resp) {
				if s.Early && nj == n-2 {
					return "finished early" // the device is done: back to the prompt although more events are listed
				}

				if nj < n-1 {
					c.Pending = ask(nj)
				}
			}

			return fmt.Sprintf("done%d", nj+1)
		}}
	}

	cli.Handler = func(c *simdev.CLI, line string) string {
		if line == input(0) && !s.Events[0].Hidden {
			if n > 1 {
				if s.Early && n == 2 {
					return "finished early"
				}

				c.Pending = ask(0)

				return ""
			}

			return "done1"
		}

		return base(c, line)
	}

	for j := range s.Events {
		ev := &channel.SendInteractiveEvent{ChannelInput: input(j), HideInput: s.Events[j].Hidden}
		if j < n-1 {
			ev.ChannelResponse = fmt.Sprintf(`step%d\? \[y/n\]:`, j+1)
			phrases = append(phrases, fmt.Sprintf("Confirm step%d?", j+1))

			if s.Long && !s.Early {
				phrases = append(phrases, fmt.Sprintf("file-%d-000.cfg", j+1), fmt.Sprintf("file-%d-044.cfg", j+1))
			}
		}

		events = append(events, ev)
	}

	return cli, events, phrases
}

const c12LogLine = "%SYS-6-LOGGING: console logging of level notifications enabled"

func c12Run(s *c12Scn, pace *json.Encoder, logEnc *json.Encoder, mu *sync.Mutex) verdict {
	v := verdict{ID: s.ID, Variant: s.Kind, OK: true, Nontrivial: true}
	cli, events, phrases := c12Device(s)

	if len(s.Events) > 0 && s.Events[0].Hidden && strings.HasPrefix(s.Kind, "interactive") {
		// the first event is typed at the command prompt: keep it visible (a hidden first input has no question to answer)
		s.Events[0].Hidden = false
		cli, events, phrases = c12Device(s)
	}

	secret := stdSecret

	var onSecret func()

	if s.Kind == "escalate" || s.Kind == "escalate-onopen" {
		enable := func(c *simdev.CLI) string {
			switch s.Esc {
			case "grants":
				c.Mode = "privilege-exec"

				if s.ID%2 == 0 {
					// the prompt is not the last thing in this piece of output: a console log line stands behind it
					c.AfterPromptOnce = "\r\n" + c12LogLine
				}

				return ""
			case "refuses":
				if s.ID%2 == 0 {
					c.AfterPromptOnce = "\r\n" + c12LogLine
				}

				return "% Access denied"
			}

			c.Pending = &simdev.Ask{Prompt: "Password: ", OnAnswer: func(c *simdev.CLI, a string) string {
				if s.Fault == "rerr-after-secret" && onSecret != nil {
					onSecret()
				}

				if a == secret && s.Esc == "asks" {
					c.Mode = "privilege-exec"

					return ""
				}

				return "% Bad secrets"
			}}

			return ""
		}
		base := cli.Handler
		cli.Handler = func(c *simdev.CLI, line string) string {
			if line == "enable" && c.Mode == "exec" {
				return enable(c)
			}

			return base(c, line)
		}
	}

	if s.Stale && (s.Kind == "escalate" || s.Kind == "escalate-noauth") {
		cli.AfterBare = "%SYS-5-CONFIG_I: Configured from console by vty0"
	}

	pipe := simdev.NewPipe(cli, int64(s.ID))
	pipe.Seg = simdev.Seg{Mode: "rand", Max: 11}
	pipe.RecordTrace = true
	pipe.ReactDelay = time.Duration(s.DelayUs) * time.Microsecond
	// the connection breaks the moment the secret has been received: the answer to it never arrives (every other session in
	// three: after the answer has been delivered)
	onSecret = func() {
		if s.ID%3 == 2 {
			pipe.LoseAtEnd = "err"
		} else {
			pipe.LoseFromHere("err")
		}
	}

	capDebug := &logCapture{}
	li, _ := logging.NewInstance(logging.WithLevel("debug"), logging.WithLogger(capDebug.log))
	chanLog := &bytes.Buffer{}
	chanLogMu := &sync.Mutex{}
	opts := []util.Option{options.WithCustomTransport(pipe), options.WithReadDelay(30 * time.Microsecond), options.WithTimeoutOps(1500 * time.Millisecond),
		options.WithLogger(li), options.WithChannelLog(lockedWriter{chanLog, chanLogMu})}

	var gd *generic.Driver

	var nd *network.Driver

	var err error

	if s.Kind == "escalate-onopen" {
		// the escalation runs inside the network on-open hook (as every shipped platform does)
		if s.Fault == "werr-on-secret" {
			pipe.ArmWriteFailure(3)
		}

		opts = append(opts, options.WithNetworkOnOpen(func(d *network.Driver) error { return d.AcquirePriv("privilege-exec") }))
		nd, err = network.NewDriver("sim", append(opts, options.WithPrivilegeLevels(stdLevels()), options.WithDefaultDesiredPriv("privilege-exec"), options.WithAuthSecondary(secret))...)

		var oerr error

		if err == nil {
			_, _ = withWatchdog(10*time.Second, func() { oerr = nd.Open() })
		}

		c12Logs(s, capDebug, chanLog, chanLogMu, logEnc, mu, secret, errClass(oerr))

		if oerr == nil && err == nil {
			_, _ = withWatchdog(3*time.Second, func() { _ = nd.Close() })
		}

		return v
	}

	if s.Kind == "escalate-noauth" {
		cli.Mode = "privilege-exec"
	}

	if s.Kind == "escalate" || s.Kind == "interactive-network" || s.Kind == "escalate-noauth" {
		nd, err = network.NewDriver("sim", append(opts, options.WithPrivilegeLevels(stdLevels()), options.WithDefaultDesiredPriv("privilege-exec"), options.WithAuthSecondary(secret))...)
		if err == nil {
			err = nd.Open()
			gd = nd.Driver
		}
	} else {
		gd, err = generic.NewDriver("sim", opts...)
		if err == nil {
			err = gd.Open()
		}
	}

	if err != nil {
		fail(&v, "C12:open-error", "%v", err)

		return v
	}

	defer func() { _, _ = withWatchdog(3*time.Second, func() { _ = gd.Channel.Close() }) }()

	// consume banner and first prompt so that the operation's stream starts clean
	{
		if _, err = gd.SendCommand("show z8"); err != nil {
			fail(&v, "C12:harness:warmup", "%v", err)

			return v
		}
	}

	if strings.HasPrefix(s.Kind, "interactive") && s.Long && !s.Early && len(events) > 1 && s.ID%2 == 0 {
		// an earlier dialogue with the SAME event objects, whose expected responses then named something the device prints much
		// earlier (the first line of its listing): the caller edits the events afterwards - the dialogue under observation waits
		// for what the events say NOW
		saved := make([]string, len(events))

		for j, ev := range events {
			saved[j] = ev.ChannelResponse

			if ev.ChannelResponse != "" {
				ev.ChannelResponse = fmt.Sprintf(`file-%d-000\.cfg`, j+1)
			}
		}

		_, _ = withWatchdog(10*time.Second, func() { _, _ = gd.SendInteractive(events) })

		for j, ev := range events {
			ev.ChannelResponse = saved[j]
		}

		pipe.WaitDrained(time.Second)
		time.Sleep(2 * time.Millisecond)

		for {
			b, _ := gd.Channel.ReadAll()
			if b == nil {
				break
			}
		}

		if _, err = gd.SendCommand("show z8"); err != nil {
			fail(&v, "C12:harness:warmup", "after the earlier dialogue: %v", err)

			return v
		}
	}

	if s.Kind == "command-doubled" {
		// an unsolicited line that nobody has consumed yet stands in front of the echo; deliveries are spaced out
		pipe.Inject([]byte("%LINK-3-UPDOWN: Interface x1, changed state\r\n"))
		pipe.ReadDelay = 180 * time.Microsecond
		pipe.Lock()
		pipe.Seg = simdev.Seg{Mode: "one"} // every prefix of the echo is what the client has for a while
		pipe.Unlock()
	}

	pipe.WaitDrained(time.Second)
	time.Sleep(time.Millisecond)
	pipe.Lock()
	w0 := len(pipe.Writes)
	t0 := len(pipe.Trace)
	pipe.Unlock()
	pipe.Mark()
	markAbs := pipe.MarkAbs()

	switch s.Fault {
	case "werr-on-secret":
		// the write that carries the secret fails (escalate: GetPrompt return, enable, return, secret)
		pipe.ArmWriteFailure(3)
	}

	var res string

	var oerr error

	var opOpts []util.Option
	if s.Early {
		if s.ID%2 == 0 {
			// an option of another layer in front: it is ignored here and must not keep the next one from taking effect
			opOpts = append(opOpts, opoptions.WithFailedWhenContains([]string{"no such text"}))
		}

		opOpts = append(opOpts, opoptions.WithCompletePatterns([]*regexp.Regexp{regexp.MustCompile(`(?im)^r1[>#]\s?$`)}))
	}

	fin, pan := withWatchdog(15*time.Second, func() {
		switch s.Kind {
		case "interactive":
			r, e := gd.SendInteractive(events, opOpts...)
			oerr = e

			if r != nil {
				res = r.Result
			}
		case "interactive-network":
			r, e := nd.SendInteractive(events, opOpts...)
			oerr = e

			if r != nil {
				res = r.Result
			}
		case "command-doubled":
			r, e := gd.SendCommand("show access")
			oerr = e

			if r != nil {
				res = r.Result
			}
		case "command":
			r, e := gd.SendCommand("show v7")
			oerr = e

			if r != nil {
				res = r.Result
			}
		case "command-eager":
			_, oerr = gd.SendCommand("show v7", opoptions.WithEager())
		case "escalate-noauth":
			oerr = nd.AcquirePriv("configuration")
		default:
			oerr = nd.AcquirePriv("privilege-exec")
		}
	})

	if !fin || pan != nil {
		fail(&v, "C12:"+s.Kind+":hang-or-panic", "fin=%v pan=%v", fin, pan)

		return v
	}

	pipe.WaitDrained(time.Second)
	pipe.Lock()
	writes := pipe.Writes[w0:]
	reacts := pipe.ReactB[w0:]
	states := pipe.States[w0:]

	var recvPos []int

	for _, e := range pipe.Trace[t0:] {
		if e.Ev == "recv" {
			recvPos = append(recvPos, e.Pos-markAbs)
		}
	}
	pipe.Unlock()

	if len(recvPos) != len(writes) {
		fail(&v, "C12:harness", "trace has %d recv events for %d writes", len(recvPos), len(writes))

		return v
	}

	// exchanges from the device side (same grouping as the fault export)
	type wr struct {
		k      int
		part   string
		pos    int
		secret bool
		asking bool
	}

	var exs []map[string]interface{}

	var wrs []wr

	cur := -1
	curHasResp := false

	for i, w := range writes {
		isRet := string(w) == "\n"
		if cur < 0 || (!isRet && curHasResp) || (isRet && curHasResp) {
			exs = append(exs, map[string]interface{}{"echolen": 0, "mustecho": false, "resplen": 0, "need": 0})
			cur = len(exs) - 1
			curHasResp = false
		}

		e := exs[cur]

		if !isRet {
			e["echolen"] = e["echolen"].(int) + len(reacts[i])
			if (s.Kind == "command" || s.Kind == "command-doubled" || s.Kind == "escalate-noauth") && len(reacts[i]) > 0 {
				e["mustecho"] = true
			}

			wrs = append(wrs, wr{cur + 1, "input", recvPos[i], string(w) == secret || strings.HasPrefix(string(w), c12Hidden[:6]) && false, strings.HasSuffix(states[i], "/ask")})
			wrs[len(wrs)-1].secret = string(w) == secret

			continue
		}

		e["resplen"] = len(reacts[i])
		e["need"] = len(reacts[i]) - trailingWS(reacts[i])

		if k := bytes.Index(reacts[i], []byte(c12LogLine)); k >= 2 {
			// what stands behind the prompt need not be awaited
			first := reacts[i][:k-2]
			e["need"] = len(first) - trailingWS(first)
		}

		if k := bytes.Index(reacts[i], []byte(cli.AfterBare)); cli.AfterBare != "" && k >= 2 {
			// the answer to the bare return is the first prompt; the log line and the redrawn prompt behind it need not be awaited
			first := reacts[i][:k-2]
			e["need"] = len(first) - trailingWS(first)
		}
		curHasResp = true

		wrs = append(wrs, wr{cur + 1, "return", recvPos[i], false, strings.HasSuffix(states[i], "/ask")})
	}

	whole := true

	if strings.HasPrefix(s.Kind, "interactive") && oerr == nil {
		for j, ev := range events {
			if s.Early && j >= len(events)-1 && len(events) > 1 {
				continue
			}

			if !ev.HideInput && !strings.Contains(res, ev.ChannelInput) {
				whole = false
			}
		}

		for j, p := range phrases {
			if s.Early && j >= len(events)-2 {
				continue
			}

			if !strings.Contains(res, p) {
				whole = false
			}
		}
	}

	if strings.HasPrefix(s.Kind, "interactive") && oerr == nil && s.Early && len(events) > 1 {
		// a dialogue that the device ends early: what it said last - up to the prompt that completed the operation - is part
		// of the dialogue as well
		lines := strings.Split(strings.TrimRight(res, " \n"), "\n")
		pipe.Lock()
		prompt := strings.TrimSpace(cli.Prompts[cli.Mode])
		pipe.Unlock()

		if !strings.Contains(res, "finished early") || strings.TrimSpace(lines[len(lines)-1]) != prompt {
			whole = false
		}
	}

	// expected outcome classes
	want := "ok"
	if s.Kind == "escalate" && (s.Esc == "refuses" || s.Esc == "rejects") {
		want = "privilege"
	}

	if s.Fault == "" && errClass(oerr) != want {
		fail(&v, "C12:"+s.Kind+":outcome", "%s (esc=%s early=%v): %v, expected %s", s.Kind, s.Esc, s.Early, oerr, want)
	}

	mu.Lock()
	if pace != nil && s.Fault == "" {
		_ = pace.Encode(map[string]interface{}{"ev": "reset", "t": s.ID, "kind": s.Kind, "pre": 0, "preneed": 0, "eager": s.Kind == "command-eager", "exchanges": exs})

		for _, w := range wrs {
			_ = pace.Encode(map[string]interface{}{"ev": "write", "k": w.k, "part": w.part, "pos": w.pos, "secret": w.secret, "asking": w.asking})
		}

		_ = pace.Encode(map[string]interface{}{"ev": "done", "class": errClass(oerr), "whole": whole})
	}

	mu.Unlock()

	c12Logs(s, capDebug, chanLog, chanLogMu, logEnc, mu, secret, errClass(oerr))

	v.Extra = len(wrs)

	return v
}

func c12Logs(s *c12Scn, capDebug *logCapture, chanLog *bytes.Buffer, chanLogMu *sync.Mutex, logEnc *json.Encoder, mu *sync.Mutex, secret, class string) {
	if logEnc == nil {
		return
	}

	secrets := []string{secret}

	for j := range s.Events {
		if s.Events[j].Hidden {
			secrets = append(secrets, fmt.Sprintf("%s%d", c12Hidden, j))
		}
	}

	capDebug.mu.Lock()
	msgs := append([]string(nil), capDebug.msgs...)
	capDebug.mu.Unlock()
	chanLogMu.Lock()
	cl := chanLog.String()
	chanLogMu.Unlock()

	mu.Lock()
	defer mu.Unlock()

	_ = logEnc.Encode(map[string]interface{}{"ev": "reset", "t": fmt.Sprintf("c12-%d", s.ID), "kind": s.Kind + "/" + s.Esc + "/" + s.Fault, "class": class})

	for _, m := range msgs {
		_ = logEnc.Encode(map[string]interface{}{"ev": "log", "sink": "logger", "taint": nz(secretsIn(m, secrets)), "len": len(m)})
	}

	_ = logEnc.Encode(map[string]interface{}{"ev": "log", "sink": "channel-log", "taint": nz(secretsIn(cl, secrets)), "len": len(cl)})
}

func c12(args []string) error {
	var pace, logEnc *json.Encoder

	for i := 0; i+1 < len(args); i += 2 {
		f, err := os.Create(args[i+1])
		if err != nil {
			return err
		}

		defer f.Close()

		if args[i] == "-out" {
			pace = json.NewEncoder(f)
		} else if args[i] == "-logtrace" {
			logEnc = json.NewEncoder(f)
		}
	}

	var scns []*c12Scn

	if err := readScenarios(func(raw json.RawMessage) error {
		s := &c12Scn{}
		if err := json.Unmarshal(raw, s); err != nil {
			return err
		}

		scns = append(scns, s)

		return nil
	}); err != nil {
		return err
	}

	mu := &sync.Mutex{}
	parallel(len(scns), 8, func(i int) { emit(c12Run(scns[i], pace, logEnc, mu)) })

	return nil
}
