package main

import (
	"errors"
	"fmt"
	"math/rand"
	"strings"
	"sync"
	"time"

	"github.com/scrapli/scrapligo/util"
)

var escapes = []string{"\x1b[0m", "\x1b[K", "\x1b[?25h", "\x1b[1;32m", "\x1b]0;t\x07"}

// concretise maps abstract symbols (spec/alphabet.json) to bytes.
func concretise(s string, rng *rand.Rand) string {
	var b strings.Builder

	for _, r := range s {
		switch r {
		case '_':
			b.WriteByte(' ')
		case 'N':
			b.WriteByte('\n')
		case 'R':
			b.WriteByte('\r')
		case 'E':
			if rng != nil {
				b.WriteString(escapes[rng.Intn(len(escapes))])
			} else {
				b.WriteString(escapes[0])
			}
		default:
			b.WriteRune(r)
		}
	}

	return b.String()
}

// abstract is the inverse for strings that contain no escape sequences / CR.
func abstract(s string) string {
	var b strings.Builder

	for _, r := range s {
		switch r {
		case ' ':
			b.WriteByte('_')
		case '\n':
			b.WriteByte('N')
		case '\r':
			b.WriteByte('R')
		default:
			b.WriteRune(r)
		}
	}

	return b.String()
}

// errClass maps an error to the classes the specifications use.
func errClass(err error) string {
	switch {
	case err == nil:
		return "ok"
	case errors.Is(err, util.ErrTimeoutError):
		return "timeout"
	case errors.Is(err, util.ErrPrivilegeError):
		return "privilege"
	case errors.Is(err, util.ErrAuthError):
		return "auth"
	case errors.Is(err, util.ErrConnectionError):
		return "connection"
	case errors.Is(err, util.ErrNetconfError):
		return "netconf"
	case errors.Is(err, util.ErrBadOption):
		return "badoption"
	case errors.Is(err, util.ErrOperationError):
		return "operation"
	case errors.Is(err, util.ErrNoOp):
		return "noop"
	default:
		return "error"
	}
}

// withWatchdog runs f and reports whether it finished within d; panics in f's goroutine are returned.
func withWatchdog(d time.Duration, f func()) (finished bool, pan interface{}) {
	done := make(chan interface{}, 1)

	go func() {
		defer func() { done <- recover() }()
		f()
	}()

	select {
	case p := <-done:
		return true, p
	case <-time.After(d):
		return false, nil
	}
}

// parallel runs f(i) for i in [0,n) on w workers.
func parallel(n, w int, f func(i int)) {
	var wg sync.WaitGroup

	ch := make(chan int)

	for k := 0; k < w; k++ {
		wg.Add(1)

		go func() {
			defer wg.Done()

			for i := range ch {
				f(i)
			}
		}()
	}

	for i := 0; i < n; i++ {
		ch <- i
	}

	close(ch)
	wg.Wait()
}

type verdict struct {
	ID         interface{} `json:"id"`
	Variant    string      `json:"variant,omitempty"`
	OK         bool        `json:"ok"`
	Sig        string      `json:"sig,omitempty"`
	Detail     string      `json:"detail,omitempty"`
	Nontrivial bool        `json:"nontrivial"`
	Skipped    string      `json:"skipped,omitempty"`
	Extra      interface{} `json:"extra,omitempty"`
}

func fail(v *verdict, sig, format string, a ...interface{}) {
	if v.OK || v.Sig == "" {
		v.OK = false
		v.Sig = sig
		v.Detail = fmt.Sprintf(format, a...)
	}
}
