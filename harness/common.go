package main

import (
	"errors"
	"fmt"
	"math/rand"
	"strings"
	"sync"
	"time"

	"github.com/scrapli/scrapligo/util"
)

// escape sequences the library is expected to remove entirely (each ends in a letter or BEL, so that nothing that follows can
// be taken for a part of it): SGR with 0..6 parameters incl. 256-colour and truecolor forms, cursor / erase / mode
// sequences, character-set selection, keypad modes, OSC titles
var escapes = []string{"\x1b[0m", "\x1b[K", "\x1b[?25h", "\x1b[1;32m", "\x1b]0;t\x07",
	"\x1b[38;5;208m", "\x1b[1;37;41m", "\x1b[48;2;10;20;30m", "\x1b[0;1;4;7m", "\x1b[1;2;3;4;5;6m", "\x1b[m", "\x1b[01;34m", "\x1b[;5m",
	"\x1b[10;20H", "\x1b[24;1H", "\x1b[2J", "\x1b[1A", "\x1b[999;999r", "\x1b[6n", "\x1b[?1049h", "\x1b[?2004h", "\x1b[?7l",
	"\x1b(B", "\x1b=", "\x1b>", "\x1bM", "\x1b]2;title\x07",
	"\x1b7", "\x1b8"} // save / restore cursor (DECSC / DECRC): complete two-character sequences, whatever letter follows

// concretise maps abstract symbols (spec/alphabet.json) to bytes.
func concretise(s string, rng *rand.Rand) string { return concretiseMax(s, rng, 0) }

// concretiseEsc uses escape sequence number k of the catalogue for every E.
func concretiseEsc(s string, k int) string {
	return strings.ReplaceAll(concretise(strings.ReplaceAll(s, "E", "\x00"), nil), "\x00", escapes[k%len(escapes)])
}

// concretiseMax only uses escape sequences of at most max bytes (0: any): a transport read is never smaller than the
// escape sequence it must deliver whole.
func concretiseMax(s string, rng *rand.Rand, max int) string {
	var b strings.Builder

	for _, r := range s {
		switch r {
		case '_':
			b.WriteByte(' ')
		case 'N':
			b.WriteByte('\n')
		case 'R':
			b.WriteByte('\r')
		case 'E':
			if rng != nil {
				e := escapes[rng.Intn(len(escapes))]
				for max > 0 && len(e) > max {
					e = escapes[rng.Intn(len(escapes))]
				}

				b.WriteString(e)
			} else {
				b.WriteString(escapes[0])
			}
		default:
			b.WriteRune(r)
		}
	}

	return b.String()
}

// abstract is the inverse for strings that contain no escape sequences / CR.
func abstract(s string) string {
	var b strings.Builder

	for _, r := range s {
		switch r {
		case ' ':
			b.WriteByte('_')
		case '\n':
			b.WriteByte('N')
		case '\r':
			b.WriteByte('R')
		default:
			b.WriteRune(r)
		}
	}

	return b.String()
}

// errClass maps an error to the classes the specifications use.
func errClass(err error) string {
	switch {
	case err == nil:
		return "ok"
	case errors.Is(err, util.ErrTimeoutError):
		return "timeout"
	case errors.Is(err, util.ErrPrivilegeError):
		return "privilege"
	case errors.Is(err, util.ErrAuthError):
		return "auth"
	case errors.Is(err, util.ErrConnectionError):
		return "connection"
	case errors.Is(err, util.ErrNetconfError):
		return "netconf"
	case errors.Is(err, util.ErrBadOption):
		return "badoption"
	case errors.Is(err, util.ErrOperationError):
		return "operation"
	case errors.Is(err, util.ErrNoOp):
		return "noop"
	default:
		return "error"
	}
}

// withWatchdog runs f and reports whether it finished within d; panics in f's goroutine are returned.
func withWatchdog(d time.Duration, f func()) (finished bool, pan interface{}) {
	done := make(chan interface{}, 1)

	go func() {
		defer func() { done <- recover() }()
		f()
	}()

	select {
	case p := <-done:
		return true, p
	case <-time.After(d):
		return false, nil
	}
}

// parallel runs f(i) for i in [0,n) on w workers.
func parallel(n, w int, f func(i int)) {
	var wg sync.WaitGroup

	ch := make(chan int)

	for k := 0; k < w; k++ {
		wg.Add(1)

		go func() {
			defer wg.Done()

			for i := range ch {
				f(i)
			}
		}()
	}

	for i := 0; i < n; i++ {
		ch <- i
	}

	close(ch)
	wg.Wait()
}

type verdict struct {
	ID         interface{} `json:"id"`
	Variant    string      `json:"variant,omitempty"`
	OK         bool        `json:"ok"`
	Sig        string      `json:"sig,omitempty"`
	Detail     string      `json:"detail,omitempty"`
	Nontrivial bool        `json:"nontrivial"`
	Skipped    string      `json:"skipped,omitempty"`
	Extra      interface{} `json:"extra,omitempty"`
}

func fail(v *verdict, sig, format string, a ...interface{}) {
	if v.OK || v.Sig == "" {
		v.OK = false
		v.Sig = sig
		v.Detail = fmt.Sprintf(format, a...)
	}
}
