package main

import (
	"bufio"
	"bytes"
	"encoding/json"
	"fmt"
	"io"
	"os"
	"os/exec"
	"strings"
	"sync"
)

// Process isolation for scenarios that can bring the process down (a panic in a library goroutine
// cannot be recovered): `vh isolated <child-sub>` feeds each scenario to one of several child
// processes (`vh <child-sub> -child`), one scenario in flight per child, and attributes a child's
// death to exactly the scenario it was running.

func init() { register("isolated", isolated) }

type childProc struct {
	cmd    *exec.Cmd
	in     io.WriteCloser
	out    *bufio.Reader
	stderr *bytes.Buffer
}

func startChild(sub string) (*childProc, error) {
	c := exec.Command(os.Args[0], sub, "-child") //nolint:gosec
	c.Env = os.Environ()
	in, err := c.StdinPipe()

	if err != nil {
		return nil, err
	}

	out, err := c.StdoutPipe()
	if err != nil {
		return nil, err
	}

	eb := &bytes.Buffer{}
	c.Stderr = eb

	if err = c.Start(); err != nil {
		return nil, err
	}

	return &childProc{cmd: c, in: in, out: bufio.NewReaderSize(out, 1<<20), stderr: eb}, nil
}

func isolated(args []string) error {
	if len(args) < 1 {
		return fmt.Errorf("usage: vh isolated <child-sub>")
	}

	sub := args[0]

	var scns [][]byte

	if err := readScenarios(func(raw json.RawMessage) error {
		scns = append(scns, raw)

		return nil
	}); err != nil {
		return err
	}

	workers := envInt("VERIF_WORKERS", 8)
	jobs := make(chan int)

	var wg sync.WaitGroup

	for w := 0; w < workers; w++ {
		wg.Add(1)

		go func() {
			defer wg.Done()

			var ch *childProc

			for i := range jobs {
				var err error

				if ch == nil {
					if ch, err = startChild(sub); err != nil {
						emit(map[string]interface{}{"id": i, "ok": false, "toolerror": err.Error()})

						continue
					}
				}

				line := append(append([]byte(nil), scns[i]...), '\n')
				_, werr := ch.in.Write(line)

				var resp []byte

				if werr == nil {
					resp, err = ch.out.ReadBytes('\n')
				}

				if werr != nil || err != nil || len(bytes.TrimSpace(resp)) == 0 {
					_ = ch.in.Close()
					_ = ch.cmd.Wait()
					st := ch.stderr.String()

					if len(st) > 6000 {
						st = st[:3000] + "\n...\n" + st[len(st)-3000:]
					}

					emit(map[string]interface{}{"id": i, "ok": false, "died": true, "exit": ch.cmd.ProcessState.String(), "stderr": st})

					ch = nil

					continue
				}

				var v map[string]interface{}
				if json.Unmarshal(resp, &v) != nil {
					emit(map[string]interface{}{"id": i, "ok": false, "toolerror": "unparsable child output: " + strings.TrimSpace(string(resp))})

					continue
				}

				v["id"] = i
				emit(v)
			}

			if ch != nil {
				_ = ch.in.Close()
				_ = ch.cmd.Wait()
			}
		}()
	}

	for i := range scns {
		jobs <- i
	}

	close(jobs)
	wg.Wait()

	return nil
}

// childLoop is the child side: one scenario per line in, one verdict per line out.
func childLoop(handle func(raw json.RawMessage, idx int) interface{}) error {
	idx := 0

	return readScenarios(func(raw json.RawMessage) error {
		emit(handle(raw, idx))
		idx++

		return nil
	})
}
