package main

import (
	"bytes"
	"encoding/json"
	"regexp"

	"github.com/scrapli/scrapligo/util"
)

// Kernel conformance (TextKernel.tla): abstract matchers vs the public Go functions.

func init() { register("kernel", kernel) }

type kernelScn struct {
	S      string `json:"s"`
	T      string `json:"t"`
	Prompt *bool  `json:"prompt"`
	Norm   string `json:"norm"`
	Fuzzy  *bool  `json:"fuzzy"`
	Sub    *bool  `json:"sub"`
}

func kernel(_ []string) error {
	// the default prompt pattern, taken from a constructed channel (public field)
	sessCfgV := sessCfg{}
	_ = sessCfgV
	pat := defaultPromptPattern()
	n, bad := 0, 0

	err := readScenarios(func(raw json.RawMessage) error {
		k := &kernelScn{}
		if err := json.Unmarshal(raw, k); err != nil {
			return err
		}

		n++
		v := verdict{ID: n, OK: true}

		if k.Prompt != nil {
			// every escape sequence of the catalogue in turn for the strings that contain one
			variants := 1
			if bytes.ContainsRune([]byte(k.S), 'E') {
				variants = len(escapes)
			}

			for e := 0; e < variants && v.OK; e++ {
				conc := []byte(concretiseEsc(k.S, e))
				// what the channel read loop does to a chunk
				nb := bytes.ReplaceAll(conc, []byte("\r"), nil)
				if bytes.Contains(nb, []byte("\x1b")) {
					nb = util.StripANSI(nb)
				}

				if string(nb) != concretise(k.Norm, nil) {
					fail(&v, "C01:kernel:Norm", "Norm(%q) = %q in the specification, the read loop's normalisation of %q gives %q", k.S, k.Norm, conc, nb)
				} else if pat.Match(nb) != *k.Prompt {
					fail(&v, "C01:kernel:HasPrompt", "HasPrompt(Norm(%q)) = %v in the specification, the default prompt pattern says %v", k.S, *k.Prompt, pat.Match(nb))
				}
			}
		} else if k.Fuzzy != nil {
			in, out := []byte(concretise(k.S, nil)), []byte(concretise(k.T, nil))
			if util.BytesRoughlyContains(in, out) != *k.Fuzzy {
				fail(&v, "C01:kernel:Fuzzy", "Fuzzy(%q, %q) = %v in the specification, util.BytesRoughlyContains says %v", k.S, k.T, *k.Fuzzy, !*k.Fuzzy)
			} else if bytes.Contains(out, in) != *k.Sub {
				fail(&v, "C01:kernel:IsSub", "IsSub(%q, %q) = %v in the specification", k.S, k.T, *k.Sub)
			}
		}

		if !v.OK {
			bad++
			emit(v)
		}

		return nil
	})

	emit(map[string]interface{}{"summary": true, "n": n, "bad": bad})

	return err
}

func defaultPromptPattern() *regexp.Regexp {
	s, err := buildGenericUnopened()
	if err != nil {
		panic(err)
	}

	return s
}
