package main

import (
	"encoding/json"
	"errors"
	"os"
	"regexp"
	"strings"
	"sync"
	"time"

	"github.com/scrapli/scrapligo/driver/generic"
	"github.com/scrapli/scrapligo/driver/opoptions"
	"github.com/scrapli/scrapligo/driver/options"
	"github.com/scrapli/scrapligo/util"

	"verifharness/simdev"
)

// C18: scenarios of CallbackScn.tla; firings recorded for CallbackTrace.tla.   vh c18 -out trace.ndjson < scenarios

func init() { register("c18", c18) }

type c18Cb struct {
	Contains    string `json:"contains"`
	NotContains string `json:"notcontains"`
	Re          string `json:"re"`
	Insens      bool   `json:"insens"`
	Once        bool   `json:"once"`
	Complete    bool   `json:"complete"`
	Reset       bool   `json:"reset"`
}

type c18Scn struct {
	ID          int      `json:"id"`
	Cbs         []c18Cb  `json:"cbs"`
	Segs        []string `json:"segs"`
	NextTimeout []bool   `json:"nexttimeout"`
	Seg         string   `json:"seg,omitempty"`
	Mute        bool     `json:"mute"`
}

var c18Segs = map[string]string{
	"confirm-q": "Please Confirm the action [y]: ", "password-q": "Password: ", "yesno-q": "Overwrite file? (yes/no) ",
	"digit-line": "step 4 of the plan\r\nnext> ", "plain": "working on it...\r\n", "more": " --more-- #", "finished": "all finished\r\nr1# ",
	"done-upper": "DONE\r\nr1# ", "done-lower": "done\r\nr1# ", "password-again": "Password: ", "two-triggers": "Confirm? password ok (yes/no) 7 #",
	"pw-upper-q": "Reset PASSWORD now? [y/n] ", "more-upper": " --MORE-- #",
}

var c18Res = map[string]*regexp.Regexp{"digit": regexp.MustCompile(`\d`), "hashend": regexp.MustCompile(`#\s*$`)}

var errAbort = errors.New("harness: callback list keeps re-firing")

func chars(s string) []string {
	r := make([]string, 0, len(s))
	for i := 0; i < len(s); i++ {
		r = append(r, s[i:i+1])
	}

	return r
}

func c18Run(s *c18Scn, segName string, enc *json.Encoder, mu *sync.Mutex) verdict {
	v := verdict{ID: s.ID, Variant: segName, OK: true, Nontrivial: true}
	lineNo := 0
	cli := &simdev.CLI{Prompts: map[string]string{"m": "r1# "}, Mode: "m", Banner: "hi\r\n", NoPrompt: true}
	cli.Handler = func(c *simdev.CLI, _ string) string {
		c.NoPrompt = true
		lineNo++

		if lineNo <= len(s.Segs) {
			if lineNo == len(s.Segs) && s.Mute {
				c.Mute = true // after its last piece of output the device says nothing more, whatever it is sent
			}

			return c18Segs[s.Segs[lineNo-1]]
		}

		return ""
	}
	cli.OnReturn = func(c *simdev.CLI) { c.NoPrompt = true }
	pipe := simdev.NewPipe(cli, int64(s.ID))
	pipe.Seg = faultSegs[segName]
	pipe.RecordTrace = true

	d, err := generic.NewDriver("sim", options.WithCustomTransport(pipe), options.WithReadDelay(30*time.Microsecond), options.WithTimeoutOps(2*time.Second))
	if err == nil {
		err = d.Open()
	}

	if err != nil {
		fail(&v, "C18:open-error", "%v", err)

		return v
	}

	defer func() { _, _ = withWatchdog(3*time.Second, func() { _ = d.Close() }) }()

	// consume the banner (there is no prompt after it in this device): read what is there
	pipe.WaitDrained(time.Second)
	time.Sleep(2 * time.Millisecond)

	for {
		b, _ := d.Channel.ReadAll()
		if b == nil {
			break
		}
	}

	var events []map[string]interface{}

	var evMu sync.Mutex

	fires := 0

	var cbs []*generic.Callback

	var cbJSON []map[string]interface{}

	for k, c := range s.Cbs {
		k := k
		c := c
		o := []util.Option{opoptions.WithCallbackInsensitive(c.Insens)}

		if c.Contains != "" {
			o = append(o, opoptions.WithCallbackContains(c.Contains))
		}

		if c.NotContains != "" {
			o = append(o, opoptions.WithCallbackNotContains(c.NotContains))
		}

		if c.Re != "" {
			o = append(o, opoptions.WithCallbackContainsRe(c18Res[c.Re]))
		}

		if c.Once {
			o = append(o, opoptions.WithCallbackOnce())
		}

		if c.Complete {
			o = append(o, opoptions.WithCallbackComplete())
		}

		if k < len(s.NextTimeout) && s.NextTimeout[k] {
			o = append(o, opoptions.WithCallbackNextTimeout(300*time.Millisecond))
		}

		cb, cerr := generic.NewCallback(func(dd *generic.Driver, arg string) error {
			evMu.Lock()
			events = append(events, map[string]interface{}{"ev": "fire", "i": k + 1, "arg": chars(arg)})
			fires++
			n := fires
			evMu.Unlock()

			if n > 10 {
				return errAbort
			}

			if c.Complete {
				return nil
			}

			return dd.Channel.WriteAndReturn([]byte("ans"), false)
		}, o...)
		if cerr != nil {
			fail(&v, "C18:harness", "NewCallback: %v", cerr)

			return v
		}

		cb.ResetOutput = c.Reset
		cbs = append(cbs, cb)
		cbJSON = append(cbJSON, map[string]interface{}{"contains": chars(c.Contains), "notcontains": chars(c.NotContains), "re": c.Re, "insens": c.Insens,
			"once": c.Once, "complete": c.Complete, "reset": c.Reset})
	}

	pipe.Lock()
	t0 := len(pipe.Trace)
	pipe.Unlock()

	var res string

	var oerr error

	fin, pan := withWatchdog(20*time.Second, func() {
		r, e := d.SendWithCallbacks("go", cbs, 250*time.Millisecond)
		oerr = e

		if r != nil {
			res = r.Result
		}
	})

	if !fin || pan != nil {
		fail(&v, "C18:hang-or-panic", "fin=%v pan=%v cbs=%+v segs=%v", fin, pan, s.Cbs, s.Segs)

		return v
	}

	time.Sleep(time.Millisecond)
	pipe.Lock()

	var stream strings.Builder

	for _, e := range pipe.Trace[t0:] {
		if e.Ev == "deliver" {
			stream.WriteString(strings.ReplaceAll(e.B, "\r", ""))
		}
	}
	pipe.Unlock()

	class := errClass(oerr)
	if errors.Is(oerr, errAbort) {
		class = "aborted"
	}

	mu.Lock()
	_ = enc.Encode(map[string]interface{}{"ev": "reset", "t": s.ID, "cbs": cbJSON, "segs": s.Segs})

	evMu.Lock()
	for _, e := range events {
		_ = enc.Encode(e)
	}
	evMu.Unlock()

	_ = enc.Encode(map[string]interface{}{"ev": "return", "class": class, "result": chars(res), "stream": chars(stream.String())})
	mu.Unlock()

	v.Extra = map[string]interface{}{"fires": fires, "class": class}

	return v
}

func c18(args []string) error {
	out := "trace.ndjson"
	if len(args) >= 2 && args[0] == "-out" {
		out = args[1]
	}

	f, err := os.Create(out)
	if err != nil {
		return err
	}

	defer f.Close()

	enc := json.NewEncoder(f)

	var scns []*c18Scn

	if err := readScenarios(func(raw json.RawMessage) error {
		s := &c18Scn{}
		if err := json.Unmarshal(raw, s); err != nil {
			return err
		}

		scns = append(scns, s)

		return nil
	}); err != nil {
		return err
	}

	mu := &sync.Mutex{}
	segs := []string{"rand", "one", "whole"}

	parallel(len(scns), 8, func(i int) {
		sg := scns[i].Seg
		if sg == "" {
			sg = segs[scns[i].ID%3]
		}

		emit(c18Run(scns[i], sg, enc, mu))
	})

	return nil
}
