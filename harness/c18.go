package main

import (
	"bytes"
	"encoding/json"
	"errors"
	"fmt"
	"os"
	"regexp"
	"strings"
	"sync"
	"time"

	"github.com/scrapli/scrapligo/driver/generic"
	"github.com/scrapli/scrapligo/driver/opoptions"
	"github.com/scrapli/scrapligo/driver/options"
	"github.com/scrapli/scrapligo/util"

	"verifharness/simdev"
)

// C18: scenarios of CallbackScn.tla; firings recorded for CallbackTrace.tla.   vh c18 -out trace.ndjson < scenarios

func init() { register("c18", c18) }

type c18Cb struct {
	Contains    string `json:"contains"`
	NotContains string `json:"notcontains"`
	Re          string `json:"re"`
	Insens      bool   `json:"insens"`
	Once        bool   `json:"once"`
	Complete    bool   `json:"complete"`
	Reset       bool   `json:"reset"`
}

type c18Scn struct {
	ID          int      `json:"id"`
	Cbs         []c18Cb  `json:"cbs"`
	Segs        []string `json:"segs"`
	NextTimeout []bool   `json:"nexttimeout"`
	Seg         string   `json:"seg,omitempty"`
	Mute        bool     `json:"mute"`
}

var c18Segs = map[string]string{
	"confirm-q": "Please Confirm the action [y]: ", "password-q": "Password: ", "yesno-q": "Overwrite file? (yes/no) ",
	"digit-line": "step 4 of the plan\r\nnext> ", "plain": "working on it...\r\n", "more": " --more-- #", "finished": "all finished\r\nr1# ",
	"done-upper": "DONE\r\nr1# ", "done-lower": "done\r\nr1# ", "password-again": "Password: ", "two-triggers": "Confirm? password ok (yes/no) 7 #",
	"pw-upper-q": "Reset PASSWORD now? [y/n] ", "more-upper": " --MORE-- #",
	"confirm-long": "Please Confirm the action [y]: \r\n" + c18Listing, "password-long": "Password: \r\n" + c18Listing,
}

// c18Listing: 1150 bytes without a digit, '#', or any of the trigger texts
var c18Listing = strings.Repeat("    interface description lorem ipsum dolor sit\r\n", 23)

var c18Res = map[string]*regexp.Regexp{"digit": regexp.MustCompile(`\d`), "hashend": regexp.MustCompile(`#\s*$`)}

var errAbort = errors.New("harness: callback list keeps re-firing")

func chars(s string) []string {
	r := make([]string, 0, len(s))
	for i := 0; i < len(s); i++ {
		r = append(r, s[i:i+1])
	}

	return r
}

func c18Run(s *c18Scn, segName string, enc *json.Encoder, mu *sync.Mutex) verdict {
	v := verdict{ID: s.ID, Variant: segName, OK: true, Nontrivial: true}
	lineNo := 0
	cli := &simdev.CLI{Prompts: map[string]string{"m": "r1# "}, Mode: "m", Banner: "hi\r\n", NoPrompt: true}
	cli.Handler = func(c *simdev.CLI, line string) string {
		c.NoPrompt = true

		switch line {
		case "pre-silent": // an earlier operation the device has nothing to say to
			return ""
		case "pre-first": // an earlier operation: the device says what it will say first in the operation under observation
			if len(s.Segs) > 0 {
				return c18Segs[s.Segs[0]]
			}

			return ""
		}

		lineNo++

		if lineNo <= len(s.Segs) {
			if lineNo == len(s.Segs) && s.Mute {
				c.Mute = true // after its last piece of output the device says nothing more, whatever it is sent
			}

			return c18Segs[s.Segs[lineNo-1]]
		}

		return ""
	}
	cli.OnReturn = func(c *simdev.CLI) { c.NoPrompt = true }
	pipe := simdev.NewPipe(cli, int64(s.ID))
	pipe.Seg = faultSegs[segName]
	pipe.RecordTrace = true

	d, err := generic.NewDriver("sim", options.WithCustomTransport(pipe), options.WithReadDelay(30*time.Microsecond), options.WithTimeoutOps(2*time.Second))
	if err == nil {
		err = d.Open()
	}

	if err != nil {
		fail(&v, "C18:open-error", "%v", err)

		return v
	}

	defer func() { _, _ = withWatchdog(3*time.Second, func() { _ = d.Close() }) }()

	// consume the banner (there is no prompt after it in this device): read what is there
	pipe.WaitDrained(time.Second)
	time.Sleep(2 * time.Millisecond)

	for {
		b, _ := d.Channel.ReadAll()
		if b == nil {
			break
		}
	}

	var events []map[string]interface{}

	var evMu sync.Mutex

	fires := 0
	inPrelude := false
	spent := []int{}
	reopenT0 := 0

	var cbs []*generic.Callback

	var cbJSON []map[string]interface{}

	for k, c := range s.Cbs {
		k := k
		c := c
		o := []util.Option{opoptions.WithCallbackInsensitive(c.Insens)}

		if c.Contains != "" {
			o = append(o, opoptions.WithCallbackContains(c.Contains))
		}

		if c.NotContains != "" {
			o = append(o, opoptions.WithCallbackNotContains(c.NotContains))
		}

		if c.Re != "" {
			o = append(o, opoptions.WithCallbackContainsRe(c18Res[c.Re]))
		}

		if c.Once {
			o = append(o, opoptions.WithCallbackOnce())
		}

		if c.Complete {
			o = append(o, opoptions.WithCallbackComplete())
		}

		if k < len(s.NextTimeout) && s.NextTimeout[k] {
			nt := 1200 * time.Millisecond

			for _, sg := range s.Segs {
				if strings.HasSuffix(sg, "-long") {
					nt = 2 * time.Second // as for the operation's own wait below: long enough for the listing to be delivered
				}
			}

			o = append(o, opoptions.WithCallbackNextTimeout(nt))
		}

		cb, cerr := generic.NewCallback(func(dd *generic.Driver, arg string) error {
			if inPrelude {
				// the earlier operation: the callback's own function fails (once-callbacks that ran are noted)
				evMu.Lock()
				if c.Once {
					spent = append(spent, k+1)
				}
				evMu.Unlock()

				return errors.New("the callback's function failed")
			}

			evMu.Lock()
			events = append(events, map[string]interface{}{"ev": "fire", "i": k + 1, "arg": chars(arg)})
			fires++
			n := fires
			evMu.Unlock()

			if n > 10 {
				return errAbort
			}

			if c.Complete {
				return nil
			}

			return dd.Channel.WriteAndReturn([]byte("ans"), false)
		}, o...)
		if cerr != nil {
			fail(&v, "C18:harness", "NewCallback: %v", cerr)

			return v
		}

		cb.ResetOutput = c.Reset
		cbs = append(cbs, cb)
		cbJSON = append(cbJSON, map[string]interface{}{"contains": chars(c.Contains), "notcontains": chars(c.NotContains), "re": c.Re, "insens": c.Insens,
			"once": c.Once, "complete": c.Complete, "reset": c.Reset})
	}

	drain := func() {
		pipe.WaitDrained(time.Second)
		time.Sleep(3 * time.Millisecond)

		for {
			b, _ := d.Channel.ReadAll()
			if b == nil {
				break
			}
		}
	}

	reopened := false

	switch s.ID % 3 {
	case 0:
		if s.ID%2 == 0 {
			// an earlier SESSION on the same driver: it is closed while its reader sits in a transport read, which comes back a
			// little later with the peer's last words (a line full of triggers); the driver is opened again at once. The new
			// session is greeted with the banner; nothing of the old one takes part in it.
			pipe.Lock()
			pipe.CloseBehaviour = "late"
			pipe.LateOnClose = []byte("Password: 17 (yes/no)? [confirm] finished DONE #\r\n")
			pipe.Unlock()

			var rerr error

			fin0, pan0 := withWatchdog(10*time.Second, func() {
				_ = d.Close()

				pipe.Lock()
				t0r := len(pipe.Trace)
				pipe.Unlock()

				reopenT0 = t0r
				rerr = d.Open()
			})
			if !fin0 || pan0 != nil || rerr != nil {
				v.OK, v.Sig, v.Detail = false, "TOOL", fmt.Sprintf("close and open again: returned=%v panic=%v err=%v", fin0, pan0, rerr)

				return v
			}

			pipe.Lock()
			pipe.CloseBehaviour = "eof"
			pipe.Unlock()

			pipe.WaitDrained(time.Second)
			time.Sleep(3 * time.Millisecond)

			reopened = true
		}
	case 1:
		// an earlier operation on the same driver that ended with a timeout (nothing it waited for ever came): it is over, it
		// takes no part in the operation under observation
		never, _ := generic.NewCallback(func(*generic.Driver, string) error { return nil }, opoptions.WithCallbackContains("never-printed-by-this-device"))

		fin0, pan0 := withWatchdog(10*time.Second, func() { _, _ = d.SendWithCallbacks("pre-silent", []*generic.Callback{never}, 120*time.Millisecond) })
		if !fin0 || pan0 != nil {
			fail(&v, "C18:earlier-operation:hang-or-panic", "the earlier operation (no trigger, timeout): returned=%v panic=%v", fin0, pan0)

			return v
		}

		time.Sleep(20 * time.Millisecond)
		drain()
	case 2:
		// an earlier operation with the SAME callback list that failed in a callback's own function: a callback marked once
		// that ran there has run
		inPrelude = true

		fin0, pan0 := withWatchdog(10*time.Second, func() { _, _ = d.SendWithCallbacks("pre-first", cbs, 120*time.Millisecond) })

		inPrelude = false

		if !fin0 || pan0 != nil {
			fail(&v, "C18:earlier-operation:hang-or-panic", "the earlier operation (same list, failing callback function): returned=%v panic=%v", fin0, pan0)

			return v
		}

		time.Sleep(20 * time.Millisecond)
		drain()
	}

	pipe.Lock()
	t0 := len(pipe.Trace)
	pipe.Unlock()

	if reopened {
		// nothing was read since the driver was opened again: the operation sees the new session from its first byte
		t0 = reopenT0
	}

	var res string

	var oerr error

	// the time the operation waits for a trigger: long enough for the device to deliver what it says (a listing of 1 150 bytes, one
	// byte per read, on a loaded machine) - what is compared at a time-out is everything the device delivered
	opWait := time.Second

	for _, sg := range s.Segs {
		if strings.HasSuffix(sg, "-long") {
			opWait = 2 * time.Second
		}
	}

	fin, pan := withWatchdog(40*time.Second, func() {
		r, e := d.SendWithCallbacks("go", cbs, opWait)
		oerr = e

		if r != nil {
			res = r.Result
		}
	})

	if !fin || pan != nil {
		fail(&v, "C18:hang-or-panic", "fin=%v pan=%v cbs=%+v segs=%v", fin, pan, s.Cbs, s.Segs)

		return v
	}

	time.Sleep(time.Millisecond)
	pipe.Lock()

	var stream strings.Builder

	for _, e := range pipe.Trace[t0:] {
		if e.Ev == "deliver" {
			stream.WriteString(strings.ReplaceAll(e.B, "\r", ""))
		}
	}
	pipe.Unlock()

	class := errClass(oerr)
	if errors.Is(oerr, errAbort) {
		class = "aborted"
	}

	mu.Lock()
	_ = enc.Encode(map[string]interface{}{"ev": "reset", "t": s.ID, "cbs": cbJSON, "segs": s.Segs, "spent": spent})

	evMu.Lock()
	for _, e := range events {
		_ = enc.Encode(e)
	}
	evMu.Unlock()

	_ = enc.Encode(map[string]interface{}{"ev": "return", "class": class, "result": chars(res), "stream": chars(stream.String())})
	mu.Unlock()

	v.Extra = map[string]interface{}{"fires": fires, "class": class}

	return v
}

func c18(args []string) error {
	if len(args) > 0 && args[0] == "-child" {
		// one scenario at a time in a process of its own (vh isolated c18): a panic in a library goroutine takes only this
		// process down; the trace events travel with the verdict
		mu := &sync.Mutex{}
		segs := []string{"rand", "one", "whole"}

		return childLoop(func(raw json.RawMessage, _ int) interface{} {
			s := &c18Scn{}
			if err := json.Unmarshal(raw, s); err != nil {
				return map[string]interface{}{"ok": false, "toolerror": err.Error()}
			}

			sg := s.Seg
			if sg == "" {
				sg = segs[s.ID%3]
			}

			var buf bytes.Buffer

			v := c18Run(s, sg, json.NewEncoder(&buf), mu)

			var evs []json.RawMessage

			for _, ln := range bytes.Split(bytes.TrimSpace(buf.Bytes()), []byte("\n")) {
				if len(ln) > 0 {
					evs = append(evs, json.RawMessage(append([]byte(nil), ln...)))
				}
			}

			ex, _ := v.Extra.(map[string]interface{})
			if ex == nil {
				ex = map[string]interface{}{}
			}

			ex["trace"] = evs
			v.Extra = ex

			return v
		})
	}

	out := "trace.ndjson"
	if len(args) >= 2 && args[0] == "-out" {
		out = args[1]
	}

	f, err := os.Create(out)
	if err != nil {
		return err
	}

	defer f.Close()

	enc := json.NewEncoder(f)

	var scns []*c18Scn

	if err := readScenarios(func(raw json.RawMessage) error {
		s := &c18Scn{}
		if err := json.Unmarshal(raw, s); err != nil {
			return err
		}

		scns = append(scns, s)

		return nil
	}); err != nil {
		return err
	}

	mu := &sync.Mutex{}
	segs := []string{"rand", "one", "whole"}

	parallel(len(scns), 8, func(i int) {
		sg := scns[i].Seg
		if sg == "" {
			sg = segs[scns[i].ID%3]
		}

		emit(c18Run(scns[i], sg, enc, mu))
	})

	return nil
}
