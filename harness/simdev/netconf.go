package simdev

import (
	"bytes"
	"fmt"
	"regexp"
	"strconv"
	"sync"
)

// NCRequest is one client message as the strict decoder of the server model saw it.
type NCRequest struct {
	Framed  string `json:"framed"`  // the bytes of the message on the wire, framing included
	Payload string `json:"payload"` // decoded payload
	MsgID   int    `json:"msgid"`
	Version string `json:"version"`
}

// NCServer is a NETCONF server model: sends its hello, decodes the client's stream strictly
// (1.0 end-of-message framing for the hello, then the framing implied by the two hellos), and
// answers through the Reply hook. Every framing violation by the client is recorded.
type NCServer struct {
	Hello      string // complete server hello including "]]>]]>"
	Advertises map[string]bool
	Echo       bool // transport echoes the client's bytes back (pty-style)
	// MissingLF: how many times a missing separator in front of a message is tolerated (the harness sets it when it
	// made the client's write of that separator fail)
	MissingLF int
	EchoCRLF  bool // echo converts LF to CRLF
	// HoldEcho: while set, the echo is withheld (a stalled network); it is delivered in front of the next echo that is not held
	HoldEcho bool
	heldEcho []byte

	// Reply returns the bytes to send in reaction to a complete request (nil: nothing now).
	Reply func(s *NCServer, r NCRequest) []byte
	// ReplyMulti, when set, is used instead and may return several server messages (each ends a read boundary)
	ReplyMulti func(s *NCServer, r NCRequest) [][]byte

	Version       string // "" until the client hello was seen
	ClientHello   string
	Requests      []NCRequest
	FramingErrors []string
	buf           []byte
	dead          bool
	hellos        int
	bounds        []int
}

var msgIDRe = regexp.MustCompile(`message-id="(\d+)"`)

const delim10 = "]]>]]>"

// TakeBounds returns (and clears) the offsets in the last reaction at which server messages end.
func (s *NCServer) TakeBounds() []int {
	b := s.bounds
	s.bounds = nil

	return b
}

// Start implements Reactor.
func (s *NCServer) Start() []byte {
	// every connection starts a session of its own
	s.Version, s.ClientHello, s.buf, s.dead = "", "", nil, false

	return []byte(s.Hello)
}

// Hellos: how many client hellos this server has seen (= which connection is in progress). Call with the pipe's mutex held or
// from a reply function.
func (s *NCServer) Hellos() int { return s.hellos }

// State implements Reactor.
func (s *NCServer) State() string {
	if s.Version == "" {
		return "hello"
	}

	return "v" + s.Version
}

func (s *NCServer) violation(format string, a ...interface{}) {
	s.FramingErrors = append(s.FramingErrors, fmt.Sprintf(format, a...))
	s.dead = true
}

// OnInput implements Reactor.
func (s *NCServer) OnInput(b []byte) []byte {
	var out []byte

	if s.Echo {
		e := b
		if s.EchoCRLF {
			e = bytes.ReplaceAll(b, []byte("\n"), []byte("\r\n"))
		}

		if s.HoldEcho {
			s.heldEcho = append(s.heldEcho, e...)
		} else {
			out = append(append(out, s.heldEcho...), e...)
			s.heldEcho = nil
		}
	}

	if s.dead {
		return out
	}

	s.buf = append(s.buf, b...)

	for !s.dead {
		if s.Version == "" {
			i := bytes.Index(s.buf, []byte(delim10))
			if i < 0 {
				break
			}

			s.ClientHello = string(s.buf[:i])
			s.buf = s.buf[i+len(delim10):]
			s.hellos++
			c11 := bytes.Contains([]byte(s.ClientHello), []byte("<capability>urn:ietf:params:netconf:base:1.1</capability>"))

			if c11 && s.Advertises["1.1"] {
				s.Version = "1.1"
			} else {
				s.Version = "1.0"
			}

			continue
		}

		var req *NCRequest

		if s.Version == "1.0" {
			req = s.next10()
		} else {
			req = s.next11()
		}

		if req == nil {
			break
		}

		if m := msgIDRe.FindStringSubmatch(req.Payload); m != nil {
			req.MsgID, _ = strconv.Atoi(m[1])
		}

		req.Version = s.Version
		s.Requests = append(s.Requests, *req)

		if s.ReplyMulti != nil {
			for _, rep := range s.ReplyMulti(s, *req) {
				if len(rep) > 0 {
					out = append(out, rep...)
					s.bounds = append(s.bounds, len(out))
				}
			}
		} else if s.Reply != nil {
			if rep := s.Reply(s, *req); len(rep) > 0 {
				out = append(out, rep...)
				s.bounds = append(s.bounds, len(out)) // a server message ends here: no read carries bytes beyond it
			}
		}
	}

	return out
}

// 1.0: optional whitespace (the returns the client sends after each message), payload, delimiter.
func (s *NCServer) next10() *NCRequest {
	i := bytes.Index(s.buf, []byte(delim10))
	if i < 0 {
		return nil
	}

	raw := s.buf[:i+len(delim10)]
	s.buf = s.buf[i+len(delim10):]
	lead := 0

	for lead < len(raw) && raw[lead] == '\n' {
		lead++
	}

	if lead == 0 && s.MissingLF > 0 {
		s.MissingLF--
	} else if lead != 1 {
		s.violation("1.0: %d line feeds between messages (the previous message must be followed by exactly one return)", lead)
	}

	return &NCRequest{Framed: string(raw[lead:]), Payload: string(raw[lead:i])}
}

// 1.1: strict RFC 6242: LF '#' size LF data ... LF '#' '#' LF, messages back to back.
func (s *NCServer) next11() *NCRequest {
	if len(s.buf) > 0 && s.buf[0] == '#' && s.MissingLF > 0 {
		s.MissingLF--
		s.buf = append([]byte("\n"), s.buf...)
	}

	b := s.buf
	pos := 0

	var payload []byte

	for {
		if len(b)-pos < 2 {
			return nil
		}

		if b[pos] != '\n' || b[pos+1] != '#' {
			s.violation("1.1: expected LF '#' at offset %d of the message, got %q", pos, b[pos:min(len(b), pos+12)])

			return nil
		}

		if len(b)-pos < 3 {
			return nil
		}

		if b[pos+2] == '#' {
			if len(b)-pos < 4 {
				return nil
			}

			if b[pos+3] != '\n' {
				s.violation("1.1: end-of-chunks not followed by LF: %q", b[pos:min(len(b), pos+12)])

				return nil
			}

			if payload == nil {
				s.violation("1.1: end-of-chunks without a chunk")

				return nil
			}

			raw := b[:pos+4]
			s.buf = b[pos+4:]

			return &NCRequest{Framed: string(raw), Payload: string(payload)}
		}

		j := pos + 2
		for j < len(b) && b[j] >= '0' && b[j] <= '9' && j-pos-2 < 11 {
			j++
		}

		if j == len(b) {
			return nil
		}

		if b[j] != '\n' || j == pos+2 || b[pos+2] == '0' || j-pos-2 > 10 {
			s.violation("1.1: bad chunk size %q", b[pos:min(len(b), j+1)])

			return nil
		}

		size, _ := strconv.Atoi(string(b[pos+2 : j]))
		if size > 4294967295 {
			s.violation("1.1: chunk size too large")

			return nil
		}

		if len(b)-(j+1) < size {
			return nil
		}

		payload = append(payload, b[j+1:j+1+size]...)
		pos = j + 1 + size
	}
}

func min(a, b int) int {
	if a < b {
		return a
	}

	return b
}

// Frame11 encodes payload as RFC 6242 chunks of the given sizes (the last chunk takes the rest).
func Frame11(payload []byte, sizes []int) []byte {
	var out bytes.Buffer

	rest := payload

	for _, n := range sizes {
		if len(rest) == 0 {
			break
		}

		if n < 1 {
			n = 1
		}

		if n > len(rest) {
			n = len(rest)
		}

		fmt.Fprintf(&out, "\n#%d\n", n)
		out.Write(rest[:n])
		rest = rest[n:]
	}

	if len(rest) > 0 {
		fmt.Fprintf(&out, "\n#%d\n", len(rest))
		out.Write(rest)
	}

	out.WriteString("\n##\n")

	return out.Bytes()
}

// Frame10 encodes payload in end-of-message framing.
func Frame10(payload []byte) []byte {
	return append(append([]byte(nil), payload...), []byte(delim10+"\n")...)
}

// HelloXML builds a server hello.
// WrapCapabilityText is consulted by HelloXML through HelloXMLWrapped only.
var WrapCapabilityText = false

// HelloXMLWrapped is HelloXML (pretty) with the text of every capability on a line of its own.
func HelloXMLWrapped(caps []string, sessionID string, prefix string) string {
	helloMu.Lock()
	defer helloMu.Unlock()

	WrapCapabilityText = true

	defer func() { WrapCapabilityText = false }()

	return helloXML(caps, sessionID, prefix, true, false)
}

var helloMu sync.Mutex

// HelloXML renders a server hello.
func HelloXML(caps []string, sessionID string, prefix string, pretty, decl bool) string {
	helloMu.Lock()
	defer helloMu.Unlock()

	return helloXML(caps, sessionID, prefix, pretty, decl)
}

func helloXML(caps []string, sessionID string, prefix string, pretty, decl bool) string {
	var b bytes.Buffer

	nl, ind := "", ""
	if pretty {
		nl, ind = "\n", "  "
	}

	if decl {
		b.WriteString(`<?xml version="1.0" encoding="UTF-8"?>` + nl)
	}

	p := ""
	if prefix != "" {
		p = prefix + ":"
		fmt.Fprintf(&b, `<%shello xmlns:%s="urn:ietf:params:xml:ns:netconf:base:1.0">%s`, p, prefix, nl)
	} else {
		b.WriteString(`<hello xmlns="urn:ietf:params:xml:ns:netconf:base:1.0">` + nl)
	}

	fmt.Fprintf(&b, "%s<%scapabilities>%s", ind, p, nl)

	for _, c := range caps {
		if WrapCapabilityText {
			// the capability on a line of its own between its tags (IOS-XE writes some of its capabilities like this)
			fmt.Fprintf(&b, "%s%s<%scapability>\n        %s\n      </%scapability>%s", ind, ind, p, c, p, nl)

			continue
		}

		fmt.Fprintf(&b, "%s%s<%scapability>%s</%scapability>%s", ind, ind, p, c, p, nl)
	}

	fmt.Fprintf(&b, "%s</%scapabilities>%s", ind, p, nl)

	if sessionID != "" {
		fmt.Fprintf(&b, "%s<%ssession-id>%s</%ssession-id>%s", ind, p, sessionID, p, nl)
	}

	fmt.Fprintf(&b, "</%shello>", p)
	b.WriteString(delim10)

	return b.String()
}
