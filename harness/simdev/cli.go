package simdev

import (
	"bytes"
)

// Ask is a pending hidden question (password prompt): input is not echoed until the next return.
type Ask struct {
	Prompt   string
	Echo     bool // the answer is echoed (confirm-style question); passwords are not
	OnAnswer func(c *CLI, answer string) string
}

// Recv is one complete line the device received, with the mode/state it arrived in.
type Recv struct {
	Mode  string `json:"mode"`
	State string `json:"state"` // "cmd" or "ask"
	Line  string `json:"line"`
}

// CLI is a line-oriented device: it echoes input (unless a hidden question is pending), and on
// every return hands the line to Handler and prints the output followed by the current prompt.
type CLI struct {
	Prompts map[string]string // mode -> prompt (as sent, may have trailing space)
	Mode    string
	Banner  string

	// Handler returns the output for a line received in command state. It may change c.Mode or
	// set c.Pending. ok=false means the device does not know the command.
	Handler func(c *CLI, line string) (out string)

	Pending *Ask

	EchoWrap  int  // >0: insert " \r" after every EchoWrap echoed bytes of a line
	EchoBreak bool // CR LF in front of the second echoed byte of a line (a terminal breaking the line at its right margin)
	breakDue  bool
	NoEcho    bool // device never echoes
	EOL       string
	line      []byte
	echoed    int
	Log       []Recv
	NoPrompt  bool // after the next output print no prompt (one shot)
	AlwaysEOL bool // EOL res EOL prompt even for empty res (the shape Channel.tla models)
	LastMode  string
	OnReturn  func(c *CLI) // called under the mutex after every processed return
	// AfterBare: printed behind the prompt that answers a bare return in command state, followed by the prompt again (an
	// asynchronous log message that makes the device redraw its prompt)
	AfterBare string
	// AfterPromptOnce: printed once behind the next prompt the device shows in command state (no prompt follows it)
	AfterPromptOnce string
	// Mute: the device swallows whatever it receives from now on and says nothing
	Mute bool
	// StartMode: when set, every new connection starts a session of its own in this mode (nothing of the previous session -
	// mode, pending question, half-typed line - survives)
	StartMode string
	// Return: the byte this device takes for the return key (0 = line feed; a console on a serial line wants a carriage return)
	Return byte
}

// Start implements Reactor.
func (c *CLI) Start() []byte {
	if c.EOL == "" {
		c.EOL = "\r\n"
	}

	if c.StartMode != "" {
		c.Mode, c.Pending, c.line, c.echoed, c.Mute = c.StartMode, nil, nil, 0, false
	}

	return []byte(c.Banner + c.Prompts[c.Mode])
}

// State implements Reactor.
func (c *CLI) State() string {
	if c.Pending != nil {
		return c.Mode + "/ask"
	}

	return c.Mode
}

// OnInput implements Reactor.
func (c *CLI) OnInput(b []byte) []byte {
	if c.Mute {
		return nil
	}

	var out bytes.Buffer

	ret := c.Return
	if ret == 0 {
		ret = '\n'
	}

	for _, ch := range b {
		if ch != ret {
			c.line = append(c.line, ch)

			if (c.Pending == nil || c.Pending.Echo) && !c.NoEcho {
				if c.breakDue {
					// the terminal breaks the line in front of the second character it echoes
					out.WriteString("\r\n")
					c.breakDue = false
				}

				out.WriteByte(ch)
				c.echoed++

				if c.EchoWrap > 0 && c.echoed%c.EchoWrap == 0 {
					out.WriteString(" \r")
				}

				if c.EchoBreak && c.echoed == 1 {
					c.breakDue = true
				}
			}

			continue
		}

		line := string(c.line)
		c.line = nil
		c.echoed = 0
		c.breakDue = false

		out.WriteString(c.EOL)

		var res string

		if c.Pending != nil {
			c.Log = append(c.Log, Recv{Mode: c.Mode, State: "ask", Line: line})
			a := c.Pending
			c.Pending = nil
			res = a.OnAnswer(c, line)
		} else {
			c.Log = append(c.Log, Recv{Mode: c.Mode, State: "cmd", Line: line})

			if line != "" && c.Handler != nil {
				res = c.Handler(c, line)
			}
		}

		if c.AlwaysEOL {
			out.WriteString(res)
			out.WriteString(c.EOL)
		} else if res != "" {
			out.WriteString(res)

			if !bytes.HasSuffix([]byte(res), []byte("\n")) {
				out.WriteString(c.EOL)
			}
		}

		switch {
		case c.Pending != nil:
			out.WriteString(c.Pending.Prompt)
		case c.NoPrompt:
			c.NoPrompt = false
		default:
			out.WriteString(c.Prompts[c.Mode])

			if c.AfterPromptOnce != "" {
				// something the device says behind its prompt, in the same piece of output (a console log line)
				out.WriteString(c.AfterPromptOnce)
				c.AfterPromptOnce = ""
			}

			if line == "" && c.AfterBare != "" {
				// twice: the first redrawn prompt then stands on a line of its own (the input typed next shares the line of the last one)
				out.WriteString(c.EOL + c.AfterBare + c.EOL + c.Prompts[c.Mode] + c.EOL + c.AfterBare + c.EOL + c.Prompts[c.Mode])
			}
		}

		if c.OnReturn != nil {
			c.OnReturn(c)
		}
	}

	return out.Bytes()
}
