package simdev

import "bytes"

// LoginStep is one step of a login dialogue script.
type LoginStep struct {
	Kind string `json:"kind"` // banner | askuser | askpass | askpassphrase | ssherr | shell | silence | eof
	Text string `json:"text"` // what the device prints for this step (prompt spelling, banner, error line)
}

// Login is a login front end in front of a CLI: it plays the script, records every answered
// question with the state it arrived in, and hands over to Inner when the script says "shell".
type Login struct {
	Steps    []LoginStep
	Inner    Reactor
	EchoUser bool
	OnEOF    func() // called (under the device mutex) when the script says the peer closes the stream
	// Trailer: what the device prints right after the first shell prompt without being asked (a late log line and the prompt again)
	Trailer string

	idx   int
	state string // "" | askuser | askpass | askpassphrase | shell | silence | end
	line  []byte
	Log   []Recv
	Stray [][]byte // input received while no question was pending
}

func (l *Login) advance(out *bytes.Buffer) {
	for l.idx < len(l.Steps) {
		st := l.Steps[l.idx]
		l.idx++

		switch st.Kind {
		case "banner", "ssherr":
			out.WriteString(st.Text)
		case "askuser", "askpass", "askpassphrase":
			out.WriteString(st.Text)
			l.state = st.Kind

			return
		case "shell":
			l.state = "shell"
			if l.Inner != nil {
				out.Write(l.Inner.Start())
			}

			out.WriteString(l.Trailer)

			return
		case "silence":
			l.state = "silence"

			return
		case "eof":
			// the peer drops the connection: everything printed so far is delivered, then reads see end-of-stream
			l.state = "eof"
			if l.OnEOF != nil {
				l.OnEOF()
			}

			return
		}
	}

	l.state = "end"
}

// Start implements Reactor.
func (l *Login) Start() []byte {
	var out bytes.Buffer

	// every connection is greeted from the top of the script
	l.idx, l.state, l.line = 0, "", nil

	l.advance(&out)

	return out.Bytes()
}

// State implements Reactor.
func (l *Login) State() string {
	if l.state == "shell" && l.Inner != nil {
		return "shell:" + l.Inner.State()
	}

	return l.state
}

// OnInput implements Reactor.
func (l *Login) OnInput(b []byte) []byte {
	if l.state == "shell" {
		if l.Inner != nil {
			return l.Inner.OnInput(b)
		}

		return nil
	}

	var out bytes.Buffer

	for _, ch := range b {
		switch l.state {
		case "askuser", "askpass", "askpassphrase":
			if ch != '\n' {
				l.line = append(l.line, ch)
				if l.state == "askuser" && l.EchoUser {
					out.WriteByte(ch)
				}

				continue
			}

			l.Log = append(l.Log, Recv{State: l.state, Line: string(l.line)})
			l.line = nil
			out.WriteString("\r\n")
			l.state = ""
			l.advance(&out)
		case "shell":
			if l.Inner != nil {
				out.Write(l.Inner.OnInput([]byte{ch}))
			}
		default:
			l.Stray = append(l.Stray, []byte{ch})
			l.Log = append(l.Log, Recv{State: "stray:" + l.state, Line: string([]byte{ch})})
		}
	}

	return out.Bytes()
}
