// Package simdev holds the scripted, causal device models used by every conformance harness:
// a byte pipe with a delivery scheduler (segmentation, delays, stall, loss, close behaviour)
// implementing transport.Implementation, and reactors (CLI device, login front end, NETCONF
// server) that produce output only in reaction to input.
package simdev

import (
	"bytes"
	"errors"
	"io"
	"math/rand"
	"regexp"
	"sync"
	"sync/atomic"
	"time"

	"github.com/scrapli/scrapligo/transport"
)

// Reactor is the device logic behind a Pipe: it is called under the pipe's mutex.
type Reactor interface {
	// Start returns what the device sends on connect (banner, first prompt, hello...).
	Start() []byte
	// OnInput is called for every Write of the client and returns the device's reaction.
	OnInput(b []byte) []byte
	// State names the state the device is in (recorded with every recv event).
	State() string
}

// Event is one device-side trace event; N is a sequence number taken under the pipe mutex.
type Event struct {
	N     int    `json:"n"`
	Ev    string `json:"ev"` // recv | deliver | close | readerr | writeerr
	B     string `json:"b,omitempty"`
	State string `json:"state,omitempty"`
	// Pos: for recv, number of bytes delivered so far (what the client can have seen).
	Pos int `json:"pos"`
}

var errEIO = errors.New("simdev: input/output error")

// errTimedOut is what a dead peer looks like after the kernel gave up: an error whose Timeout() is true ("connection timed out")
type timedOutErr struct{}

func (timedOutErr) Error() string   { return "simdev: read: connection timed out" }
func (timedOutErr) Timeout() bool   { return true }
func (timedOutErr) Temporary() bool { return false }

var errTimedOut error = timedOutErr{}

// ErrEIO is the persistent non-EOF error used by loss kind "err".
func ErrEIO() error { return errEIO }

var escRe = regexp.MustCompile("\x1b\\[[0-9;?]*[A-Za-z]|\x1b\\][^\x07]*\x07|\x1b\\([A-Za-z0-9]|\x1b[=>A-Z78]")

// Seg describes how the outbound stream is cut into reads.
type Seg struct {
	Mode string // "one" | "whole" | "rand" | "list" | "line"
	List []int  // chunk sizes for "list" (cycled)
	Max  int    // upper bound for "rand" (0 = 16)
}

// Pipe is a transport.Implementation delivering a reactor's output under a schedule.
type Pipe struct {
	mu   sync.Mutex
	cond *sync.Cond

	R Reactor

	out       []byte
	delivered int // absolute
	produced  int // absolute
	nocut     [][2]int
	bounds    []int // absolute offsets a single read never crosses (ends of server messages)
	MsgBounds bool  // the reactor reports where server messages end (TakeBounds); Start/Inject output ends a message
	mark      int

	Seg       Seg
	Rng       *rand.Rand
	ReadDelay time.Duration // sleep before each successful delivery (outside the lock)
	listIdx   int

	StallAt  int    // -1: none; else no delivery beyond mark+StallAt
	LoseAt   int    // -1: none
	LoseKind string // eof | err | werr
	lost     bool

	CloseBehaviour string // eof | err | stay | late : what a blocked/later Read does after Close
	LateOnClose    []byte // "late": what the Read that was under way at Close comes back with, 30 ms later
	failReadOnce   bool
	// Poll: Read does not block: it takes 200 us and returns nothing when nothing is there (a responsive reader)
	Poll            bool
	readers         int32
	CloseDuringRead int
	ReuseBuf        bool // Read returns a slice of one long-lived buffer (what it returned before is overwritten by the next read)
	rbuf            []byte
	CloseErr        error // returned by Close (which closes all the same): "connection reset by peer" and the like
	opened          bool
	closed          bool
	Closes          int
	OpenErr         error

	OnlCR       bool // every LF the device produces is delivered as CR LF
	RecordTrace bool
	Trace       []Event
	seq         int

	Writes   [][]byte // every Write in order (always recorded)
	States   []string // device state at each Write
	Reacts   []int    // length of the device's reaction to each Write
	ReactB   [][]byte // the reactions themselves
	StartB   []byte   // what was produced on connect
	StartLen int      // bytes produced on connect

	AuthType transport.InChannelAuthType // only used through the WithAuth wrapper

	LoseAtEnd string // "eof" | "err": once everything produced so far has been delivered the connection is gone (may be set by a reactor under the mutex)

	ReactDelay    time.Duration // the device's reactions are produced only after this delay (a client typing ahead becomes observable)
	pendingReacts int
	delayQ        chan delayed

	FailWrite map[int]bool // write number (0-based, counted over all Write calls) -> fail once with an error, nothing reaches the device
	writeNo   int
}

type delayed struct {
	at     time.Time
	b      []byte
	bounds []int
}

// NewPipe returns a pipe around reactor r.
func NewPipe(r Reactor, seed int64) *Pipe {
	p := &Pipe{R: r, StallAt: -1, LoseAt: -1, CloseBehaviour: "eof", Seg: Seg{Mode: "whole"}}
	p.cond = sync.NewCond(&p.mu)
	p.Rng = rand.New(rand.NewSource(seed))

	return p
}

func (p *Pipe) ev(kind string, b []byte) {
	if !p.RecordTrace {
		return
	}

	p.seq++
	st := ""

	if p.R != nil {
		st = p.R.State()
	}

	p.Trace = append(p.Trace, Event{N: p.seq, Ev: kind, B: string(b), State: st, Pos: p.delivered})
}

// delivOff maps an offset into what the device wrote to the offset in what is delivered (CR LF for LF).
func (p *Pipe) delivOff(b []byte, off int) int {
	if !p.OnlCR || off > len(b) {
		return off
	}

	return off + bytes.Count(b[:off], []byte("\n"))
}

func (p *Pipe) produce(b []byte) {
	if len(b) == 0 {
		return
	}

	if p.OnlCR {
		// a terminal line discipline between the peer and us (onlcr): every line feed arrives as CR LF
		b = bytes.ReplaceAll(b, []byte("\n"), []byte("\r\n"))
	}

	base := p.produced
	for _, m := range escRe.FindAllIndex(b, -1) {
		p.nocut = append(p.nocut, [2]int{base + m[0], base + m[1]})
	}

	p.out = append(p.out, b...)
	p.produced += len(b)
}

// Open implements transport.Implementation.
func (p *Pipe) Open(_ *transport.Args) error {
	p.mu.Lock()
	defer p.mu.Unlock()

	if p.OpenErr != nil {
		return p.OpenErr
	}

	if p.closed {
		// a new session through the same transport object
		p.closed = false
		p.lost = false
		p.out = nil
		p.nocut = nil
		p.bounds = nil
		p.delivered = p.produced
		p.mark = p.produced
		p.StallAt, p.LoseAt = -1, -1
	}

	p.opened = true
	if p.R != nil {
		st := p.R.Start()
		p.StartLen = len(st)
		p.StartB = append([]byte(nil), st...)
		p.produce(st)

		if p.MsgBounds {
			p.bounds = append(p.bounds, p.produced)
		}
	}

	p.cond.Broadcast()

	return nil
}

// Close implements transport.Implementation.
func (p *Pipe) Close() error {
	p.mu.Lock()
	defer p.mu.Unlock()

	if atomic.LoadInt32(&p.readers) > 0 {
		p.CloseDuringRead++ // only a forced close gets here while a Read is under way (an orderly one waits for the read lock)
	}

	p.Closes++
	p.closed = true
	p.ev("close", nil)
	p.cond.Broadcast()

	// the connection is closed either way; CloseErr is what the operating system had to say about it
	return p.CloseErr
}

// IsAlive implements transport.Implementation.
func (p *Pipe) IsAlive() bool {
	p.mu.Lock()
	defer p.mu.Unlock()

	return p.opened && !p.closed && !p.lost
}

func (p *Pipe) chunk(n int) int {
	avail := len(p.out)
	if p.StallAt >= 0 {
		lim := p.mark + p.StallAt - p.delivered
		if lim < avail {
			avail = lim
		}
	}

	if p.LoseAt >= 0 {
		lim := p.mark + p.LoseAt - p.delivered
		if lim < avail {
			avail = lim
		}
	}

	for len(p.bounds) > 0 && p.bounds[0] <= p.delivered {
		p.bounds = p.bounds[1:]
	}

	if len(p.bounds) > 0 && p.bounds[0]-p.delivered < avail {
		avail = p.bounds[0] - p.delivered
	}

	if avail <= 0 {
		return 0
	}

	k := avail
	if n > 0 && n < k {
		k = n
	}

	switch p.Seg.Mode {
	case "one":
		k = 1
	case "rand":
		mx := p.Seg.Max
		if mx == 0 {
			mx = 16
		}

		if r := 1 + p.Rng.Intn(mx); r < k {
			k = r
		}
	case "list":
		if len(p.Seg.List) > 0 {
			want := p.Seg.List[p.listIdx%len(p.Seg.List)]
			p.listIdx++

			if want >= 1 && want < k {
				k = want
			}
		}
	case "line":
		for i := 0; i < k; i++ {
			if p.out[i] == '\n' {
				k = i + 1

				break
			}
		}
	}
	// never cut inside an escape sequence
	cut := p.delivered + k
	for _, s := range p.nocut {
		if cut > s[0] && cut < s[1] {
			if s[0] > p.delivered {
				k = s[0] - p.delivered
			} else {
				k = s[1] - p.delivered // deliver the whole sequence (may exceed a stall point by < len(seq))
				if n > 0 && k > n {
					k = n // precondition violated by the scenario (read size < escape sequence)
				}
			}

			break
		}
	}

	return k
}

// Read implements transport.Implementation.
func (p *Pipe) Read(n int) ([]byte, error) {
	slept := false

	atomic.AddInt32(&p.readers, 1)
	defer atomic.AddInt32(&p.readers, -1)

	if p.Poll {
		// a transport that reads with a short deadline: the call takes a moment and comes back empty-handed when nothing is there
		time.Sleep(200 * time.Microsecond)
	}

	p.mu.Lock()

	for {
		if p.closed {
			switch p.CloseBehaviour {
			case "late":
				// the Read that was under way when the transport was closed comes back a little later with the last bytes the
				// peer had sent (once); after that the stream has ended
				if !slept && len(p.LateOnClose) > 0 {
					b := p.LateOnClose
					p.LateOnClose = nil
					p.mu.Unlock()
					time.Sleep(30 * time.Millisecond)
					p.mu.Lock()
					p.ev("deliver-late", b)
					p.mu.Unlock()

					return b, nil
				}

				p.mu.Unlock()

				return nil, io.EOF
			case "err":
				p.mu.Unlock()
				return nil, errEIO
			case "stay":
				p.cond.Wait()
				continue
			default:
				p.mu.Unlock()
				return nil, io.EOF
			}
		}

		if p.failReadOnce {
			// a transient read error: this one Read fails, the connection stays usable
			p.failReadOnce = false
			p.ev("readerr", []byte("transient"))
			p.mu.Unlock()

			return nil, errEIO
		}

		if p.LoseAtEnd != "" && len(p.out) == 0 && p.pendingReacts == 0 {
			p.lost = true
			p.LoseKind = p.LoseAtEnd
			p.ev("readerr", []byte(p.LoseAtEnd))
			kind := p.LoseAtEnd
			p.mu.Unlock()

			if kind == "eof" {
				return nil, io.EOF
			}

			if kind == "errtmo" {
				return nil, errTimedOut
			}

			return nil, errEIO
		}

		if p.LoseAt >= 0 && p.LoseKind != "werr" && p.delivered >= p.mark+p.LoseAt {
			p.lost = true
			p.ev("readerr", []byte(p.LoseKind))
			kind := p.LoseKind
			p.mu.Unlock()

			if kind == "eof" || kind == "eofhalf" {
				return nil, io.EOF
			}

			if kind == "errtmo" {
				return nil, errTimedOut
			}

			return nil, errEIO
		}

		if k := p.chunk(n); k > 0 {
			// the pacing delay comes BEFORE the bytes are taken and counted: while it lasts they are still on their way
			// (a position recorded by a concurrent Write must not count bytes the library has not been handed yet)
			if d := p.ReadDelay; d > 0 && !slept {
				slept = true

				p.mu.Unlock()
				time.Sleep(d)
				p.mu.Lock()

				continue
			}

			var b []byte

			if p.ReuseBuf {
				// an io.Reader-style transport: every read is handed out in the same buffer
				if cap(p.rbuf) < k {
					p.rbuf = make([]byte, 0, 16384+k)
				}

				b = p.rbuf[:k]
			} else {
				b = make([]byte, k)
			}

			copy(b, p.out[:k])
			p.out = p.out[k:]
			p.delivered += k
			p.ev("deliver", b)
			p.cond.Broadcast()
			p.mu.Unlock()

			return b, nil
		}

		if p.Poll {
			p.mu.Unlock()

			return nil, nil
		}

		p.cond.Wait()
	}
}

// Write implements transport.Implementation.
func (p *Pipe) Write(b []byte) error {
	p.mu.Lock()
	defer p.mu.Unlock()

	if p.closed {
		return errors.New("simdev: write on closed transport")
	}

	wn := p.writeNo
	p.writeNo++

	if p.FailWrite[wn] {
		p.ev("writeerr", b)

		return errEIO
	}

	if p.lost && (p.LoseKind == "eofhalf" || p.LoseKind == "errhalf") {
		// half-closed connection: the write is accepted by the local end and goes nowhere
		p.ev("recv-lost", b)

		return nil
	}

	if p.lost || (p.LoseAt >= 0 && p.LoseKind == "werr" && p.delivered >= p.mark+p.LoseAt) {
		p.lost = true
		p.ev("writeerr", b)

		return errEIO
	}

	cp := append([]byte(nil), b...)
	p.Writes = append(p.Writes, cp)

	if p.R != nil {
		p.States = append(p.States, p.R.State())
	} else {
		p.States = append(p.States, "")
	}

	p.ev("recv", cp)

	if p.R != nil {
		out := p.R.OnInput(cp)

		var offs []int

		if bt, ok := p.R.(interface{ TakeBounds() []int }); ok && p.MsgBounds {
			offs = bt.TakeBounds()
		}

		p.Reacts = append(p.Reacts, len(out))
		p.ReactB = append(p.ReactB, append([]byte(nil), out...))

		if p.ReactDelay > 0 && len(out) > 0 {
			p.pendingReacts++

			if p.delayQ == nil {
				p.delayQ = make(chan delayed, 1024)

				go p.delayWorker()
			}

			p.delayQ <- delayed{at: time.Now().Add(p.ReactDelay), b: out, bounds: offs}
		} else {
			for _, off := range offs {
				p.bounds = append(p.bounds, p.produced+p.delivOff(out, off))
			}

			p.produce(out)
		}
	} else {
		p.Reacts = append(p.Reacts, 0)
		p.ReactB = append(p.ReactB, nil)
	}

	p.cond.Broadcast()

	return nil
}

func (p *Pipe) delayWorker() {
	for d := range p.delayQ {
		if w := time.Until(d.at); w > 0 {
			time.Sleep(w)
		}

		p.mu.Lock()

		for _, off := range d.bounds {
			p.bounds = append(p.bounds, p.produced+p.delivOff(d.b, off))
		}

		p.produce(d.b)
		p.pendingReacts--
		p.cond.Broadcast()
		p.mu.Unlock()
	}
}

// MarkAbs returns the absolute stream offset of the mark.
func (p *Pipe) MarkAbs() int {
	p.mu.Lock()
	defer p.mu.Unlock()

	return p.mark
}

// Inject makes the device send b spontaneously.
func (p *Pipe) Inject(b []byte) {
	p.mu.Lock()
	defer p.mu.Unlock()

	p.produce(b)

	if p.MsgBounds {
		p.bounds = append(p.bounds, p.produced)
	}

	p.cond.Broadcast()
}

// WaitDrained blocks until everything produced so far has been delivered (or timeout).
func (p *Pipe) WaitDrained(d time.Duration) bool {
	deadline := time.Now().Add(d)

	for time.Now().Before(deadline) {
		p.mu.Lock()
		ok := len(p.out) == 0 && p.pendingReacts == 0
		p.mu.Unlock()

		if ok {
			return true
		}

		time.Sleep(50 * time.Microsecond)
	}

	return false
}

// Mark sets the origin for StallAt / LoseAt to the current end of the produced stream.
func (p *Pipe) Mark() {
	p.mu.Lock()
	defer p.mu.Unlock()

	p.mark = p.produced
}

// StallFromHere withholds everything produced from now on; for use INSIDE a Reactor (the pipe's lock is held there): the
// device acts on what it received, its answer never arrives.
func (p *Pipe) StallFromHere() {
	p.mark = p.produced
	p.StallAt = 0
}

// SetStall stalls delivery after k bytes past the mark (-1 removes the stall = catch up).
func (p *Pipe) SetStall(k int) {
	p.mu.Lock()
	defer p.mu.Unlock()

	p.StallAt = k
	p.cond.Broadcast()
}

// FailReadOnce makes the Read in progress (or the next one) return an error once; nothing is lost, the connection stays usable.
func (p *Pipe) FailReadOnce() {
	p.mu.Lock()
	defer p.mu.Unlock()

	p.failReadOnce = true
	p.cond.Broadcast()
}

// LoseFromHere: the connection breaks now - nothing of what the device has produced and not yet delivered, or produces from
// now on, arrives; the next Read reports the loss. For use INSIDE a Reactor (the pipe's lock is held there).
func (p *Pipe) LoseFromHere(kind string) {
	p.LoseKind = kind
	p.LoseAt = p.delivered - p.mark

	if p.LoseAt < 0 {
		p.LoseAt = 0
		p.mark = p.delivered
	}

	p.cond.Broadcast()
}

// SetLoss drops the connection after k bytes past the mark.
func (p *Pipe) SetLoss(kind string, k int) {
	p.mu.Lock()
	defer p.mu.Unlock()

	p.LoseKind = kind
	p.LoseAt = k
	p.cond.Broadcast()
}

// WriteCount returns how many Write calls were made so far.
func (p *Pipe) WriteCount() int {
	p.mu.Lock()
	defer p.mu.Unlock()

	return p.writeNo
}

// ArmWriteFailure makes the n-th Write from now (0 = the next one) fail once.
func (p *Pipe) ArmWriteFailure(n int) {
	p.mu.Lock()
	defer p.mu.Unlock()

	if p.FailWrite == nil {
		p.FailWrite = map[int]bool{}
	}

	p.FailWrite[p.writeNo+n] = true
}

// Counters returns delivered-since-mark and produced-since-mark.
func (p *Pipe) Counters() (delivered, produced int) {
	p.mu.Lock()
	defer p.mu.Unlock()

	return p.delivered - p.mark, p.produced - p.mark
}

// Closed reports how often Close was called.
func (p *Pipe) Closed() int {
	p.mu.Lock()
	defer p.mu.Unlock()

	return p.Closes
}

// Received returns the concatenation of all writes.
func (p *Pipe) Received() []byte {
	p.mu.Lock()
	defer p.mu.Unlock()

	var r []byte
	for _, w := range p.Writes {
		r = append(r, w...)
	}

	return r
}

// Snapshot returns a copy of the trace.
func (p *Pipe) Snapshot() []Event {
	p.mu.Lock()
	defer p.mu.Unlock()

	return append([]Event(nil), p.Trace...)
}

// Lock/Unlock expose the device mutex so a harness can read reactor state consistently.
func (p *Pipe) Lock()   { p.mu.Lock() }
func (p *Pipe) Unlock() { p.mu.Unlock() }

// AuthPipe adds the in-channel-auth interfaces to a Pipe (login scenarios only).
type AuthPipe struct {
	*Pipe
	SSH *transport.SSHArgs
}

// GetInChannelAuthType implements transport.InChannelAuthImplementation.
func (a *AuthPipe) GetInChannelAuthType() transport.InChannelAuthType { return a.AuthType }

// GetSSHArgs implements transport.SSHImplementation.
func (a *AuthPipe) GetSSHArgs() *transport.SSHArgs {
	if a.SSH == nil {
		a.SSH = &transport.SSHArgs{}
	}

	return a.SSH
}
