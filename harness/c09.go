package main

import (
	"encoding/json"
	"fmt"
	"github.com/scrapli/scrapligo/driver/opoptions"
	"github.com/scrapli/scrapligo/driver/options"
	"github.com/scrapli/scrapligo/util"
	"reflect"
	"strings"
	"time"

	"verifharness/simdev"
)

// C09: every scenario of NcHello.tla: Open against a server model with that hello.

func init() { register("c09", c09) }

type c09Scn struct {
	Adv10    bool   `json:"adv10"`
	Adv11    bool   `json:"adv11"`
	Pref     string `json:"pref"`
	Layout   string `json:"layout"`
	Prefix   string `json:"prefix"`
	Extra    string `json:"extra"`
	Sid      string `json:"sid"`
	Echo     bool   `json:"echo"`
	Tail     string `json:"tail"`
	Class    string `json:"class"`
	Selected string `json:"selected"`
	Seg      string `json:"seg,omitempty"`
	Idx      *int   `json:"idx,omitempty"` // replay: the position the scenario had in its run
	idx      int
}

func c09Run(s *c09Scn, segName string) verdict {
	v := verdict{ID: s.idx, Variant: segName, OK: true, Nontrivial: true}
	caps := []string{}

	switch s.Extra {
	case "ordinary":
		caps = append(caps, "urn:ietf:params:netconf:capability:candidate:1.0", "http://example.com/yang?module=a&revision=2020-01-01")
	case "many":
		for k := 0; k < 40; k++ {
			caps = append(caps, fmt.Sprintf("http://example.com/yang/module-%02d?module=module-%02d&amp;revision=2021-03-%02d", k, k, 1+k%28))
		}
	case "lookalike":
		caps = append(caps, "urn:ietf:params:netconf:base:1.10", "urn:vendor:x:urn:ietf:params:netconf:base:1.1:ext", "urn:ietf:params:netconf:base:1.0.1")
	}

	if s.Adv10 {
		caps = append(caps, cap10)
	}

	if s.Adv11 {
		caps = append([]string{cap11}, caps...)
	}

	// the model's prefix "nc" stands for any namespace prefix a server may choose; the spelling is picked from the cell
	// (letters, digits, underscore: ElementTree's ns0, libnetconf's nc, generated n1 / nc_base)
	if s.Prefix == "nc" {
		spell := []string{"nc", "ns0", "n1", "nc_base", "NC"}
		h := len(s.Layout)*7 + len(s.Extra)*3 + len(s.Sid) + len(s.Pref)*5 + len(s.Tail)
		if s.Adv10 {
			h += 11
		}

		if s.Adv11 {
			h += 13
		}

		if s.Echo {
			h++
		}

		s.Prefix = spell[h%len(spell)]
	}

	hello := simdev.HelloXML(caps, s.Sid, s.Prefix, s.Layout != "oneline", s.Layout == "decl")
	if s.Layout == "wrapped" {
		hello = simdev.HelloXMLWrapped(caps, s.Sid, s.Prefix)
	}

	if s.Tail == "nl" {
		hello += "\n"

		if s.idx%2 == 0 {
			hello += "\n" // an empty line behind the delimiter: two line feeds
		}
	}

	pref := s.Pref

	if pref == "none" {
		pref = ""
	}

	var extra []util.Option
	if s.idx%3 == 0 {
		// the option changes what later requests look like, not how they are framed
		extra = append(extra, options.WithNetconfForceSelfClosingTags())
	}

	if s.idx%7 == 4 && s.Class == "ok" {
		// "no timeout": zero stands for the longest possible wait, for the hello exchange as for every operation
		extra = append(extra, options.WithTimeoutOps(0))
	}

	sess, err := newNcSession(ncConfig{adv10: s.Adv10, adv11: s.Adv11, preferred: pref, echo: s.Echo, seg: faultSegs[segName], seed: int64(s.idx),
		// some cells over a transport that logs in inside the byte stream; short hellos only: the login loop looks through everything
		// read so far after every read, which with one byte per read and forty capabilities takes longer than any budget
		inChannelAuth: s.idx%3 == 1 && (s.Extra == "none" || s.Extra == "ordinary"),
		timeout:       8 * time.Second, hello: hello, reply: ncReplyOK, extra: extra}) // no cell's outcome is a timeout: the budget only has to be generous (forty wrapped capabilities, one byte per read, a loaded machine)
	if err != nil {
		fail(&v, "C09:new-error", "%v", err)

		return v
	}

	if s.idx%4 == 1 && s.Class == "ok" {
		// a first session with ANOTHER hello (base:1.0 only, capabilities of its own) on the same driver object, closed again:
		// everything the second open reports must come from the second hello alone
		sess.pipe.Lock()
		sess.srv.Hello = simdev.HelloXML([]string{cap10, "urn:first:session:only"}, "999", "", true, false)
		sess.srv.Advertises = map[string]bool{"1.0": true, "1.1": false}
		sess.pipe.Unlock()

		pv := sess.d.PreferredVersion
		sess.d.PreferredVersion = ""

		var e1 error

		fin1, _ := withWatchdog(12*time.Second, func() {
			if e1 = sess.d.Open(); e1 == nil {
				e1 = sess.d.Close()
			}
		})
		if !fin1 || e1 != nil {
			// an Open like any other: the hello of the preliminary session is in order
			fail(&v, "C09:open-outcome:preliminary-session", "the preliminary session (hello with base:1.0 only, session-id 999) failed: returned=%v err=%v", fin1, e1)

			return v
		}

		sess.d.PreferredVersion = pv

		sess.pipe.Lock()
		sess.srv.Hello = hello
		sess.srv.Advertises = map[string]bool{"1.0": s.Adv10, "1.1": s.Adv11}
		sess.srv.Requests = nil
		sess.srv.FramingErrors = nil
		sess.pipe.Unlock()
	}

	helloWriteFails := s.idx%5 == 2
	if helloWriteFails {
		// the transport refuses the write that carries the client's hello: Open must not report success
		sess.pipe.ArmWriteFailure(0)
	}

	var oerr error

	fin, pan := withWatchdog(12*time.Second, func() { oerr = sess.d.Open() })
	cell := fmt.Sprintf("adv10=%v,adv11=%v,pref=%s", s.Adv10, s.Adv11, s.Pref)

	switch {
	case !fin:
		fail(&v, "C09:open-hang", "Open did not return (%s)", cell)

		return v
	case pan != nil:
		fail(&v, "C09:open-panic", "Open panicked: %v", pan)

		return v
	}

	defer func() { _, _ = withWatchdog(3*time.Second, func() { _ = sess.d.Close() }) }()

	if helloWriteFails {
		if oerr == nil && s.Class == "ok" {
			fail(&v, "C09:open-success-without-hello", "the write of the client's hello failed, Open reported success (%s)", cell)
		}

		if !v.OK || s.Class != "ok" || oerr == nil {
			return v
		}

		// the usual reaction: try again on the same object. This Open is an Open like any other: everything below holds for it
		sess.pipe.Lock()
		sess.srv.Requests, sess.srv.FramingErrors = nil, nil
		sess.pipe.Unlock()

		fin, pan = withWatchdog(8*time.Second, func() {
			if s.idx%2 == 0 {
				_ = sess.d.Close()
			}

			oerr = sess.d.Open()
		})
		if !fin || pan != nil {
			fail(&v, "C09:open-again-after-failed-open", "Open after an Open that failed at the write of the hello: returned=%v panic=%v", fin, pan)

			return v
		}

		cell += ",after-a-failed-open"
	}

	got := errClass(oerr)
	if got != s.Class {
		fail(&v, "C09:open-outcome:"+cell, "Open: %v (class %s), table says %s (selected %q); hello %q", oerr, got, s.Class, s.Selected, hello)

		return v
	}

	sess.pipe.Lock()
	hellos := 0
	clientHello := sess.srv.ClientHello
	srvVersion := sess.srv.Version
	ferrs := append([]string(nil), sess.srv.FramingErrors...)
	closes := sess.pipe.Closes
	sess.pipe.Unlock()

	if s.Class != "ok" {
		if closes == 0 {
			fail(&v, "C09:failed-open-leaves-transport-open", "Open failed (%v) but the transport was not closed", oerr)
		}

		return v
	}

	if sess.d.SelectedVersion != s.Selected {
		fail(&v, "C09:selected-version:"+cell, "SelectedVersion %q, table says %q", sess.d.SelectedVersion, s.Selected)

		return v
	}

	if !reflect.DeepEqual(sess.d.ServerCapabilities(), caps) {
		fail(&v, "C09:capabilities:"+s.Layout+":"+s.Prefix, "ServerCapabilities %q, hello has %q (layout %s prefix %q)", sess.d.ServerCapabilities(), caps, s.Layout, s.Prefix)

		return v
	}

	wantSid := uint64(0)
	if s.Sid != "" {
		fmt.Sscanf(s.Sid, "%d", &wantSid)
	}

	if sess.d.SessionID() != wantSid {
		fail(&v, "C09:session-id:prefix="+s.Prefix, "SessionID() = %d, hello says %q (prefix %q)", sess.d.SessionID(), s.Sid, s.Prefix)

		return v
	}

	// the client's hello: one message, 1.0 framing, advertising exactly the selected base version
	if clientHello == "" {
		fail(&v, "C09:client-hello-missing", "server never saw a complete client hello in end-of-message framing")

		return v
	}

	n10 := strings.Count(clientHello, "<capability>"+cap10+"</capability>")
	n11 := strings.Count(clientHello, "<capability>"+cap11+"</capability>")
	ncap := strings.Count(clientHello, "<capability>")
	_ = hellos

	if strings.Count(clientHello, "<hello") != 1 || ncap != 1 || (s.Selected == "1.0" && n10 != 1) || (s.Selected == "1.1" && n11 != 1) {
		fail(&v, "C09:client-hello-content", "client hello %q does not advertise exactly base:%s", clientHello, s.Selected)

		return v
	}

	// later traffic uses the selected framing: one RPC, strictly decoded by the server in the framing both hellos imply
	// (with the connection-wide value 0 the operation names its own timeout: what the connection-wide zero means for an
	// operation is not part of this property)
	r, gerr := sess.d.Get("", opoptions.WithTimeoutOps(3*time.Second))
	sess.pipe.Lock()
	ferrs = append([]string(nil), sess.srv.FramingErrors...)
	nreq := len(sess.srv.Requests)
	sess.pipe.Unlock()

	switch {
	case srvVersion != s.Selected:
		fail(&v, "C09:framing-negotiation", "server derives %s from the two hellos, client selected %s", srvVersion, s.Selected)
	case len(ferrs) > 0:
		fail(&v, "C09:first-rpc-framing", "first RPC violates %s framing: %v", s.Selected, ferrs)
	case gerr != nil || nreq != 1:
		fail(&v, "C09:first-rpc", "first RPC after open: err %v, server decoded %d requests", gerr, nreq)
	case r.Failed != nil || !strings.Contains(r.Result, "<v>101</v>"):
		fail(&v, "C09:first-rpc-reply", "first RPC reply not decoded in the selected framing: %q failed=%v", r.Result, r.Failed)
	}

	return v
}

func c09(_ []string) error {
	var scns []*c09Scn

	if err := readScenarios(func(raw json.RawMessage) error {
		s := &c09Scn{}
		if err := json.Unmarshal(raw, s); err != nil {
			return err
		}

		s.idx = len(scns)
		if s.Idx != nil {
			s.idx = *s.Idx
		}

		scns = append(scns, s)

		return nil
	}); err != nil {
		return err
	}

	segs := []string{"rand", "one", "whole"}

	type job struct {
		s   *c09Scn
		seg string
	}

	var jobs []job

	for _, s := range scns {
		if s.Seg != "" {
			jobs = append(jobs, job{s, s.Seg})

			continue
		}

		jobs = append(jobs, job{s, segs[s.idx%3]})

		if tier() == "thorough" {
			jobs = append(jobs, job{s, segs[(s.idx+1)%3]}, job{s, segs[(s.idx+2)%3]})
		}
	}

	parallel(len(jobs), 12, func(i int) { emit(c09Run(jobs[i].s, jobs[i].seg)) })

	return nil
}
