package main

import (
	"encoding/json"
	"errors"
	"fmt"
	"os"
	"path/filepath"
	"strings"
	"time"

	"github.com/scrapli/scrapligo/driver/generic"
	"github.com/scrapli/scrapligo/driver/network"
	"github.com/scrapli/scrapligo/driver/opoptions"
	"github.com/scrapli/scrapligo/driver/options"
	"github.com/scrapli/scrapligo/response"
	"github.com/scrapli/scrapligo/util"

	"verifharness/simdev"
)

// C13: every scenario of FailMark.tla on every send-commands / send-configs variant.

func init() { register("c13", c13) }

type c13Scn struct {
	N           int      `json:"n"`
	Stop        bool     `json:"stop"`
	Cmds        []string `json:"cmds"`
	Outs        []string `json:"outs"`
	Drv         []string `json:"drv"`
	Op          []string `json:"op"`
	Prompt      string   `json:"prompt"`
	NSent       int      `json:"nsent"`
	Results     []string `json:"results"`
	Failed      []bool   `json:"failed"`
	ErrStr      []string `json:"errstr"`
	FailedIdx   []int    `json:"failedIdx"`
	MultiFailed bool     `json:"multiFailed"`
	Variant     string   `json:"variant,omitempty"`
	Idx         *int     `json:"idx,omitempty"` // replay: the position the scenario had in its batch
	idx         int
}

var c13Variants = []string{"g.cmds", "g.file", "n.cmds", "n.cfgs", "n.cfg", "n.cfgsfile", "n.file", "g.cmd1"}

func conc(ss []string) []string {
	r := make([]string, len(ss))
	for i, s := range ss {
		r[i] = concretise(s, nil)
	}

	return r
}

func c13Run(s *c13Scn, variant string) verdict {
	v := verdict{ID: s.idx, Variant: variant, OK: true, Nontrivial: s.MultiFailed}
	cmds, outs := conc(s.Cmds), conc(s.Outs)
	results, errstr := conc(s.Results), conc(s.ErrStr)
	isNet := strings.HasPrefix(variant, "n.")
	cli := &simdev.CLI{
		Prompts: map[string]string{"exec": "e# ", "configuration": "e(c)# "}, Mode: "exec", Banner: "f \n", AlwaysEOL: true,
		Handler: func(c *simdev.CLI, line string) string {
			switch {
			case line == "conf" && c.Mode == "exec":
				c.Mode = "configuration"

				return ""
			case line == "end" && c.Mode == "configuration":
				c.Mode = "exec"

				return ""
			}

			for i, cm := range cmds {
				if line == cm {
					return outs[i]
				}
			}

			return "? unknown"
		},
	}
	pipe := simdev.NewPipe(cli, int64(s.idx))
	pipe.Seg = simdev.Seg{Mode: "rand", Max: 9}
	// a list that would mark every answer that says anything: given where it must NOT be in force
	var everything []string

	for _, o := range outs {
		if t := strings.TrimSpace(o); t != "" {
			everything = append(everything, t)
		}
	}

	everything = append(everything, "? unknown")

	opts := []util.Option{
		options.WithCustomTransport(pipe),
		options.WithReadDelay(20 * time.Microsecond),
		options.WithTimeoutOps(4 * time.Second),
	}

	if s.idx%2 == 0 {
		// the driver-level list is given twice (a platform's default, then the user's): the later one replaces the earlier one
		opts = append(opts, options.WithFailedWhenContains(everything))
	}

	opts = append(opts, options.WithFailedWhenContains(conc(s.Drv)))

	var opOpts []util.Option

	// options of other layers (channel, network) may stand anywhere in the list: they are ignored by the layer that does not
	// know them and must not keep later options from taking effect
	switch s.idx % 4 {
	case 1:
		opOpts = append(opOpts, opoptions.WithTimeoutOps(4*time.Second))
	case 2:
		opOpts = append(opOpts, opoptions.WithExactMatchInput(), opoptions.WithPrivilegeLevel(""))
	}

	if len(s.Op) > 0 {
		opOpts = append(opOpts, opoptions.WithFailedWhenContains(conc(s.Op)))
	} else if s.idx%3 == 0 {
		// an operation-level list that is given but empty is no list: the driver's one stays in force
		opOpts = append(opOpts, opoptions.WithFailedWhenContains([]string{}))
	}

	if s.Stop {
		opOpts = append(opOpts, opoptions.WithStopOnFailed())
	}

	if s.idx%4 == 3 {
		opOpts = append(opOpts, opoptions.WithTimeoutOps(4*time.Second))
	}

	var gd *generic.Driver

	var nd *network.Driver

	var err error

	if isNet {
		lv := map[string]*network.PrivilegeLevel{
			"exec":          {Name: "exec", Pattern: `(?im)^[a-z\d]{1,48}#\s?$`},
			"configuration": {Name: "configuration", Pattern: `(?im)^[a-z\d]{1,48}\(c\)#\s?$`, PreviousPriv: "exec", Escalate: "conf", Deescalate: "end"},
		}
		opts = append(opts, options.WithPrivilegeLevels(lv), options.WithDefaultDesiredPriv("exec"))

		nd, err = network.NewDriver("sim", opts...)
		if err == nil {
			err = nd.Open()
		}
	} else {
		gd, err = generic.NewDriver("sim", opts...)
		if err == nil {
			err = gd.Open()
		}
	}

	if err != nil {
		fail(&v, "C13:"+variant+":open-error", "open: %v", err)

		return v
	}

	if s.idx%3 == 1 {
		// an earlier operation on the same driver with a list of its own: that list is in force for that operation only
		var r0 *response.Response

		var e0 error

		fin0, pan0 := withWatchdog(10*time.Second, func() {
			if nd != nil {
				r0, e0 = nd.SendCommand("pre0", opoptions.WithFailedWhenContains(everything))
			} else {
				r0, e0 = gd.SendCommand("pre0", opoptions.WithFailedWhenContains(everything))
			}
		})

		switch {
		case !fin0 || pan0 != nil || e0 != nil:
			fail(&v, "C13:"+variant+":earlier-operation", "the earlier operation: returned=%v panic=%v err=%v", fin0, pan0, e0)
		case r0.Failed == nil:
			fail(&v, "C13:"+variant+":earlier-operation:member-failed-flag", "the earlier operation (list %q) returned %q and was not marked", everything, r0.Result)
		}

		if !v.OK {
			return v
		}
	}

	var m *response.MultiResponse

	var single *response.Response

	file := ""
	if strings.HasSuffix(variant, "file") {
		file = filepath.Join(os.Getenv("VERIF_TMP"), fmt.Sprintf("c13-%d-%s.txt", s.idx, variant))
		_ = os.WriteFile(file, []byte(strings.Join(cmds, "\n")), 0o600)

		defer os.Remove(file)
	}

	fin, pan := withWatchdog(30*time.Second, func() {
		switch variant {
		case "g.cmds":
			m, err = gd.SendCommands(cmds, opOpts...)
		case "g.file":
			m, err = gd.SendCommandsFromFile(file, opOpts...)
		case "n.cmds":
			m, err = nd.SendCommands(cmds, opOpts...)
		case "n.cfgs":
			m, err = nd.SendConfigs(cmds, opOpts...)
		case "n.cfgsfile":
			m, err = nd.SendConfigsFromFile(file, opOpts...)
		case "n.file":
			m, err = nd.SendCommandsFromFile(file, opOpts...)
		case "g.cmd1":
			// one command after the other through SendCommand, collected the way SendCommands would (no stop-on-failed here:
			// the caller decides), so the marking of each single response is checked too
			m = response.NewMultiResponse("sim")

			for _, c := range cmds {
				var r1 *response.Response

				r1, err = gd.SendCommand(c, opOpts...)
				if err != nil {
					break
				}

				m.AppendResponse(r1)

				if s.Stop && r1.Failed != nil {
					break
				}
			}
		case "n.cfg":
			single, err = nd.SendConfig(strings.Join(cmds, "\n"), opOpts...)
		}
	})

	switch {
	case !fin:
		fail(&v, "C13:"+variant+":hang", "did not return")
	case pan != nil:
		fail(&v, "C13:"+variant+":panic", "panic: %v", pan)
	case err != nil:
		fail(&v, "C13:"+variant+":error:"+errClass(err), "%v", err)
	}

	if v.OK && m != nil {
		switch {
		case len(m.Responses) != s.NSent:
			fail(&v, "C13:"+variant+":responses-length", "%d responses, contract says %d (stop=%v failed=%v)", len(m.Responses), s.NSent, s.Stop, s.Failed)
		default:
			for k, r := range m.Responses {
				if r.Result != results[k] {
					fail(&v, "C13:"+variant+":result", "member %d result %q want %q", k+1, r.Result, results[k])
				}

				if (r.Failed != nil) != s.Failed[k] {
					fail(&v, "C13:"+variant+":member-failed-flag", "member %d (%q, lists drv=%q op=%q): Failed=%v, contract says %v",
						k+1, r.Result, s.Drv, s.Op, r.Failed != nil, s.Failed[k])
				} else if r.Failed != nil {
					var oe *response.OperationError
					if !errors.As(r.Failed, &oe) || oe.ErrorString != errstr[k] {
						fail(&v, "C13:"+variant+":member-error-string", "member %d: error %v, expected matched string %q", k+1, r.Failed, errstr[k])
					}
				}
			}

			if (m.Failed != nil) != s.MultiFailed {
				fail(&v, "C13:"+variant+":multi-failed-flag", "multi Failed=%v, contract says %v", m.Failed != nil, s.MultiFailed)
			} else if m.Failed != nil {
				var me *response.MultiOperationError

				if !errors.As(m.Failed, &me) {
					fail(&v, "C13:"+variant+":multi-error-type", "multi Failed is %T", m.Failed)
				} else {
					got := []string{}
					for _, o := range me.Operations {
						got = append(got, o.Input)
					}

					want := []string{}
					for _, i := range s.FailedIdx {
						want = append(want, cmds[i-1])
					}

					if strings.Join(got, "\x00") != strings.Join(want, "\x00") {
						fail(&v, "C13:"+variant+":aggregate-members", "aggregate lists %q, contract says %q", got, want)
					}
				}
			}
		}
	}

	if v.OK && single != nil {
		want := strings.Join(results, "\n")
		if single.Result != want {
			fail(&v, "C13:n.cfg:collapsed-result", "collapsed result %q want %q", single.Result, want)
		}

		if (single.Failed != nil) != s.MultiFailed {
			fail(&v, "C13:n.cfg:collapsed-failed-flag", "collapsed Failed=%v, contract says %v", single.Failed != nil, s.MultiFailed)
		}
	}

	// one more command on the same driver, without any operation option: whatever the operation before it did (stopped at a
	// failed command, used a list of its own, ran in configuration mode), this one is sent, returns its own output and is
	// marked by the driver's list alone
	sentBefore := s.NSent

	if v.OK && len(cmds) > 0 && len(results) > 0 && s.NSent > 0 && s.idx%2 == 1 {
		var r2 *response.Response

		var e2 error

		fin2, pan2 := withWatchdog(10*time.Second, func() {
			if nd != nil {
				r2, e2 = nd.SendCommand(cmds[0])
			} else {
				r2, e2 = gd.SendCommand(cmds[0])
			}
		})

		wantFailed := false

		for _, f := range conc(s.Drv) {
			if f != "" && strings.Contains(results[0], f) {
				wantFailed = true
			}
		}

		switch {
		case !fin2 || pan2 != nil || e2 != nil:
			fail(&v, "C13:"+variant+":later-command:error", "a command after the operation: returned=%v panic=%v err=%v", fin2, pan2, e2)
		case r2.Result != results[0]:
			fail(&v, "C13:"+variant+":later-command:result", "a command after the operation returned %q, as part of the operation the same command returned %q", r2.Result, results[0])
		case (r2.Failed != nil) != wantFailed:
			fail(&v, "C13:"+variant+":later-command:member-failed-flag", "a command after the operation (no operation options; driver list %q, earlier operation list %q): output %q, Failed=%v", s.Drv, s.Op, r2.Result, r2.Failed != nil)
		}

		sentBefore = -1
	}

	_, _ = withWatchdog(5*time.Second, func() {
		if nd != nil {
			_ = nd.Close()
		} else {
			_ = gd.Close()
		}
	})

	pipe.Lock()
	lines := []string{}

	for _, r := range cli.Log {
		if r.Line != "" && r.Line != "conf" && r.Line != "end" && r.Line != "pre0" {
			lines = append(lines, r.Line)
		}
	}
	pipe.Unlock()

	if sentBefore == -1 && len(lines) > 0 && lines[len(lines)-1] == cmds[0] {
		lines = lines[:len(lines)-1] // the later command
	}

	if v.OK && strings.Join(lines, "\x00") != strings.Join(cmds[:s.NSent], "\x00") {
		sig := "C13:" + variant + ":device-received"
		if len(lines) > s.NSent {
			sig = "C13:" + variant + ":sent-after-failure"
		}

		fail(&v, sig, "device received %q, contract says %q (stop=%v)", lines, cmds[:s.NSent], s.Stop)
	}

	return v
}

func c13(_ []string) error {
	var scns []*c13Scn

	if err := readScenarios(func(raw json.RawMessage) error {
		s := &c13Scn{}
		if err := json.Unmarshal(raw, s); err != nil {
			return err
		}

		s.idx = len(scns)
		if s.Idx != nil {
			s.idx = *s.Idx
		}

		scns = append(scns, s)

		return nil
	}); err != nil {
		return err
	}

	type job struct {
		s *c13Scn
		v string
	}

	var jobs []job

	for _, s := range scns {
		for k, va := range c13Variants {
			if s.Variant != "" {
				if s.Variant == va {
					jobs = append(jobs, job{s, va})
				}

				continue
			}
			// quick: three of the six variants per scenario, rotating; thorough: all
			if tier() == "thorough" || (k+s.idx)%2 == 0 || va == "n.file" {
				jobs = append(jobs, job{s, va})
			}
		}
	}

	parallel(len(jobs), 12, func(i int) { emit(c13Run(jobs[i].s, jobs[i].v)) })

	return nil
}
