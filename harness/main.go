// Command vh is the conformance harness: every sub-command replays TLC-generated scenarios into the
// real scrapligo code in /repo (direction G) and/or records traces of real executions for TLC to
// validate (direction V). Scenarios arrive as NDJSON on stdin, results leave as NDJSON on stdout.
package main

import (
	"bufio"
	"encoding/json"
	"fmt"
	"os"
	"strconv"
	"sync"
)

type cmdFunc func(args []string) error

var commands = map[string]cmdFunc{}

func register(name string, f cmdFunc) { commands[name] = f }

var outMu sync.Mutex

func emit(v interface{}) {
	b, err := json.Marshal(v)
	if err != nil {
		panic(err)
	}

	outMu.Lock()
	defer outMu.Unlock()

	os.Stdout.Write(append(b, '\n'))
}

func readScenarios(into func(raw json.RawMessage) error) error {
	sc := bufio.NewScanner(os.Stdin)
	sc.Buffer(make([]byte, 1<<20), 1<<28)

	for sc.Scan() {
		line := sc.Bytes()
		if len(line) == 0 {
			continue
		}

		cp := append([]byte(nil), line...)
		if err := into(cp); err != nil {
			return err
		}
	}

	return sc.Err()
}

func envInt(name string, def int) int {
	if v := os.Getenv(name); v != "" {
		if i, err := strconv.Atoi(v); err == nil {
			return i
		}
	}

	return def
}

func seed() int64 { return int64(envInt("VERIF_SEED", 1)) }

func tier() string {
	if os.Getenv("VERIF_TIER") == "thorough" {
		return "thorough"
	}

	return "quick"
}

func main() {
	if len(os.Args) < 2 {
		fmt.Fprintln(os.Stderr, "usage: vh <sub-command> [args]")
		os.Exit(2)
	}

	f, ok := commands[os.Args[1]]
	if !ok {
		fmt.Fprintln(os.Stderr, "unknown sub-command", os.Args[1])
		os.Exit(2)
	}

	if err := f(os.Args[2:]); err != nil {
		fmt.Fprintln(os.Stderr, "vh:", err)
		os.Exit(3)
	}
}
