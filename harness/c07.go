package main

import (
	"encoding/json"
	"errors"
	"fmt"
	"github.com/scrapli/scrapligo/driver/generic"
	"github.com/scrapli/scrapligo/driver/network"
	"github.com/scrapli/scrapligo/driver/options"
	"os"
	"regexp"
	"runtime"
	"strings"
	"sync"
	"sync/atomic"
	"time"

	"github.com/scrapli/scrapligo/channel"
	"github.com/scrapli/scrapligo/driver/netconf"
	"github.com/scrapli/scrapligo/util"

	"verifharness/simdev"
)

// C07: Close in every connection state under forced orderings of the instrumented steps.
// Run as `vh isolated c07` so that a panic in a library goroutine kills only one child.

func init() { register("c07", c07) }

type c07Scn struct {
	Driver    string   `json:"driver"`   // generic | network | netconf
	State     string   `json:"state"`    // idle | eof | err | data-arriving | err-arriving | eof-arriving | inflight | after-error-op
	Closes    int      `json:"closes"`   // 1 | 2
	CloseBeh  string   `json:"closebeh"` // eof | err | stay
	Before    string   `json:"before"`   // constraint: point Before must have been passed ...
	After     string   `json:"after"`    // ... before the goroutine reaching After proceeds ("" = free run)
	ReadDelay int      `json:"readdelay_us"`
	Expect    []string `json:"expect,omitempty"`    // informational: what the model predicts
	Transport string   `json:"transport,omitempty"` // "" (scripted pipe) | telnet | standard : a built-in transport, see c07real.go
	OnClose   bool     `json:"onclose,omitempty"`
	CloseErr  bool     `json:"closeerr,omitempty"` // the transport's Close reports an error (and closes all the same)
	Poll      bool     `json:"poll,omitempty"`     // the transport's Read does not block (it polls): the read loop is responsive and leaves in time
	Meet      string   `json:"meet,omitempty"`     // closes = 2 from two goroutines at once; both are held at this yield point until the other is there too (15 ms bound)
}

type gate struct {
	mu      sync.Mutex
	seq     []string
	reached map[string]bool
	a, b    string
	onClose func()
	fired   bool
	waited  bool
	// at / atFn: atFn is called once, by the goroutine that reaches the yield point `at`, before it goes on
	at      string
	atFn    func()
	atFired bool
	// meet: the first goroutine reaching this point waits (bounded) until a second one has reached it too
	meet  string
	meetN int
}

func (g *gate) yield(p string) {
	g.mu.Lock()
	if len(g.seq) < 400 {
		g.seq = append(g.seq, p)
	}

	g.reached[p] = true
	fire := !g.fired && g.onClose != nil && (strings.HasPrefix(p, "C_") || strings.HasPrefix(p, "NC_"))

	if fire {
		g.fired = true
	}

	a, b := g.a, g.b

	fireAt := !g.atFired && g.atFn != nil && p == g.at
	if fireAt {
		g.atFired = true
	}
	g.mu.Unlock()

	if fire {
		g.onClose()
	}

	if fireAt {
		g.atFn()
	}

	if g.meet != "" && p == g.meet {
		g.mu.Lock()
		g.meetN++
		first := g.meetN == 1
		g.mu.Unlock()

		for deadline := time.Now().Add(15 * time.Millisecond); first && time.Now().Before(deadline); {
			g.mu.Lock()
			n := g.meetN
			g.mu.Unlock()

			if n >= 2 {
				g.mu.Lock()
				g.waited = true
				g.mu.Unlock()

				break
			}

			time.Sleep(40 * time.Microsecond)
		}
	}

	if b != "" && p == b {
		deadline := time.Now().Add(15 * time.Millisecond)

		for time.Now().Before(deadline) {
			g.mu.Lock()
			ok := g.reached[a]
			g.mu.Unlock()

			if ok {
				g.mu.Lock()
				g.waited = true
				g.mu.Unlock()
				time.Sleep(400 * time.Microsecond) // let the statement at a execute (or park)

				break
			}

			time.Sleep(40 * time.Microsecond)
		}
	}
}

var libFrame = regexp.MustCompile(`github\.com/scrapli/scrapligo/(channel|driver|transport|util|response|platform|logging)`)

// libGoroutines returns the stacks of goroutines that are inside library code.
func libGoroutines(ignoreForeignRead bool) []string {
	buf := make([]byte, 1<<20)
	n := runtime.Stack(buf, true)

	var out []string

	for _, g := range strings.Split(string(buf[:n]), "\n\n") {
		if !libFrame.MatchString(g) {
			continue
		}

		if strings.Contains(g, "main.libGoroutines") {
			continue
		}

		if ignoreForeignRead && strings.Contains(g, "simdev.(*Pipe).Read") {
			continue
		}

		out = append(out, g)
	}

	return out
}

func c07One(sc *c07Scn, idx int) verdict {
	if sc.Transport != "" {
		return c07Real(sc, idx)
	}

	name := fmt.Sprintf("%s/%s/closes=%d/%s/%s<%s/rd=%d/onclose=%v/closeerr=%v/meet=%s", sc.Driver, sc.State, sc.Closes, sc.CloseBeh, sc.Before, sc.After, sc.ReadDelay, sc.OnClose, sc.CloseErr, sc.Meet) + fmt.Sprintf("/poll=%v", sc.Poll)
	v := verdict{ID: idx, Variant: name, OK: true, Nontrivial: true}
	sigBase := fmt.Sprintf("C07:%s:%s:closes=%d:%s", sc.Driver, sc.State, sc.Closes, sc.CloseBeh)

	g := &gate{reached: map[string]bool{}, a: sc.Before, b: sc.After, meet: sc.Meet}
	curGate.Store((*gate)(nil))

	rd := time.Duration(sc.ReadDelay) * time.Microsecond
	if rd == 0 {
		rd = 40 * time.Microsecond
	}

	cfg := sessCfg{connTimeout: 300 * time.Millisecond, readDelay: rd, seg: simdev.Seg{Mode: "rand", Max: 9}, seed: int64(idx), closeBeh: sc.CloseBeh, poll: sc.Poll}
	if sc.State == "inflight" {
		// the operation in flight must be ended by Close, not by its own timer
		cfg.connTimeout = 5 * time.Second
	}

	if sc.OnClose {
		// an on-close hook that fails (it tries to say goodbye on a connection that may be gone): Close must go on regardless
		cfg.extra = append(cfg.extra,
			options.WithOnClose(func(d *generic.Driver) error {
				_ = d.Channel.WriteAndReturn([]byte("exit"), false)

				return errors.New("on-close hook failed")
			}),
			options.WithNetworkOnClose(func(d *network.Driver) error {
				_ = d.Channel.WriteAndReturn([]byte("exit"), false)

				return errors.New("network on-close hook failed")
			}))
	}

	var build func(c sessCfg) (*sess, error)

	switch sc.Driver {
	case "network":
		build = buildNetwork("exec")
	case "netconf":
		build = buildNetconf("1.1", true)
	default:
		build = buildGeneric("exec")
	}

	if sc.State == "open-fails" {
		// the session never comes up: the transport reports a read error in the middle of the hello / the login dialogue, Open
		// returns an error; the user closes the driver all the same. Nothing Open started is left behind.
		if sc.Driver == "netconf" {
			build = buildNetconf("1.1", false)
		} else {
			build = buildLogin("telnet")
		}

		cfg.connTimeout = 2 * time.Second
	}

	before := len(libGoroutines(false))

	s, err := build(cfg)

	if err == nil && sc.State == "open-fails" {
		s.pipe.SetLoss("err", 25)

		var oerr error

		fin, pan := withWatchdog(6*time.Second, func() {
			if s.nc != nil {
				oerr = s.nc.Open()
			} else {
				oerr = s.gd.Open()
			}
		})

		switch {
		case !fin:
			fail(&v, sigBase+":open-hangs", "Open did not return although the transport reported a read error after 25 bytes")
		case pan != nil:
			fail(&v, sigBase+":open-panics", "Open panicked: %v", pan)
		case oerr == nil:
			v.OK, v.Sig, v.Detail = false, "TOOL", "Open succeeded although the transport reported a read error after 25 bytes"
		}

		if !v.OK {
			return v
		}
	}

	// opening the session is not what is judged here: under load the 300 ms budget of the hello / login exchange can be
	// missed, so the setup is retried with a generous one; a setup that keeps failing is tool trouble, not a verdict
	for try := 0; err != nil && try < 4; try++ {
		time.Sleep(50 * time.Millisecond)

		cfg.connTimeout = 3 * time.Second
		before = len(libGoroutines(false))
		s, err = build(cfg)
	}

	if err != nil {
		v.OK = false
		v.Sig = "TOOL"
		v.Detail = fmt.Sprintf("setup failed 5 times: %v", err)

		return v
	}

	if sc.State != "open-fails" {
		s.pipe.WaitDrained(time.Second)
		time.Sleep(2*time.Millisecond + 3*rd) // the read loop is back in its (blocking) transport read
	}

	if sc.CloseErr {
		s.pipe.Lock()
		s.pipe.CloseErr = errors.New("close: connection reset by peer")
		s.pipe.Unlock()
	}

	opDone := make(chan error, 1)
	opStarted := false

	runOp := func() {
		opStarted = true

		go func() {
			var e error

			switch {
			case s.nc != nil:
				_, e = s.nc.Get("")
			case s.nd != nil:
				_, e = s.nd.Driver.SendCommand("show v7")
			default:
				_, e = s.gd.SendCommand("show v7")
			}

			opDone <- e
		}()
	}

	switch sc.State {
	case "eof":
		s.pipe.Mark()
		s.pipe.SetLoss("eof", 0)
		time.Sleep(3 * time.Millisecond)
	case "err":
		s.pipe.Mark()
		s.pipe.SetLoss("err", 0)
		time.Sleep(3 * time.Millisecond)
	case "after-error-op":
		// a transport error was reported to an operation; then the connection is closed
		s.pipe.Mark()
		s.pipe.SetLoss("err", 0)
		time.Sleep(2 * time.Millisecond)
		runOp()

		select {
		case <-opDone:
		case <-time.After(3 * time.Second):
			fail(&v, sigBase+":op-hang-before-close", "operation after a transport error did not return")

			return v
		}

		opStarted = false
	case "after-timeout-op":
		// an operation ran into its timeout (the device had gone silent) and the device caught up afterwards; then the
		// connection is closed: nothing the timed-out operation started is still around
		s.pipe.Mark()
		s.pipe.SetStall(0)
		runOp()

		select {
		case <-opDone:
		case <-time.After(5 * time.Second):
			fail(&v, sigBase+":op-hang-before-close", "operation on a silent device did not run into its timeout")

			return v
		}

		opStarted = false

		s.pipe.SetStall(-1)
		s.pipe.WaitDrained(time.Second)
		time.Sleep(5 * time.Millisecond)
	case "inflight":
		s.pipe.Mark()
		s.pipe.SetStall(0)
		runOp()
		time.Sleep(2 * time.Millisecond)
	case "data-arriving":
		g.onClose = func() { s.pipe.Inject([]byte("%LOG-5: spontaneous message\r\n")) }
	case "err-arriving":
		g.onClose = func() { s.pipe.Mark(); s.pipe.SetLoss("err", 0) }
	case "eof-arriving":
		g.onClose = func() { s.pipe.Mark(); s.pipe.SetLoss("eof", 0) }
	}

	curGate.Store(g)

	closeOne := func() (bool, interface{}, error) {
		var cerr error

		fin, pan := withWatchdog(3*time.Second, func() {
			switch {
			case s.nd != nil:
				cerr = s.nd.Close()
			case s.gd != nil:
				cerr = s.gd.Close()
			default:
				cerr = s.nc.Close()
			}
		})

		return fin, pan, cerr
	}

	if sc.Meet != "" {
		// two callers close at the same moment (a watchdog and the owner's deferred Close, say)
		type res struct {
			fin bool
			pan interface{}
			dur time.Duration
		}

		rc := make(chan res, sc.Closes)

		for i := 0; i < sc.Closes; i++ {
			go func() {
				t0 := time.Now()
				fin, pan, _ := closeOne()
				rc <- res{fin, pan, time.Since(t0)}
			}()
		}

		for i := 1; i <= sc.Closes; i++ {
			r := <-rc

			switch {
			case !v.OK:
			case !r.fin:
				fail(&v, sigBase+":concurrent-close-hangs", "one of %d concurrent Closes did not return within 3 s; yield sequence %v", sc.Closes, g.snapshot())
			case r.pan != nil:
				fail(&v, sigBase+":concurrent-close-panics", "one of %d concurrent Closes panicked in the caller's goroutine: %v; yield sequence %v", sc.Closes, r.pan, g.snapshot())
			case r.dur > 1500*time.Millisecond:
				fail(&v, sigBase+":concurrent-close-slow", "one of %d concurrent Closes needed %v", sc.Closes, r.dur)
			}
		}
	}

	for i := 1; sc.Meet == "" && i <= sc.Closes && v.OK; i++ {
		t0 := time.Now()
		fin, pan, _ := closeOne()

		switch {
		case !fin:
			fail(&v, fmt.Sprintf("%s:close-%d-hangs", sigBase, i), "Close #%d did not return within 3 s; yield sequence %v", i, g.snapshot())
		case pan != nil:
			fail(&v, fmt.Sprintf("%s:close-%d-panics", sigBase, i), "Close #%d panicked in the caller's goroutine: %v", i, pan)
		case time.Since(t0) > 1500*time.Millisecond:
			fail(&v, fmt.Sprintf("%s:close-%d-slow", sigBase, i), "Close #%d needed %v", i, time.Since(t0))
		}
	}

	curGate.Store((*gate)(nil))

	if !v.OK {
		return v
	}

	if sc.State == "reopen" {
		// the same driver object is opened again: a new session that works, and closes, like the first one
		var oerr, cerr error

		reopenMode := ""

		if s.nd != nil {
			// bring the first session to the default desired level, so that the driver's cached level equals it
			_, _ = s.nd.SendCommand("show z8")
		}

		fin, pan := withWatchdog(6*time.Second, func() {
			switch {
			case s.nd != nil:
				// the new session starts at the login level again, whatever level the previous one had reached
				s.pipe.Lock()
				s.cli.Mode = "exec"
				s.pipe.Unlock()

				if oerr = s.nd.Open(); oerr == nil {
					if _, cerr = s.nd.SendCommand("show v7"); cerr == nil {
						s.pipe.Lock()
						for _, r := range s.cli.Log {
							if r.Line == "show v7" {
								reopenMode = r.Mode
							}
						}
						s.pipe.Unlock()
					}
				}
			case s.gd != nil:
				if oerr = s.gd.Open(); oerr == nil {
					_, cerr = s.gd.SendCommand("show v7")
				}
			default:
				if oerr = s.nc.Open(); oerr == nil {
					_, cerr = s.nc.Get("")
				}
			}
		})

		switch {
		case !fin:
			fail(&v, sigBase+":reopen-hangs", "Open / first operation after Close did not return")
		case pan != nil:
			fail(&v, sigBase+":reopen-panics", "Open after Close panicked: %v", pan)
		case oerr != nil || cerr != nil:
			fail(&v, sigBase+":reopen-fails", "after Close: Open -> %v, first operation -> %v", oerr, cerr)
		case s.nd != nil && reopenMode != "privilege-exec":
			fail(&v, sigBase+":reopen-stale-privilege-level", "the first command of the second session ran at level %q, the default desired level is privilege-exec", reopenMode)
		}

		if v.OK {
			if fin2, pan2, _ := closeOne(); !fin2 || pan2 != nil {
				fail(&v, sigBase+":reopen-close", "Close of the second session: returned=%v panic=%v", fin2, pan2)
			}
		}

		if !v.OK {
			return v
		}
	}

	if opStarted {
		select {
		case e := <-opDone:
			if e == nil {
				fail(&v, sigBase+":inflight-op-success", "operation in flight during Close reported success")
			}
		case <-time.After(3 * time.Second):
			fail(&v, sigBase+":inflight-op-hangs", "operation in flight during Close never returned")

			return v
		}
	}

	if sc.Poll {
		// a read loop that looks at the done signal every few hundred microseconds leaves within the grace period: the transport
		// is closed in the orderly way, never under a read that is still running
		s.pipe.Lock()
		under := s.pipe.CloseDuringRead
		s.pipe.Unlock()

		if under > 0 {
			fail(&v, sigBase+":transport-closed-under-a-running-read", "the read loop was responsive (polling reads of 200 us), yet the transport's Close ran while a Read was under way (forced close without waiting for the loop); yield sequence %v", g.snapshot())
		}
	}

	if s.pipe.Closed() == 0 {
		fail(&v, sigBase+":transport-not-closed", "Close returned but the transport's Close was never called")
	}

	// no library goroutine outlives the close (settle up to 400 ms)
	var left []string

	deadline := time.Now().Add(400 * time.Millisecond)

	for {
		left = libGoroutines(sc.CloseBeh == "stay")
		if len(left) <= before || time.Now().After(deadline) {
			break
		}

		time.Sleep(5 * time.Millisecond)
	}

	if v.OK && len(left) > before {
		where := "?"
		if m := regexp.MustCompile(`scrapligo/[\w/]+\.\(?\*?\w*\)?\.?[\w.]+`).FindString(left[len(left)-1]); m != "" {
			where = m
		}

		fail(&v, sigBase+":goroutine-leak:"+where, "%d library goroutine(s) still alive 400 ms after Close returned (yield sequence %v):\n%s", len(left)-before, g.snapshot(), strings.Join(left, "\n\n"))
	}

	// data race reports of this process
	if rl := os.Getenv("VERIF_RACELOG"); rl != "" && v.OK {
		if b, e := os.ReadFile(fmt.Sprintf("%s.%d", rl, os.Getpid())); e == nil && len(b) > raceSeen {
			rep := string(b[raceSeen:])
			raceSeen = len(b)

			if strings.Contains(rep, "scrapligo/channel") || strings.Contains(rep, "scrapligo/driver") || strings.Contains(rep, "scrapligo/transport") {
				loc := regexp.MustCompile(`/((?:channel|driver|transport|util|response|platform)/[\w/]+\.go):\d+`).FindAllStringSubmatch(rep, 4)
				where := []string{}

				for _, l := range loc {
					if !strings.Contains(strings.Join(where, ","), l[1]) {
						where = append(where, l[1])
					}
				}

				fail(&v, "C07:data-race:"+strings.Join(where, "+"), "race detector report during %s:\n%s", name, rep[:min2(len(rep), 2500)])
			}
		}
	}

	v.Extra = map[string]interface{}{"seq": g.snapshot(), "forced": g.waited}

	return v
}

var raceSeen int

// the hook variables are set once, before any library goroutine exists; the current gate is swapped atomically
var curGate atomic.Value

func init() {
	curGate.Store((*gate)(nil))

	dispatch := func(p string) {
		if p == "N_top" {
			atomic.AddInt64(&nTopCount, 1)
		}

		if g, _ := curGate.Load().(*gate); g != nil {
			g.yield(p)
		}
	}
	channel.VerifYield = dispatch
	netconf.VerifYield = dispatch
}

func min2(a, b int) int {
	if a < b {
		return a
	}

	return b
}

func (g *gate) snapshot() []string {
	g.mu.Lock()
	defer g.mu.Unlock()

	return append([]string(nil), g.seq...)
}

func c07(args []string) error {
	_ = util.ErrTimeoutError

	handle := func(raw json.RawMessage, idx int) interface{} {
		s := &c07Scn{}
		if err := json.Unmarshal(raw, s); err != nil {
			return map[string]interface{}{"ok": false, "toolerror": err.Error()}
		}

		return c07One(s, idx)
	}

	if len(args) > 0 && args[0] == "-child" {
		return childLoop(handle)
	}

	idx := 0

	return readScenarios(func(raw json.RawMessage) error {
		emit(handle(raw, idx))
		idx++

		return nil
	})
}
