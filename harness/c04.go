package main

import (
	"encoding/json"
	"errors"
	"fmt"
	"os"
	"path/filepath"
	"strings"
	"time"

	"github.com/scrapli/scrapligo/channel"
	"github.com/scrapli/scrapligo/driver/network"
	"github.com/scrapli/scrapligo/driver/opoptions"
	"github.com/scrapli/scrapligo/driver/options"
	"github.com/scrapli/scrapligo/util"

	"verifharness/simdev"
)

// C04: scenarios of PrivScn.tla on network.Driver against a device whose modes form the tree.

func init() { register("c04", c04) }

type c04Step struct {
	Kind  string `json:"kind"` // esc | deesc | secret | line
	Level int    `json:"level"`
	Mode  int    `json:"mode"`
}

type c04Op struct {
	Op     string    `json:"op"`
	Target int       `json:"target"`
	Class  string    `json:"class"`
	Steps  []c04Step `json:"steps"`
	Final  int       `json:"final"`
}

type c04Scn struct {
	ID     int      `json:"id"`
	N      int      `json:"n"`
	Parent []int    `json:"parent"`
	Auth   []string `json:"auth"` // no | asks | grants (marked authenticated, the device grants without asking)
	Def    int      `json:"def"`
	Conf   int      `json:"conf"`
	Start  int      `json:"start"`
	Twin   []int    `json:"twin"` // twin[1] shows the prompt of twin[0]
	Ops    []c04Op  `json:"ops"`
	Seg    string   `json:"seg,omitempty"`
}

const c04Secret = "En4ble!"

func c04Name(s *c04Scn, i int) string {
	if i == s.Conf {
		return "configuration"
	}

	return fmt.Sprintf("lv%d", i)
}

func c04Run(s *c04Scn, segName string) verdict {
	v := verdict{ID: s.ID, Variant: segName, OK: true}
	levels := map[string]*network.PrivilegeLevel{}
	prompts := map[string]string{}
	mode := func(i int) string { return fmt.Sprintf("m%d", i) }

	// one tree in three (without twins) has a level that is told from its parent by a not-contains text only: the leaf with the
	// highest number shows "p<parent>(s)# ", and the parent's pattern is loose enough to match that too, were it not for its
	// not-contains entry "(s)"
	sub := 0

	if s.ID%3 == 1 && !(len(s.Twin) == 2 && s.Twin[0] != 0) {
		for i := s.N; i >= 2 && sub == 0; i-- {
			leaf := true

			for c := 1; c <= s.N; c++ {
				if s.Parent[c-1] == i {
					leaf = false
				}
			}

			if leaf {
				sub = i
			}
		}
	}

	promptOf := func(letter byte, i int) string {
		shown := i
		if len(s.Twin) == 2 && s.Twin[1] == i {
			shown = s.Twin[0]
		}

		if i == sub {
			return fmt.Sprintf("%c%d(s)# ", letter, s.Parent[i-1])
		}

		return fmt.Sprintf("%c%d# ", letter, shown)
	}
	patternOf := func(letter byte, i int) string {
		shown := i
		if len(s.Twin) == 2 && s.Twin[1] == i {
			shown = s.Twin[0]
		}

		switch {
		case i == sub:
			return fmt.Sprintf(`(?im)^%c%d\(s\)[>#]\s?$`, letter, s.Parent[i-1])
		case sub != 0 && i == s.Parent[sub-1]:
			return fmt.Sprintf(`(?im)^%c%d\S*[>#]\s?$`, letter, shown)
		}

		return fmt.Sprintf(`(?im)^%c%d[>#]\s?$`, letter, shown)
	}

	for i := 1; i <= s.N; i++ {
		lv := &network.PrivilegeLevel{Name: c04Name(s, i), Pattern: patternOf('p', i)}
		if sub != 0 && i == s.Parent[sub-1] {
			lv.NotContains = []string{"(s)"}
		}

		if p := s.Parent[i-1]; p != 0 {
			lv.PreviousPriv = c04Name(s, p)
			lv.Escalate = fmt.Sprintf("up-to %d", i)
			lv.Deescalate = fmt.Sprintf("leave %d", i)

			if s.Auth[i-1] != "no" {
				lv.EscalateAuth = true
				lv.EscalatePrompt = `(?im)^password:\s?$`
			}
		}

		levels[lv.Name] = lv
		prompts[mode(i)] = promptOf('p', i)
	}

	cli := &simdev.CLI{Prompts: prompts, Mode: mode(s.Start), StartMode: mode(s.Start), Banner: "hello\r\n"}

	var pipe *simdev.Pipe

	stallNext := false
	lateLine := "" // "reopen-late": the answer to this line comes too late
	transitioned := func() {
		// "configs-stalled": the device acts on the transition, its answer never arrives
		if stallNext {
			stallNext = false

			pipe.StallFromHere()
		}
	}

	cli.Handler = func(c *simdev.CLI, line string) string {
		var cur int

		fmt.Sscanf(c.Mode, "m%d", &cur)

		var x int

		if n, _ := fmt.Sscanf(line, "up-to %d", &x); n == 1 && x >= 1 && x <= s.N && s.Parent[x-1] == cur {
			if s.Auth[x-1] == "asks" {
				c.Pending = &simdev.Ask{Prompt: "Password: ", OnAnswer: func(c *simdev.CLI, a string) string {
					if a == c04Secret {
						c.Mode = mode(x)

						return ""
					}

					return "% Bad secret"
				}}

				return ""
			}

			c.Mode = mode(x)

			transitioned()

			return ""
		}

		if n, _ := fmt.Sscanf(line, "leave %d", &x); n == 1 && x == cur && s.Parent[cur-1] != 0 {
			c.Mode = mode(s.Parent[cur-1])

			transitioned()

			return ""
		}

		if strings.HasPrefix(line, "show ") || strings.HasPrefix(line, "set ") {
			if line == lateLine {
				lateLine = ""

				pipe.StallFromHere()
			}

			return "ok " + line
		}

		return "% Invalid input detected"
	}

	pipe = simdev.NewPipe(cli, int64(s.ID))
	pipe.Seg = faultSegs[segName]

	d, err := network.NewDriver("sim",
		options.WithCustomTransport(pipe), options.WithReadDelay(30*time.Microsecond), options.WithTimeoutOps(3*time.Second),
		options.WithPrivilegeLevels(levels), options.WithDefaultDesiredPriv(c04Name(s, s.Def)), options.WithAuthSecondary(c04Secret))
	if err == nil {
		err = d.Open()
	}

	if err != nil {
		fail(&v, "C04:open-error", "%v", err)

		return v
	}

	defer func() { _, _ = withWatchdog(3*time.Second, func() { _ = d.Close() }) }()

	logPos := 0

	for j, op := range s.Ops {
		if len(op.Steps) > 1 || op.Class != "ok" {
			v.Nontrivial = true
		}

		var lines []string

		switch op.Op {
		case "command", "interactive":
			lines = []string{fmt.Sprintf("show c%d", j)}
		case "configs", "configs-at", "config", "configs-file-at", "configs-at-unknown":
			lines = []string{fmt.Sprintf("set a%d", j), fmt.Sprintf("set b%d", j)}
		case "reopen-late":
			lines = []string{fmt.Sprintf("show c%d", j)}

			pipe.Lock()
			lateLine = lines[0]
			pipe.Unlock()

			// the way to the default level is walked with the generous timeout (the path is part of this operation's
			// expectation either way); only the command itself meets the short one
			_, _ = withWatchdog(20*time.Second, func() { _ = d.AcquirePriv(c04Name(s, s.Def)) })

			d.Channel.TimeoutOps = 250 * time.Millisecond
		case "configs-leave":
			lines = []string{fmt.Sprintf("set a%d", j), fmt.Sprintf("leave %d", op.Target)}
		case "configs-stalled":
			lines = []string{fmt.Sprintf("set a%d", j), fmt.Sprintf("set b%d", j)}

			pipe.Lock()
			stallNext = true
			pipe.Unlock()

			d.Channel.TimeoutOps = 250 * time.Millisecond
		case "rename":
			// the host is renamed: every prompt changes its first letter; the level patterns are edited in place
			letter := byte('q')
			if strings.HasPrefix(cli.Prompts[mode(1)], "q") {
				letter = 'p'
			}

			pipe.Lock()
			for i := 1; i <= s.N; i++ {
				cli.Prompts[mode(i)] = string(letter) + cli.Prompts[mode(i)][1:]
			}
			pipe.Unlock()

			for i := 1; i <= s.N; i++ {
				d.PrivilegeLevels[c04Name(s, i)].Pattern = patternOf(letter, i)
			}

			d.UpdatePrivileges()
		}

		var opErr error

		// the per-operation level is not always the first option of the call: options of the other layers may precede it
		atOpts := func(level string) []util.Option {
			o := []util.Option{opoptions.WithPrivilegeLevel(level)}
			if (s.ID+j)%2 == 0 {
				o = append([]util.Option{opoptions.WithStopOnFailed(), opoptions.WithNoStripPrompt()}, o...)
			}

			return o
		}

		fin, pan := withWatchdog(20*time.Second, func() {
			switch op.Op {
			case "reopen-late":
				_, opErr = d.SendCommand(lines[0])
			case "configs-file-at":
				f := filepath.Join(os.TempDir(), fmt.Sprintf("c04-%d-%d-%s.cfg", os.Getpid(), s.ID, segName))
				if werr := os.WriteFile(f, []byte(strings.Join(lines, "\n")+"\n"), 0o600); werr != nil {
					panic(werr)
				}

				defer os.Remove(f)

				_, opErr = d.SendConfigsFromFile(f, atOpts(c04Name(s, op.Target))...)
			case "configs-at-unknown":
				_, opErr = d.SendConfigs(lines, atOpts("no-such-level")...)
			case "acquire":
				opErr = d.AcquirePriv(c04Name(s, op.Target))
			case "acquire-unknown":
				opErr = d.AcquirePriv("no-such-level")
			case "command":
				_, opErr = d.SendCommand(lines[0])
			case "interactive":
				_, opErr = d.SendInteractive([]*channel.SendInteractiveEvent{{ChannelInput: lines[0], ChannelResponse: "", HideInput: false}})
			case "configs", "configs-leave", "configs-stalled":
				_, opErr = d.SendConfigs(lines)
			case "config":
				_, opErr = d.SendConfig(strings.Join(lines, "\n"))
			case "configs-at":
				_, opErr = d.SendConfigs(lines, atOpts(c04Name(s, op.Target))...)
			}
		})

		if op.Op == "configs-stalled" {
			// the device catches up; what it had withheld is delivered
			pipe.SetStall(-1)
			pipe.WaitDrained(time.Second)
			time.Sleep(2 * time.Millisecond)

			d.Channel.TimeoutOps = 3 * time.Second
		}

		if op.Op == "reopen-late" {
			// the answer arrives after all and stays unread; then the usual reaction to a timeout: close, open again
			pipe.SetStall(-1)
			pipe.WaitDrained(time.Second)
			time.Sleep(2 * time.Millisecond)

			d.Channel.TimeoutOps = 3 * time.Second

			var rerr error

			// every second time the transport's own Close reports an error (the peer is already gone) although it did close:
			// the session is over all the same, and the next one starts from nothing
			closeErr := (s.ID/2+j)%2 == 0

			finR, panR := withWatchdog(8*time.Second, func() {
				if closeErr {
					pipe.Lock()
					pipe.CloseErr = errors.New("close: connection reset by peer")
					pipe.Unlock()
				}

				_ = d.Close()

				pipe.Lock()
				pipe.CloseErr = nil
				pipe.Unlock()

				rerr = d.Open()
			})
			if !finR || panR != nil || rerr != nil {
				v.OK, v.Sig, v.Detail = false, "TOOL", fmt.Sprintf("close and open again: fin=%v panic=%v err=%v", finR, panR, rerr)

				return v
			}
		}

		sig := fmt.Sprintf("C04:%s", op.Op)

		switch {
		case !fin:
			fail(&v, sig+":hang", "operation %d (%s) did not return", j, op.Op)
		case pan != nil:
			fail(&v, sig+":panic", "operation %d (%s): %v", j, op.Op, pan)
		case errClass(opErr) != op.Class:
			fail(&v, sig+":error-class", "operation %d (%s -> level %d): %v, contract says %s", j, op.Op, op.Target, opErr, op.Class)
		}

		if !v.OK {
			return v
		}

		// what the device received during this operation
		pipe.Lock()
		newLog := append([]simdev.Recv(nil), cli.Log[logPos:]...)
		logPos = len(cli.Log)
		finalMode := cli.Mode
		pipe.Unlock()

		var got []string

		bare := 0

		for _, r := range newLog {
			if r.Line == "" {
				bare++

				continue
			}

			got = append(got, fmt.Sprintf("%s/%s:%s", r.Mode, r.State, r.Line))
		}

		var want []string

		li := 0

		for _, st := range op.Steps {
			switch st.Kind {
			case "esc":
				want = append(want, fmt.Sprintf("%s/cmd:up-to %d", mode(st.Mode), st.Level))
			case "deesc":
				want = append(want, fmt.Sprintf("%s/cmd:leave %d", mode(st.Mode), st.Level))
			case "secret":
				want = append(want, fmt.Sprintf("%s/ask:%s", mode(st.Mode), c04Secret))
			case "line":
				want = append(want, fmt.Sprintf("%s/cmd:%s", mode(st.Mode), lines[li]))
				li++
			}
		}

		if strings.Join(got, "|") != strings.Join(want, "|") {
			kind := "path"
			if len(got) > len(want) {
				kind = "extra-lines"
			} else if len(got) < len(want) {
				kind = "missing-lines"
			}

			fail(&v, sig+":device-log:"+kind, "operation %d (%s -> level %d, tree %v auth %v): device received %q, contract says %q", j, op.Op, op.Target, s.Parent, s.Auth, got, want)

			return v
		}

		if op.Class == "privilege" && bare > 0 {
			fail(&v, sig+":sent-before-refusing", "unknown target: %d bare returns were sent before the refusal", bare)

			return v
		}

		if finalMode != mode(op.Final) {
			fail(&v, sig+":final-mode", "operation %d (%s): device ends in %s, contract says %s", j, op.Op, finalMode, mode(op.Final))

			return v
		}
	}

	return v
}

func c04(_ []string) error {
	var scns []*c04Scn

	if err := readScenarios(func(raw json.RawMessage) error {
		s := &c04Scn{}
		if err := json.Unmarshal(raw, s); err != nil {
			return err
		}

		scns = append(scns, s)

		return nil
	}); err != nil {
		return err
	}

	segs := []string{"rand", "one", "whole"}

	type job struct {
		s   *c04Scn
		seg string
	}

	var jobs []job

	for _, s := range scns {
		if s.Seg != "" {
			jobs = append(jobs, job{s, s.Seg})

			continue
		}

		jobs = append(jobs, job{s, segs[s.ID%3]})

		if tier() == "thorough" {
			jobs = append(jobs, job{s, segs[(s.ID+1)%3]})
		}
	}

	parallel(len(jobs), 12, func(i int) { emit(c04Run(jobs[i].s, jobs[i].seg)) })

	_ = util.ErrPrivilegeError

	return nil
}
