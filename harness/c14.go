package main

import (
	"encoding/json"
	"fmt"
	"io"
	"os"
	"path/filepath"
	"strings"
	"time"

	"golang.org/x/crypto/ssh"

	"github.com/scrapli/scrapligo/driver/generic"
	"github.com/scrapli/scrapligo/driver/options"
	"github.com/scrapli/scrapligo/transport"
	"github.com/scrapli/scrapligo/util"

	"verifharness/simdev"
)

// C14: every cell of HostKey.tla against an in-process SSH server: standard transport directly, system transport
// through the real /usr/bin/ssh (outcome, server-side auth callbacks) and through a stand-in binary (exact argv).

func init() { register("c14", c14) }

type c14Scn struct {
	Transport string `json:"transport"`
	Strict    bool   `json:"strict"`
	KH        string `json:"kh"`
	Auth      string `json:"auth"`
	Connect   bool   `json:"connect"`
	Class     string `json:"class"`
	Key       bool   `json:"key"`
	Password  bool   `json:"password"`
	Idx       *int   `json:"idx,omitempty"` // replay: the position the scenario had in its batch
	idx       int
}

const (
	c14User = "admin"
	c14Pass = "p@ss-w0rd-Z9"
)

// serveReactor bridges a simdev reactor to a byte stream (ssh channel, tcp connection).
func serveReactor(ch io.ReadWriter, r simdev.Reactor) {
	_, _ = ch.Write(r.Start())
	buf := make([]byte, 4096)

	for {
		n, err := ch.Read(buf)
		if n > 0 {
			if out := r.OnInput(append([]byte(nil), buf[:n]...)); len(out) > 0 {
				_, _ = ch.Write(out)
			}
		}

		if err != nil {
			return
		}
	}
}

func c14Run(s *c14Scn) verdict {
	cell := fmt.Sprintf("%s/strict=%v/kh=%s/auth=%s", s.Transport, s.Strict, s.KH, s.Auth)
	v := verdict{ID: s.idx, Variant: cell, OK: true, Nontrivial: true}

	dir, err := os.MkdirTemp(os.Getenv("VERIF_TMP"), "c14-")
	if err != nil {
		fail(&v, "C14:harness:tmp", "%v", err)

		return v
	}

	defer os.RemoveAll(dir)

	clientSigner, clientPriv, _ := newEd25519()
	keyConfigured := s.Auth != "password"
	passConfigured := s.Auth != "key"
	cfg := sshSrvCfg{User: c14User, OnSession: func(_ string, ch ssh.Channel) {
		serveReactor(ch, stdCLI("exec"))
		_ = ch.Close()
	}}

	if passConfigured {
		cfg.Password = c14Pass
	}

	if keyConfigured && s.Auth != "both-keyrejected" {
		cfg.AuthKey = clientSigner.PublicKey()
	}

	srv, err := startSSHSrv(cfg)
	if err != nil {
		fail(&v, "C14:harness:server", "%v", err)

		return v
	}

	defer srv.Close()

	opts := []util.Option{options.WithPort(srv.Port), options.WithAuthUsername(c14User), options.WithTransportType(s.Transport),
		options.WithTimeoutOps(8 * time.Second), options.WithTimeoutSocket(5 * time.Second), options.WithReadDelay(100 * time.Microsecond)}

	if passConfigured {
		opts = append(opts, options.WithAuthPassword(c14Pass))
	}

	keyPath := ""

	if keyConfigured {
		keyPath, err = writeKeyFile(dir, "id_client", clientPriv)
		if err != nil {
			fail(&v, "C14:harness:key", "%v", err)

			return v
		}

		opts = append(opts, options.WithAuthPrivateKey(keyPath, ""))
	}

	if !s.Strict {
		opts = append(opts, options.WithAuthNoStrictKey())
	}

	khPath := ""

	// every second cell names the host instead of giving its address: the known-hosts entry that counts is the one
	// recorded under the CONFIGURED name
	host := "127.0.0.1"
	if s.idx%2 == 1 {
		host = "localhost"
	}

	other, _, _ := newEd25519()
	khLine := func(h string, k ssh.PublicKey) string {
		return fmt.Sprintf("[%s]:%d %s", h, srv.Port, string(ssh.MarshalAuthorizedKey(k)))
	}
	khContent := func(kind string) []byte {
		switch kind {
		case "has":
			return []byte(khLine(host, srv.HostKey.PublicKey()))
		case "other":
			c := khLine(host, other.PublicKey())
			if host != "127.0.0.1" {
				c += khLine("127.0.0.1", srv.HostKey.PublicKey()) // the right key, but under a name that was not configured
			}

			return []byte(c)
		case "corrupt":
			// another key for the host, and a line that breaks off in the middle: the file as a whole cannot be loaded
			l := khLine(host, srv.HostKey.PublicKey())

			return []byte(khLine(host, other.PublicKey()) + l[:len(l)/2] + "\n")
		}

		return []byte("# nothing here\n")
	}

	if s.KH == "has" || s.KH == "other" || s.KH == "empty" || s.KH == "corrupt" {
		khPath = filepath.Join(dir, "known_hosts")
		_ = os.WriteFile(khPath, khContent(s.KH), 0o600)
	}

	if s.KH == "missing" {
		// the option itself must refuse a path that does not exist: no driver, no connection
		_, nerr := generic.NewDriver(host, append(append([]util.Option{}, opts...), options.WithSSHKnownHostsFile(filepath.Join(dir, "no-such-known-hosts")))...)
		if nerr == nil {
			fail(&v, "C14:"+s.Transport+":missing-known-hosts-file-accepted", "%s: a known-hosts path that does not exist was accepted by the constructor", cell)
		}

		return v
	}

	if khPath != "" {
		opts = append(opts, options.WithSSHKnownHostsFile(khPath))
	}

	// --- system transport: the exact argument list, from a stand-in binary
	if s.Transport == "system" {
		argvFile := filepath.Join(dir, "argv")
		standin := filepath.Join(dir, "standin.sh")
		_ = os.WriteFile(standin, []byte("#!/bin/sh\nprintf '%s\\n' \"$@\" > "+argvFile+"\nsleep 3\n"), 0o700)

		d, derr := generic.NewDriver(host, append(append([]util.Option{}, opts...), options.WithSystemTransportOpenBin(standin),
			options.WithSystemTransportOpenArgs([]string{"-o", "LogLevel=ERROR"}), options.WithTimeoutOps(400*time.Millisecond))...)
		if derr != nil {
			fail(&v, "C14:system:argv:new", "%v", derr)

			return v
		}

		_, _ = withWatchdog(5*time.Second, func() { _ = d.Open() })

		var raw []byte

		for i := 0; i < 300; i++ { // the stand-in may not have been scheduled yet
			raw, _ = os.ReadFile(argvFile)
			if len(raw) > 0 && strings.HasSuffix(string(raw), "\n") {
				break
			}

			time.Sleep(10 * time.Millisecond)
		}

		if len(raw) == 0 {
			v.Skipped = "stand-in binary never ran"

			return v
		}

		argv := strings.Split(strings.TrimSpace(string(raw)), "\n")
		joined := " " + strings.Join(argv, " ") + " "

		want := []string{"-p " + fmt.Sprint(srv.Port), "-l " + c14User, "-F /dev/null", "-o LogLevel=ERROR"}
		if s.Strict {
			want = append(want, "-o StrictHostKeyChecking=yes")
			if khPath != "" {
				want = append(want, "-o UserKnownHostsFile="+khPath)
			}
		} else {
			want = append(want, "-o StrictHostKeyChecking=no", "-o UserKnownHostsFile=/dev/null")
		}

		if keyConfigured {
			want = append(want, "-i "+keyPath)
		}

		switch {
		case len(argv) == 0 || argv[0] != host:
			fail(&v, "C14:system:argv:host", "%s: first argument is %q, must be the host (argv %q)", cell, argv, argv)
		case strings.Contains(joined, c14Pass):
			fail(&v, "C14:system:argv:password-on-command-line", "%s: the password appears in the ssh argument list %q", cell, argv)
		case !keyConfigured && strings.Contains(joined, " -i "):
			fail(&v, "C14:system:argv:unexpected-identity", "%s: -i given although no key is configured: %q", cell, argv)
		case s.Strict && (strings.Contains(joined, "StrictHostKeyChecking=no") || (khPath == "" && strings.Contains(joined, "UserKnownHostsFile="))):
			fail(&v, "C14:system:argv:strict-checking-weakened", "%s: strict checking requested, argv %q", cell, argv)
		case !strings.HasSuffix(strings.TrimSpace(joined), "-o LogLevel=ERROR"):
			fail(&v, "C14:system:argv:extra-args-not-last", "%s: extra arguments must come last: %q", cell, argv)
		default:
			for _, w := range want {
				if !strings.Contains(joined, " "+w+" ") {
					fail(&v, "C14:system:argv:missing:"+strings.Fields(w)[len(strings.Fields(w))-1][:min2(24, len(strings.Fields(w)[len(strings.Fields(w))-1]))], "%s: argument list %q lacks %q", cell, argv, w)

					break
				}
			}
		}

		if !v.OK {
			return v
		}

		// the default port is passed like any other (an ssh config file must not be able to redirect the connection)
		if s.idx%4 == 0 {
			argv22 := filepath.Join(dir, "argv22")
			standin22 := filepath.Join(dir, "standin22.sh")
			_ = os.WriteFile(standin22, []byte("#!/bin/sh\nprintf '%s\\n' \"$@\" > "+argv22+"\nsleep 3\n"), 0o700)

			d22, derr22 := generic.NewDriver(host, append(append([]util.Option{}, opts...), options.WithPort(22), options.WithSystemTransportOpenBin(standin22),
				options.WithTimeoutOps(400*time.Millisecond))...)
			if derr22 == nil {
				_, _ = withWatchdog(5*time.Second, func() { _ = d22.Open() })

				var raw22 []byte

				for i := 0; i < 300; i++ {
					raw22, _ = os.ReadFile(argv22)
					if len(raw22) > 0 && strings.HasSuffix(string(raw22), "\n") {
						break
					}

					time.Sleep(10 * time.Millisecond)
				}

				if j22 := " " + strings.Join(strings.Split(strings.TrimSpace(string(raw22)), "\n"), " ") + " "; len(raw22) > 0 && !strings.Contains(j22, " -p 22 ") {
					fail(&v, "C14:system:argv:missing:port-22", "%s: with port 22 configured the argument list %q does not name the port", cell, j22)

					return v
				}
			}
		}
	}

	// --- the connection itself
	d, err := generic.NewDriver(host, opts...)
	if err != nil {
		fail(&v, "C14:new-driver", "%s: %v", cell, err)

		return v
	}

	var oerr error

	fin, pan := withWatchdog(20*time.Second, func() { oerr = d.Open() })
	if !fin || pan != nil {
		fail(&v, "C14:"+s.Transport+":open-hang", "%s: fin=%v pan=%v", cell, fin, pan)

		return v
	}

	srv.mu.Lock()
	pwSeen := append([]string(nil), srv.PasswordSeen...)
	keysSeen := append([]string(nil), srv.KeysSeen...)
	users := append([]string(nil), srv.UsersSeen...)
	srv.mu.Unlock()

	if (oerr == nil) != s.Connect {
		if oerr == nil {
			fail(&v, "C14:"+s.Transport+":connected-despite-host-key:kh="+s.KH, "%s: the connection was established although strict checking must refuse it (password offered to the server: %v)", cell, len(pwSeen) > 0)
		} else {
			fail(&v, "C14:"+s.Transport+":refused:kh="+s.KH+":auth="+s.Auth, "%s: Open failed with %v, the table says connect", cell, oerr)
		}

		return v
	}

	// the decision is taken on what the known-hosts file says NOW: change it and connect again through the same path
	if s.Strict && khPath != "" && (oerr == nil) == s.Connect {
		flipTo, wantConnect := "has", true
		if s.KH == "has" {
			flipTo, wantConnect = "other", false
		}

		if oerr == nil {
			_, _ = withWatchdog(4*time.Second, func() { _ = d.Close() })
		}

		_ = os.WriteFile(khPath, khContent(flipTo), 0o600)

		srv.mu.Lock()
		srv.PasswordSeen = nil
		srv.mu.Unlock()

		// ... through a new driver or, every other time, through the same driver object opened again
		d2, err2 := d, error(nil)
		if s.idx%2 == 1 {
			d2, err2 = generic.NewDriver(host, opts...)
		}

		if err2 == nil {
			var o2 error

			fin2, _ := withWatchdog(20*time.Second, func() { o2 = d2.Open() })

			srv.mu.Lock()
			pw2 := len(srv.PasswordSeen)
			srv.mu.Unlock()

			switch {
			case !fin2:
				fail(&v, "C14:"+s.Transport+":open-hang", "%s: second connection did not return", cell)
			case (o2 == nil) != wantConnect && o2 == nil:
				fail(&v, "C14:"+s.Transport+":connected-despite-host-key:kh-changed-to-"+flipTo, "%s: after the known-hosts file was changed to hold %s the next connection was still accepted (password offered: %v)", cell, flipTo, pw2 > 0)
			case (o2 == nil) != wantConnect:
				fail(&v, "C14:"+s.Transport+":refused:kh-changed-to-"+flipTo, "%s: after the known-hosts file was changed to hold the server's key the next connection failed: %v", cell, o2)
			}

			if o2 == nil {
				_, _ = withWatchdog(4*time.Second, func() { _ = d2.Close() })
			}

			if !v.OK {
				return v
			}
		}

		// restore for the checks below
		_ = os.WriteFile(khPath, khContent(s.KH), 0o600)

		if oerr == nil {
			// the first connection was closed above: the rest of the cell (identity, first command) uses a fresh one
			d, _ = generic.NewDriver(host, opts...)
			_, _ = withWatchdog(20*time.Second, func() { oerr = d.Open() })
		}
	}

	if !s.Connect {
		if got := errClass(oerr); s.Class == "badoption" && got != "badoption" {
			fail(&v, "C14:standard:missing-known-hosts-class", "%s: error %v (class %s), expected a bad-option error", cell, oerr, got)
		}

		if len(pwSeen) > 0 {
			fail(&v, "C14:"+s.Transport+":password-sent-to-unverified-host", "%s: the password was offered to a server whose key was refused", cell)
		}

		return v
	}

	defer func() { _, _ = withWatchdog(4*time.Second, func() { _ = d.Close() }) }()

	for _, u := range users {
		if u != c14User {
			fail(&v, "C14:"+s.Transport+":wrong-user", "%s: server saw user %q", cell, u)
		}
	}

	fp := ssh.FingerprintSHA256(clientSigner.PublicKey())
	keyOffered := false

	for _, k := range keysSeen {
		if k == fp {
			keyOffered = true
		}
	}

	if v.OK && s.Key && !keyOffered {
		fail(&v, "C14:"+s.Transport+":configured-key-not-offered", "%s: the configured key was never offered (keys seen %v)", cell, keysSeen)
	}

	if v.OK && s.Password {
		ok := false

		for _, p := range pwSeen {
			if p == c14Pass {
				ok = true
			}
		}

		if !ok {
			fail(&v, "C14:"+s.Transport+":password-not-offered", "%s: the configured password never reached the authentication exchange (seen %d passwords)", cell, len(pwSeen))
		}
	}

	if v.OK {
		r, cerr := d.SendCommand("show z8")
		if cerr != nil || r.Result != "zeta 8" {
			fail(&v, "C14:"+s.Transport+":session-unusable", "%s: first command over the connection: %v / %q", cell, cerr, func() string {
				if r != nil {
					return r.Result
				}

				return ""
			}())
		}
	}

	return v
}

func c14(_ []string) error {
	var scns []*c14Scn

	if err := readScenarios(func(raw json.RawMessage) error {
		s := &c14Scn{}
		if err := json.Unmarshal(raw, s); err != nil {
			return err
		}

		s.idx = len(scns)
		if s.Idx != nil {
			s.idx = *s.Idx
		}

		scns = append(scns, s)

		return nil
	}); err != nil {
		return err
	}

	parallel(len(scns), 8, func(i int) { emit(c14Run(scns[i])) })

	return nil
}

// c14home: the two "system default" SSH file options resolve through the home directory; run in a process of its own with HOME
// pointing at a scratch directory. Each option must set exactly the setting it names (known-hosts file / config file) to an
// existing file of that kind and leave the other one alone.
func init() { register("c14home", c14home) }

func c14home(_ []string) error {
	base, err := os.MkdirTemp(os.Getenv("VERIF_TMP"), "c14home-")
	if err != nil {
		return err
	}

	defer os.RemoveAll(base)

	id := 0

	for _, layout := range []string{"dot-ssh", "etc-ssh"} {
		home := filepath.Join(base, layout)

		var kh, cfg string

		if layout == "dot-ssh" {
			kh, cfg = filepath.Join(home, ".ssh", "known_hosts"), filepath.Join(home, ".ssh", "config")
		} else {
			kh, cfg = filepath.Join(home, "etc", "ssh", "ssh_known_hosts"), filepath.Join(home, "etc", "ssh", "ssh_config")
		}

		_ = os.MkdirAll(filepath.Dir(kh), 0o700)
		_ = os.WriteFile(kh, []byte("# known hosts\n"), 0o600)
		_ = os.WriteFile(cfg, []byte("# config\n"), 0o600)
		_ = os.Setenv("HOME", home)

		for _, which := range []string{"known-hosts", "config"} {
			for _, tt := range []string{"system", "standard"} {
				id++
				v := verdict{ID: id, Variant: layout + "/" + which + "/" + tt, OK: true, Nontrivial: true}
				opt := options.WithSSHKnownHostsFileSystem()

				if which == "config" {
					opt = options.WithSSHConfigFileSystem()
				}

				d, derr := generic.NewDriver("127.0.0.1", options.WithTransportType(tt), opt)
				if derr != nil {
					fail(&v, "C14:"+tt+":system-default-file:"+which+":refused", "%s: %v", v.Variant, derr)
					emit(v)

					continue
				}

				var a *transport.SSHArgs

				switch impl := d.Transport.Impl.(type) {
				case *transport.System:
					a = impl.SSHArgs
				case *transport.Standard:
					a = impl.SSHArgs
				}

				if a == nil {
					v.Skipped = "transport does not expose its ssh arguments"
					emit(v)

					continue
				}

				set, otherField, wantBase := a.KnownHostsFile, a.ConfigFile, "known_hosts"
				if which == "config" {
					set, otherField, wantBase = a.ConfigFile, a.KnownHostsFile, "config"
				}

				_, serr := os.Stat(set)

				switch {
				case set == "" || serr != nil || !strings.HasSuffix(filepath.Base(set), wantBase):
					fail(&v, "C14:"+tt+":system-default-file:"+which+":not-set", "%s: the %s file setting is %q (known-hosts %q, config %q)", v.Variant, which, set, a.KnownHostsFile, a.ConfigFile)
				case otherField != "":
					fail(&v, "C14:"+tt+":system-default-file:"+which+":foreign-setting-changed", "%s: the option for the %s file also set the other file to %q", v.Variant, which, otherField)
				}

				emit(v)
			}
		}
	}

	return nil
}
