package main

import (
	"bytes"
	"encoding/json"
	"fmt"
	"regexp"
	"strings"
	"sync"
	"sync/atomic"
	"time"

	"github.com/scrapli/scrapligo/driver/netconf"
	"github.com/scrapli/scrapligo/driver/opoptions"
	"github.com/scrapli/scrapligo/driver/options"
	"github.com/scrapli/scrapligo/response"
	"github.com/scrapli/scrapligo/transport"

	"verifharness/simdev"
)

// C08 (and the read-loop half of C02): behaviours of NcReadLoop.tla replayed on the real NETCONF read loop. A scripted
// transport hands the library exactly the reads of the behaviour, in its order; the next event is released only after
// the read loop has gone through at least two further iterations (counted at the N_top hook), so the model's "the loop
// has examined all it has" holds. One scenario at a time per process (`vh isolated c08rl`): the hook carries no identity.

func init() { register("c08rl", c08rl) }

var nTopCount int64 // iterations of the NETCONF read loop, counted by the hook dispatcher in c07.go

type rlTok struct {
	K string `json:"k"`
	I int    `json:"i"`
}

type rlEvent struct {
	A    string  `json:"a"`
	I    int     `json:"i"`
	Toks []rlTok `json:"toks"`
}

type rlScn struct {
	N         int       `json:"n"`
	Echo      bool      `json:"echo"`
	Pol       []string  `json:"pol"`
	H         []rlEvent `json:"h"`
	Outcome   []string  `json:"outcome"`
	Version   string    `json:"version"`
	Notifs    int       `json:"notifs"`
	Pre       bool      `json:"pre"`
	SplitEcho bool      `json:"splitecho"`
	Burst     bool      `json:"burst"` // consecutive reads of the behaviour are handed over together: no idle iteration of the loop in between
}

type rlTransport struct {
	mu       sync.Mutex
	out      [][]byte
	consumed int
	in       []byte
	lastW    time.Time
}

func (t *rlTransport) Open(_ *transport.Args) error { return nil }
func (t *rlTransport) Close() error                 { return nil }
func (t *rlTransport) IsAlive() bool                { return true }

func (t *rlTransport) Read(_ int) ([]byte, error) {
	t.mu.Lock()
	defer t.mu.Unlock()

	if len(t.out) == 0 {
		return nil, nil
	}

	b := t.out[0]
	t.out = t.out[1:]
	t.consumed++

	return b, nil
}

func (t *rlTransport) Write(b []byte) error {
	t.mu.Lock()
	defer t.mu.Unlock()

	t.in = append(t.in, b...)
	t.lastW = time.Now()

	return nil
}

// release hands reads to the library and waits until the NETCONF loop has processed them.
func (t *rlTransport) release(bs ...[]byte) error {
	t.mu.Lock()
	want := t.consumed + len(bs)
	t.out = append(t.out, bs...)
	t.mu.Unlock()

	deadline := time.Now().Add(2 * time.Second)

	for {
		t.mu.Lock()
		c := t.consumed
		t.mu.Unlock()

		if c >= want {
			break
		}

		if time.Now().After(deadline) {
			return fmt.Errorf("the transport read was never taken")
		}

		time.Sleep(50 * time.Microsecond)
	}

	return settleLoop(int64(len(bs)) + 3) // the NETCONF loop takes one queued read per iteration
}

func settleLoop(iters int64) error {
	time.Sleep(300 * time.Microsecond) // the channel loop moves what it read into the queue
	n0 := atomic.LoadInt64(&nTopCount)
	deadline := time.Now().Add(2 * time.Second)

	for atomic.LoadInt64(&nTopCount) < n0+iters {
		if time.Now().After(deadline) {
			return fmt.Errorf("the NETCONF read loop does not iterate")
		}

		time.Sleep(50 * time.Microsecond)
	}

	return nil
}

type rlResult struct {
	r   *response.NetconfResponse
	err error
}

var rlID = regexp.MustCompile(`message-id="(\d+)"`)

func c08rlOne(s *rlScn, idx int) verdict {
	v := verdict{ID: idx, Variant: fmt.Sprintf("%s/burst=%v", s.Version, s.Burst), OK: true, Nontrivial: true}
	tool := func(format string, a ...interface{}) verdict {
		v.OK = false
		v.Sig = "TOOL"
		v.Detail = fmt.Sprintf(format, a...)

		return v
	}

	caps := []string{cap10}
	if s.Version == "1.1" {
		caps = append(caps, cap11)
	}

	tr := &rlTransport{}
	tr.out = append(tr.out, []byte(simdev.HelloXML(caps, "42", "", false, false)))

	d, err := netconf.NewDriver("sim", options.WithCustomTransport(tr), options.WithReadDelay(60*time.Microsecond),
		options.WithTimeoutOps(4*time.Second), options.WithNetconfPreferredVersion(s.Version))
	if err != nil {
		return tool("driver: %v", err)
	}

	if err = d.Open(); err != nil {
		return tool("open: %v", err)
	}

	defer func() { _, _ = withWatchdog(3*time.Second, func() { _ = d.Close() }) }()

	if d.SelectedVersion != s.Version {
		return tool("negotiated %s, wanted %s", d.SelectedVersion, s.Version)
	}

	// wait for the client hello to be written
	time.Sleep(2 * time.Millisecond)

	delim := []byte("]]>]]>")
	if s.Version == "1.1" {
		delim = []byte("\n##\n")
	}

	tokens := map[rlTok][]byte{}
	results := map[int]chan rlResult{}

	msg := func(i int) {
		pay := fmt.Sprintf(`<rpc-reply xmlns="urn:ietf:params:xml:ns:netconf:base:1.0" message-id="%d"><data><v>%d</v></data></rpc-reply>`, 100+i, i)
		bodyKind := "body"

		if i%2 == 1 {
			// the reply mentions a subscription (what the reply to establish-subscription looks like): token "sbody"
			pay = fmt.Sprintf(`<rpc-reply xmlns="urn:ietf:params:xml:ns:netconf:base:1.0" message-id="%d"><data><v>%d</v><subscription-id>7</subscription-id></data></rpc-reply>`, 100+i, i)
			bodyKind = "sbody"
		}

		var framed []byte
		if s.Version == "1.1" {
			framed = simdev.Frame11([]byte(pay), []int{len(pay)})
		} else {
			framed = simdev.Frame10([]byte(pay))
		}

		// the framing prefix as a token of its own (behaviours generated with Pre = TRUE use it; otherwise it is part of hdr)
		cut0 := 0

		if s.Pre {
			if s.Version == "1.1" {
				cut0 = bytes.Index(framed[1:], []byte("\n")) + 2
			} else {
				decl := []byte(`<?xml version="1.0" encoding="UTF-8"?>`)
				framed = append(append([]byte(nil), decl...), framed...)
				cut0 = len(decl)
			}

			tokens[rlTok{"pre", i}] = framed[:cut0]
		}

		cut1 := bytes.Index(framed, []byte(`">`)) + 2
		cut2 := bytes.LastIndex(framed, delim)
		tokens[rlTok{"hdr", i}] = framed[cut0:cut1]
		tokens[rlTok{bodyKind, i}] = framed[cut1:cut2]
		tokens[rlTok{"end", i}] = framed[cut2:]
	}

	// notification k of subscription 7 (tokens nhdr / nbody / nend numbered 20 + k)
	for k := 1; k <= s.Notifs; k++ {
		pay := fmt.Sprintf(`<notification xmlns="urn:ietf:params:xml:ns:netconf:notification:1.0"><eventTime>2026-01-01T00:00:0%dZ</eventTime><push-update><subscription-id>7</subscription-id><k>%d</k></push-update></notification>`, k, k)

		var framed []byte
		if s.Version == "1.1" {
			framed = simdev.Frame11([]byte(pay), []int{len(pay)})
		} else {
			framed = simdev.Frame10([]byte(pay))
		}

		cut1 := bytes.Index(framed, []byte(`</subscription-id>`)) + len(`</subscription-id>`)
		cut2 := bytes.LastIndex(framed, delim)
		tokens[rlTok{"nhdr", 20 + k}] = framed[:cut1]
		tokens[rlTok{"nbody", 20 + k}] = framed[cut1:cut2]
		tokens[rlTok{"nend", 20 + k}] = framed[cut2:]
	}

	send := func(i int, to time.Duration) error {
		tr.mu.Lock()
		mark := len(tr.in)
		tr.mu.Unlock()

		ch := make(chan rlResult, 1)
		results[i] = ch

		go func() {
			r, e := d.Get("", opoptions.WithTimeoutOps(to))
			ch <- rlResult{r, e}
		}()

		deadline := time.Now().Add(2 * time.Second)

		for {
			tr.mu.Lock()
			w := append([]byte(nil), tr.in[mark:]...)
			quiet := time.Since(tr.lastW)
			tr.mu.Unlock()

			if bytes.Contains(w, delim) && bytes.HasSuffix(w, []byte("\n")) && quiet > 800*time.Microsecond {
				m := rlID.FindSubmatch(w)
				if m == nil || string(m[1]) != fmt.Sprint(100+i) {
					fail(&v, "C08:"+s.Version+":message-id-sequence", "request %d carries message-id %q, must be %d", i, m, 100+i)
				}

				cut := bytes.Index(w, []byte("</rpc>")) + len("</rpc>")
				tokens[rlTok{"rpc", i}] = w[:cut]
				tokens[rlTok{"eend", i}] = w[cut:]

				if s.SplitEcho {
					// the head of the echo (through the rpc start tag, which carries the message-id) as a token of its own
					k := bytes.Index(w, []byte(`message-id="`))
					k += bytes.IndexByte(w[k:], '>') + 1
					tokens[rlTok{"rpch", i}] = w[:k]
					tokens[rlTok{"rpc", i}] = w[k:cut]
				}
				msg(i)

				return nil
			}

			if time.Now().After(deadline) {
				return fmt.Errorf("request %d was not written completely: %q", i, w)
			}

			time.Sleep(100 * time.Microsecond)
		}
	}

	await := func(i int, want string) {
		var res rlResult

		select {
		case res = <-results[i]:
		case <-time.After(6 * time.Second):
			fail(&v, "C08:"+s.Version+":hang", "call %d did not return", i)

			return
		}

		sig := fmt.Sprintf("C08:%s:readloop:%s", s.Version, strings.Join(s.Pol[:min2(i, len(s.Pol))], ","))

		switch {
		case want == "ok" && res.err != nil:
			fail(&v, sig+":reply-lost", "call %d: %v although its reply was delivered in full; events %s", i, res.err, rlHist(s.H))
		case want == "ok":
			if !strings.Contains(res.r.Result, fmt.Sprintf("<v>%d</v>", i)) || !strings.Contains(res.r.Result, fmt.Sprintf(`message-id="%d"`, 100+i)) || strings.Count(res.r.Result, "<rpc-reply") != 1 {
				fail(&v, sig+":foreign-reply", "call %d returned %q; events %s", i, res.r.Result, rlHist(s.H))
			} else if res.r.Failed != nil {
				fail(&v, sig+":reply-failed", "call %d: own reply marked failed: %v", i, res.r.Failed)
			}
		case res.err == nil:
			fail(&v, sig+":reply-from-nowhere", "call %d returned %q before the server answered it; events %s", i, res.r.Result, rlHist(s.H))
		case errClass(res.err) != "timeout":
			fail(&v, sig+":error-class", "call %d: %v, expected a timeout", i, res.err)
		}
	}

	var batch [][]byte

	flush := func() error {
		if len(batch) == 0 {
			return nil
		}

		b := batch
		batch = nil

		return tr.release(b...)
	}

	for _, e := range s.H {
		if !v.OK {
			return v
		}

		if e.A != "read" && e.A != "reply" && e.A != "notify" && e.A != "echorest" {
			if err = flush(); err != nil {
				return tool("%v", err)
			}
		}

		switch e.A {
		case "send":
			to := 4 * time.Second
			if s.Pol[e.I-1] != "now" {
				to = 120 * time.Millisecond
			}

			if err = send(e.I, to); err != nil {
				return tool("%v", err)
			}
		case "reply", "notify", "echorest":
		case "read":
			if len(e.Toks) == 0 {
				if err = flush(); err == nil {
					err = settleLoop(3)
				}

				if err != nil {
					return tool("%v", err)
				}

				continue
			}

			var b []byte

			for _, tk := range e.Toks {
				tb, ok := tokens[tk]
				if !ok {
					return tool("token %v not available", tk)
				}

				b = append(b, tb...)
			}

			batch = append(batch, b)

			if !s.Burst {
				if err = flush(); err != nil {
					return tool("%v", err)
				}
			}
		case "fetch":
			await(e.I, "ok")
		case "timeout":
			await(e.I, "timeout")
		}
	}

	if err = flush(); err != nil {
		return tool("%v", err)
	}

	if !v.OK {
		return v
	}

	// which notifications were filed, whole, for the subscription (not part of the property: compared with the model's prediction
	// by the caller, reported as a note)
	if s.Notifs > 0 {
		msgs := d.GetSubscriptionMessages(7)
		stored := make([]bool, s.Notifs)

		for _, m := range msgs {
			for k := 1; k <= s.Notifs; k++ {
				if bytes.Contains(m, []byte(fmt.Sprintf("<k>%d</k>", k))) && bytes.Count(m, []byte("<notification")) == 1 && !bytes.Contains(m, []byte("<rpc")) {
					stored[k-1] = true
				}
			}
		}

		v.Extra = map[string]interface{}{"nstored": stored, "nfiled": len(msgs)}
	}

	// probe: one more call, answered at once in two reads, must get its own reply (nothing left in the buffer poisons it)
	p := s.N + 1
	s.Pol = append(s.Pol, "now")

	if err = send(p, 4*time.Second); err != nil {
		return tool("%v", err)
	}

	if s.Echo {
		if err = tr.release(append(append(append([]byte(nil), tokens[rlTok{"rpch", p}]...), tokens[rlTok{"rpc", p}]...), tokens[rlTok{"eend", p}]...)); err != nil {
			return tool("%v", err)
		}
	}

	if err = tr.release(append(append(append(append([]byte(nil), tokens[rlTok{"pre", p}]...), tokens[rlTok{"hdr", p}]...), append(tokens[rlTok{"body", p}], tokens[rlTok{"sbody", p}]...)...), tokens[rlTok{"end", p}]...)); err != nil {
		return tool("%v", err)
	}

	await(p, "ok")

	return v
}

func rlHist(h []rlEvent) string {
	var parts []string

	for _, e := range h {
		if e.A != "read" {
			parts = append(parts, fmt.Sprintf("%s%d", e.A, e.I))

			continue
		}

		var t []string
		for _, tk := range e.Toks {
			t = append(t, fmt.Sprintf("%s%d", tk.K, tk.I))
		}

		parts = append(parts, "read["+strings.Join(t, " ")+"]")
	}

	return strings.Join(parts, " ")
}

func c08rl(args []string) error {
	handle := func(raw json.RawMessage, idx int) interface{} {
		s := &rlScn{}
		if err := json.Unmarshal(raw, s); err != nil {
			return map[string]interface{}{"ok": false, "toolerror": err.Error()}
		}

		return c08rlOne(s, idx)
	}

	if len(args) > 0 && args[0] == "-child" {
		return childLoop(handle)
	}

	idx := 0

	return readScenarios(func(raw json.RawMessage) error {
		emit(handle(raw, idx))
		idx++

		return nil
	})
}
