SPECIFICATION Spec
CONSTANTS Mode = "raw"
 MaxLen = 5
 MaxPay = 3
INVARIANTS FramesLegal StrictImpliesLenient
CONSTRAINT Emit
CHECK_DEADLOCK FALSE
