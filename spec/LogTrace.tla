------------------------------ MODULE LogTrace ------------------------------
(* C11 (direction V): no credential ever reaches a log.  The harness attaches a debug-level logger and a channel log to
   every login dialogue of Auth.tla and every dialogue / escalation of InteractiveScn.tla (including runs in which the write
   that carries the secret fails, or the connection breaks right after the secret was sent) and records
     {"ev":"reset","t":id,"kind":k,"class":c}
     {"ev":"log","sink":"logger"|"channel-log","taint":[secrets that occur in the message],"len":n}
   The taint set is the projection computed by substring search; the specification demands that it is empty at every step
   (Auth!NoTaint: every credential write is redacted, so no log message inherits a secret).                          *)
EXTENDS Naturals, Sequences, TLC, Json
Trace == ndJsonDeserialize("trace.ndjson")
VARIABLES l, sessions, messages
vars == <<l, sessions, messages>>
Ev == Trace[l]
Init == l = 1 /\ sessions = 0 /\ messages = 0
Reset == /\ l <= Len(Trace) /\ Ev.ev = "reset" /\ l' = l + 1 /\ sessions' = sessions + 1 /\ UNCHANGED messages
Log == /\ l <= Len(Trace) /\ Ev.ev = "log" /\ l' = l + 1
       /\ Ev.taint = <<>>                       \* LogTaint = {}
       /\ messages' = messages + 1 /\ UNCHANGED sessions
Next == Reset \/ Log
Spec == Init /\ [][Next]_vars
ASSUME TLCSet(1, 0)
HW == TLCSet(1, IF TLCGet(1) < l THEN l ELSE TLCGet(1))
Accepted == \/ TLCGet(1) = Len(Trace) + 1
            \/ PrintT("SCN " \o ToJson([rejectedAt |-> TLCGet(1)])) = FALSE
=============================================================================
