SPECIFICATION Spec
CONSTANTS
 CmdSet <- MCCmdsQuick
 OutSet <- MCOutsQuick
 NCmd = 2
 Prompt <- MCPrompt
 Banner <- MCBanner
 ReadSizes = {1, 40}
 Depths = {12}
 Strips = {TRUE, FALSE}
 Exacts = {TRUE, FALSE}
 Wraps = {TRUE, FALSE}
 QMax = 3
INVARIANTS Aligned DeviceGot NoForeign
PROPERTY AllDone
VIEW View
CHECK_DEADLOCK FALSE
