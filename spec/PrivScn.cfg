SPECIFICATION Spec
CONSTANTS Seed = 1
 Count = 40
CHECK_DEADLOCK FALSE
