------------------------------ MODULE Platform ------------------------------
(* C17: every advertised platform definition, as exported by the real loader (platforms.json: one record per advertised
   name and per variant, with the levels, a canonical prompt per level sampled from its pattern, the acceptance relation
   "level L's matcher accepts the canonical prompt of level M" evaluated with the real regular expressions, the on-open /
   on-close steps, and the result of comparing a variant's merged sections with the file).
   Static part: WellFormed(d).  Dynamic part: the AcquirePriv loop of Privilege.tla instantiated with the definition's tree
   and acceptance relation; the device reacts to command TEXT as the definition-derived device model does.  For every
   (start, target) pair the module prints every terminal outcome, so that the runner can tell pairs that reach the target
   under EVERY map order (these are driven on the real code) from pairs whose outcome depends on Go's map iteration order. *)
EXTENDS Naturals, Sequences, FiniteSets, TLC, Json
Defs == JsonDeserialize("platforms.json")
VARIABLES d, mode, cache, target, start, pc, count
vars == <<d, mode, cache, target, start, pc, count>>

L(i) == Defs[i].levels
Names(i) == {L(i)[k].name : k \in 1..Len(L(i))}
Lv(i, n) == L(i)[CHOOSE k \in 1..Len(L(i)) : L(i)[k].name = n]
Root(i) == {n \in Names(i) : Lv(i, n).previous = ""}
RECURSIVE Anc(_, _, _)
Anc(i, n, k) == IF k = 0 \/ n = "" THEN {} ELSE {n} \cup Anc(i, Lv(i, n).previous, k - 1)
InSeq(x, s) == \E k \in 1..Len(s) : s[k] = x

\* ---------------- static well-formedness
SingleTree(i) == /\ Cardinality(Root(i)) = 1
                 /\ \A n \in Names(i) : Lv(i, n).previous = "" \/ Lv(i, n).previous \in Names(i)
                 /\ \A n \in Names(i) : \E r \in Anc(i, n, Len(L(i)) + 1) : r \in Root(i)
WellFormed(i) ==
  LET p == Defs[i] IN
  /\ p.loads
  /\ p.declared = p.drivertype
  /\ (p.drivertype = "network" => /\ Len(L(i)) > 0 /\ SingleTree(i) /\ p.default \in Names(i)
                                  /\ \A k \in 1..Len(L(i)) : L(i)[k].promptok /\ L(i)[k].joinedok /\ InSeq(L(i)[k].name, L(i)[k].accepts)
                                                          /\ L(i)[k].documentedbad = <<>>)      \* typical prompts of the level still match
  /\ \A k \in 1..Len(p.onopen) : p.onopen[k].wellformed
  /\ \A k \in 1..Len(p.onclose) : p.onclose[k].wellformed
  /\ p.mergeok
  /\ p.unknownkeys = <<>>         \* every key of the file is one the loader takes (a misspelt key is dropped without a word)
AllWellFormed == \A i \in 1..Len(Defs) : WellFormed(i)
Static == [bad |-> SelectSeq([i \in 1..Len(Defs) |-> IF WellFormed(i) THEN <<>> ELSE <<Defs[i].name, Defs[i].variant>>], LAMBDA x : x # <<>>)]

\* ---------------- reachability under the acceptance relation
Acc(i, m) == {n \in Names(i) : InSeq(m, Lv(i, n).accepts)}          \* levels whose matcher accepts the prompt shown in mode m
RECURSIVE Up(_, _, _)
Up(i, a, b) == IF a \in Anc(i, b, Len(L(i)) + 1) THEN <<a>> ELSE <<a>> \o Up(i, Lv(i, a).previous, b)
RECURSIVE Down(_, _, _)
Down(i, l, b) == IF l = b THEN <<>> ELSE Down(i, l, Lv(i, b).previous) \o <<b>>
Path(i, a, b) == LET u == Up(i, a, b) IN u \o Down(i, u[Len(u)], b)
\* the device reacts to the text of a line, in its real mode
React(i, m, line) == IF line # "" /\ Lv(i, m).deescalate = line /\ Lv(i, m).previous # "" THEN Lv(i, m).previous
                     ELSE IF \E c \in Names(i) : Lv(i, c).previous = m /\ Lv(i, c).escalate = line /\ line # ""
                          THEN CHOOSE c \in Names(i) : Lv(i, c).previous = m /\ Lv(i, c).escalate = line
                          ELSE m
Usable(i) == Defs[i].loads /\ Defs[i].drivertype = "network" /\ SingleTree(i) /\ \A k \in 1..Len(L(i)) : L(i)[k].promptok
\* targets: levels one can be taken into (root, or with an escalate command); starts: any level reachable that way too (the harness gets there through the driver)
Enterable(i) == {n \in Names(i) : Lv(i, n).previous = "" \/ Lv(i, n).escalate # ""}

Init == /\ d \in {i \in 1..Len(Defs) : Usable(i)}
        /\ start \in Enterable(d) /\ target \in Enterable(d) /\ mode = start /\ cache = start
        /\ pc = "prompt" /\ count = 0
Step == /\ pc = "prompt"
        /\ \E cur \in Acc(d, mode) :
             /\ (cache \in Acc(d, mode) => cur = cache)
             /\ (cache \notin Acc(d, mode) /\ target \in Acc(d, mode) => cur = target)
             /\ IF cur = target
                THEN /\ cache' = cur /\ pc' = "done" /\ UNCHANGED <<mode, count>>
                ELSE LET path == Path(d, cur, target)
                         nxt  == path[2]
                         line == IF Lv(d, nxt).previous # cur THEN Lv(d, cur).deescalate ELSE Lv(d, nxt).escalate
                     IN /\ cache' = "UNKNOWN"
                        /\ mode' = React(d, mode, line)
                        /\ count' = count + 1
                        /\ pc' = IF count + 1 > 2 * Len(L(d)) THEN "error" ELSE "prompt"
        /\ UNCHANGED <<d, target, start>>
Next == Step
Spec == Init /\ [][Next]_vars
Outcome == IF pc = "error" THEN "error" ELSE IF target \in Acc(d, mode) THEN "ok" ELSE "wrong-level"
Emit == (pc \in {"done", "error"}) => PrintT("SCN " \o ToJson([name |-> Defs[d].name, variant |-> Defs[d].variant, start |-> start, target |-> target, outcome |-> Outcome]))
ASSUME PrintT("SCN " \o ToJson([static |-> TRUE, bad |-> Static.bad, n |-> Len(Defs)]))
=============================================================================
