SPECIFICATION Spec
CONSTANTS MaxN = 3
 OutT <- MCOutTQuick
 Prompt <- MCPrompt
INVARIANTS StopIsPrefix OpWins AggregateExact
CHECK_DEADLOCK FALSE
