SPECIFICATION Spec
CONSTANTS Seed = 1
 Count = 300
CHECK_DEADLOCK FALSE
