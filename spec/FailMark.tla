------------------------------ MODULE FailMark ------------------------------
(* C13: failure marking and stop-on-failed.  A response is failed iff its (post-processed) output
   contains one of the failure strings in force - the operation's list when it is non-empty,
   otherwise the driver's; a multi response is failed iff a member is, and lists exactly those
   members; with stop-on-failed nothing after the first failed command is transmitted.
   The module enumerates EVERY (command list, outputs, driver list, operation list, stop flag)
   over the templates below and prints each with the predicted observables.                  *)
EXTENDS Text, TLC, Json
CONSTANTS MaxN, OutT, Prompt
VARIABLES outs, drv, op, stop, emitted
vars == <<outs, drv, op, stop, emitted>>

F1 == <<"%", "!">>
F2 == <<"!", "a">>
DrvLists == { <<>>, <<F1>>, <<F2, F1>> }
OpLists  == { <<>>, <<F2>>, <<F1>> }

Res(o) == Expect(o, Prompt, TRUE)
InForce == IF op # <<>> THEN op ELSE drv
FailedBy(o) == \E k \in 1..Len(InForce) : IsSub(InForce[k], Res(o))
\* the string reported: the first of the list, in list order, that occurs
ErrStr(o) == IF FailedBy(o) THEN InForce[CHOOSE k \in 1..Len(InForce) : IsSub(InForce[k], Res(o)) /\ \A j \in 1..(k-1) : ~IsSub(InForce[j], Res(o))] ELSE <<>>
N == Len(outs)
FirstFailed == IF \E k \in 1..N : FailedBy(outs[k]) THEN CHOOSE k \in 1..N : FailedBy(outs[k]) /\ \A j \in 1..(k-1) : ~FailedBy(outs[j]) ELSE 0
NSent == IF stop /\ FirstFailed # 0 THEN FirstFailed ELSE N
FailedIdx == SelectSeq([k \in 1..NSent |-> k], LAMBDA k : FailedBy(outs[k]))
Cmd(k) == <<"c", IF k = 1 THEN "1" ELSE IF k = 2 THEN "2" ELSE IF k = 3 THEN "a" ELSE "b">>

Init == /\ outs \in UNION {[1..n -> OutT] : n \in 1..MaxN}
        /\ drv \in DrvLists /\ op \in OpLists /\ stop \in BOOLEAN /\ emitted = FALSE
Scn == [n |-> N, stop |-> stop,
        cmds |-> [k \in 1..N |-> Str(Cmd(k))], outs |-> [k \in 1..N |-> Str(outs[k])],
        drv |-> [k \in 1..Len(drv) |-> Str(drv[k])], op |-> [k \in 1..Len(op) |-> Str(op[k])],
        prompt |-> Str(Prompt),
        nsent |-> NSent,
        results |-> [k \in 1..NSent |-> Str(Res(outs[k]))],
        failed |-> [k \in 1..NSent |-> FailedBy(outs[k])],
        errstr |-> [k \in 1..NSent |-> Str(ErrStr(outs[k]))],
        failedIdx |-> FailedIdx,
        multiFailed |-> FailedIdx # <<>>]
Next == ~emitted /\ emitted' = TRUE /\ PrintT("SCN " \o ToJson(Scn)) /\ UNCHANGED <<outs, drv, op, stop>>
Spec == Init /\ [][Next]_vars

\* sanity of the contract itself
StopIsPrefix == /\ NSent <= N /\ (stop /\ FirstFailed # 0 => NSent = FirstFailed)
                /\ (stop => \A k \in 1..(NSent - 1) : ~FailedBy(outs[k]))
                /\ (~stop => NSent = N)
OpWins == (op # <<>>) => \A k \in 1..N : FailedBy(outs[k]) = (\E j \in 1..Len(op) : IsSub(op[j], Res(outs[k])))
AggregateExact == \A k \in 1..NSent : FailedBy(outs[k]) <=> (\E j \in 1..Len(FailedIdx) : FailedIdx[j] = k)
=============================================================================
