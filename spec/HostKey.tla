------------------------------- MODULE HostKey -------------------------------
(* C14: the host-key decision table and the identity contract of the two SSH transports.
   A cell = transport x strict checking x relation of the configured known-hosts file to the server's key x authentication
   material.  Connect(cell) is the property's rule: without strict checking always; with it only when the file lists the
   server's key.  On a connection the server must have been offered exactly the configured identity (the password only
   through the authentication exchange; the key when one is configured; with both configured and the key rejected by the
   server, the password).  The module enumerates all cells with the predicted outcome.                                     The decision is a function of what the known-hosts file says at the time of THAT connection and of the name the host
   was configured by (an entry under another name or address does not count): the harness therefore runs every cell under an
   address and under a name, rewrites the file between two connections through the same path, and for the system transport
   also checks the argument list with the default port 22 (which must be passed like any other).                        *)
EXTENDS Naturals, Sequences, TLC, Json
VARIABLES transport, strict, kh, auth, emitted
vars == <<transport, strict, kh, auth, emitted>>
Init == /\ transport \in {"system", "standard"} /\ strict \in BOOLEAN
        \* "corrupt": another key plus a truncated line (the file cannot be loaded); "missing": the configured path does not exist
        /\ kh \in {"has", "other", "empty", "none", "corrupt", "missing"}
        /\ auth \in {"password", "key", "both", "both-keyrejected"}
        /\ emitted = FALSE
\* a path that does not exist is refused when the option is applied, whatever the checking mode
Connect == kh # "missing" /\ (~strict \/ kh = "has")
\* error class when it must fail: the standard transport refuses a strict configuration without a file before dialling
Class == IF Connect THEN "ok" ELSE IF transport = "standard" /\ kh = "none" THEN "badoption" ELSE "error"
\* what the server's authentication callbacks must have seen on a successful connection
OfferedKey == auth \in {"key", "both", "both-keyrejected"}
OfferedPassword == auth \in {"password", "both-keyrejected"}
Scn == [transport |-> transport, strict |-> strict, kh |-> kh, auth |-> auth, connect |-> Connect, class |-> Class,
        key |-> OfferedKey, password |-> OfferedPassword]
Next == ~emitted /\ emitted' = TRUE /\ PrintT("SCN " \o ToJson(Scn)) /\ UNCHANGED <<transport, strict, kh, auth>>
Spec == Init /\ [][Next]_vars
\* the property's wording
StrictMeansListed == (strict /\ Connect) => kh = "has"
SkippedOnlyWhenDisabled == (kh # "has" /\ Connect) => ~strict
UnreadableNeverTrusted == (strict /\ kh \in {"corrupt", "missing"}) => ~Connect
=============================================================================
