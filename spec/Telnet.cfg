SPECIFICATION Spec
CONSTANTS MaxItems = 2
 Mode = "all"
 Count = 0
 Seed = 1
INVARIANTS AnsweredOnce DataKept BackToData
CONSTRAINT Emit
CHECK_DEADLOCK FALSE
