-------------------------------- MODULE Auth --------------------------------
(* C10 / C11: in-channel login.  The device plays a script, a sequence over
     banner | askuser | askpass | askpassphrase | reject | ssherr | shell | silence | eof (the peer closes the stream)
   and the client (channel/auth.go) answers each question it recognises with the matching credential, at most twice
   per credential.  Style "telnet" recognises askuser / askpass (a passphrase question is just text to it), style "ssh"
   recognises askpass / askpassphrase and additionally turns recognised ssh client failure messages into a connection
   error.  The module enumerates EVERY script up to MaxLen, runs the dialogue, checks the pairing / bound invariants at
   every step and prints each finished dialogue with the predicted outcome and the lines the device must have received. *)
EXTENDS Naturals, Sequences, FiniteSets, TLC, Json
CONSTANTS Style, MaxLen
VARIABLES script, i, seen, sent, outcome, state, logTaint
vars == <<script, i, seen, sent, outcome, state, logTaint>>

Kinds == IF Style = "telnet" THEN {"banner", "askuser", "askpass", "reject", "shell", "silence", "eof"}
         ELSE {"banner", "askpass", "askpassphrase", "reject", "ssherr", "shell", "silence", "eof"}
Asks == IF Style = "telnet" THEN {"askuser", "askpass"} ELSE {"askpass", "askpassphrase"}
\* scripts: nothing after shell / silence; a reject only directly after an answered question
WellFormed(s) == /\ \A k \in 1..Len(s) : s[k] \in {"shell", "silence", "eof"} => k = Len(s)
                 /\ \A k \in 1..Len(s) : s[k] = "reject" => (k > 1 /\ s[k-1] \in Asks)
                 /\ s # <<>> /\ s[Len(s)] \in {"shell", "silence", "ssherr", "eof"} \cup Asks
Scripts == UNION {{s \in [1..n -> Kinds] : WellFormed(s)} : n \in 1..MaxLen}

Init == /\ script \in Scripts /\ i = 1 /\ seen = [c \in Asks |-> 0] /\ sent = <<>> /\ outcome = "" /\ state = "talking"
        /\ logTaint = {}

\* the device prints step i; the client reacts
Step == /\ outcome = "" /\ i <= Len(script)
        /\ LET k == script[i] IN
           CASE k \in {"banner", "reject"} -> /\ i' = i + 1 /\ UNCHANGED <<seen, sent, outcome, state, logTaint>>
             [] k = "ssherr" -> /\ outcome' = "connection" /\ i' = i + 1 /\ UNCHANGED <<seen, sent, state, logTaint>>
             [] k = "shell" -> /\ outcome' = "ok" /\ i' = i + 1 /\ UNCHANGED <<seen, sent, state, logTaint>>
             [] k = "eof" -> /\ outcome' = "connection" /\ i' = i + 1 /\ UNCHANGED <<seen, sent, state, logTaint>>
             [] k = "silence" -> /\ outcome' = "timeout" /\ i' = i + 1 /\ UNCHANGED <<seen, sent, state, logTaint>>
             [] k \in Asks -> /\ seen' = [seen EXCEPT ![k] = @ + 1]
                              /\ IF seen[k] + 1 > 2
                                 THEN /\ outcome' = "auth" /\ UNCHANGED <<sent, i, logTaint>>      \* third prompt: give up, send nothing
                                 ELSE /\ sent' = Append(sent, [state |-> k, cred |-> k])           \* credential k, written redacted
                                      /\ i' = i + 1 /\ outcome' = outcome
                                      /\ logTaint' = logTaint          \* a redacted write taints no log (C11)
                              /\ UNCHANGED state
\* the script is exhausted while the client still waits: the device says nothing more
Starve == /\ outcome = "" /\ i > Len(script) /\ outcome' = "timeout" /\ UNCHANGED <<script, i, seen, sent, state, logTaint>>
Next == (Step /\ UNCHANGED script) \/ Starve
Spec == Init /\ [][Next]_vars /\ WF_vars(Next)

Bounded  == \A c \in Asks : Cardinality({k \in 1..Len(sent) : sent[k].cred = c}) <= 2
Paired   == \A k \in 1..Len(sent) : sent[k].state = sent[k].cred
OkIffShell == (outcome = "ok") => (script[Len(script)] = "shell" /\ \A c \in Asks : seen[c] <= 2)
NoTaint  == logTaint = {}
Ends == <>(outcome # "")
Emit == (outcome # "") => PrintT("SCN " \o ToJson([style |-> Style, script |-> script, class |-> outcome,
                                                    sent |-> [k \in 1..Len(sent) |-> sent[k].cred]]))
=============================================================================
