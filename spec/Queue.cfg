SPECIFICATION Spec
CONSTANTS NProd = 3
 NCons = 5
 EMPTY = EMPTY
INVARIANTS NoPanic Lossless DepthIsLen TokenConsistent
PROPERTY Finishes
