------------------------------ MODULE PrivScn ------------------------------
(* Scenario generator for C04 (direction G).  Scenario m: a privilege tree on levels 1..n (recursive tree:
   parent[i] < i, root 1), a set of authenticated edges, a default and a configuration level, the mode the
   device starts in, and a sequence of driver operations.  For every operation the contract predicts what
   the device must receive: exactly the escalate / de-escalate commands of the unique tree path from the
   device's current mode to the operation's level (with the secret in the password state after an
   authenticated escalate), each arriving in the mode it is a transition of, then the payload lines at the
   operation's level; an unknown target: privilege error and nothing sent.  Privilege.tla shows that the
   driver's loop realises exactly Cmds(Path(...)) for every tree; this module reuses those operators.     *)
EXTENDS Naturals, Sequences, FiniteSets, ScnRand, TLC, Json
CONSTANT Count
VARIABLE n

NONE == 0
RECURSIVE AncI(_, _, _)
AncI(p, x, k) == IF k = 0 \/ x = NONE THEN {} ELSE {x} \cup AncI(p, p[x], k - 1)
RECURSIVE UpI(_, _, _)
UpI(p, a, b) == IF a \in AncI(p, b, Len(p)) THEN <<a>> ELSE <<a>> \o UpI(p, p[a], b)
RECURSIVE DownI(_, _, _)
DownI(p, l, b) == IF l = b THEN <<>> ELSE DownI(p, l, p[b]) \o <<b>>
PathI(p, a, b) == LET u == UpI(p, a, b) IN u \o DownI(p, u[Len(u)], b)
\* device-side expectation for the path: [kind, level, mode it must arrive in]
\* au[i] \in {"no", "asks", "grants"}: the escalate into level i is not authenticated / asks for the password / is marked as
\* authenticated in the definition but the device grants it without asking (the secret must then never be typed)
RECURSIVE Steps(_, _, _)
Steps(p, au, path) ==
  IF Len(path) < 2 THEN <<>>
  ELSE (IF p[path[1]] = path[2]
        THEN << [kind |-> "deesc", level |-> path[1], mode |-> path[1]] >>
        ELSE << [kind |-> "esc", level |-> path[2], mode |-> path[1]] >>
             \o (IF au[path[2]] = "asks" THEN << [kind |-> "secret", level |-> path[2], mode |-> path[1]] >> ELSE <<>>))
       \o Steps(p, au, Tail(path))

\* "configs-leave": config lines whose last one is the level's own de-escalate command - the device leaves the configuration
\* level by itself, the driver's cached level is stale; the operation after it is a configs at the same level, which must find
\* its way back (AcquirePriv reads the prompt, it does not trust the cache)
\* "rename": the device's prompts change (host renamed); the driver's level patterns are edited in place and UpdatePrivileges is
\* called - nothing is sent, everything after it must still work.
\* "configs-stalled": the device acts on the first transition command of the path but its answer never arrives: the operation
\* times out with the device one step along the path; the operation after it is a plain command, which must find its way from
\* where the device really is (the cached level must not survive a transition that was started).
\* "configs-file-at": the lines come from a file, the level from the per-operation option (the less used variant of configs-at).
\* "configs-at-unknown": the per-operation option names a level that does not exist: refused, nothing sent.
\* "reopen-late": a command is sent and the device's answer comes too late - the operation times out, the answer arrives
\* afterwards and nobody reads it; the caller closes and opens the same driver again.  The device starts the new session in the
\* mode it starts every session in; what the old session left unread must not be taken for the state of the new one, so the
\* operation after it (a configs, or a plain command) takes the path from the start mode.
OpKinds == << "acquire", "command", "configs", "configs-at", "acquire", "interactive", "command", "acquire-unknown", "config", "configs-leave",
              "rename", "configs-stalled", "configs-file-at", "configs-at-unknown", "reopen-late" >>

RECURSIVE RunOps(_, _, _, _, _, _, _, _, _, _)
\* returns the sequence of per-operation expectations, threading the device mode; left: "" | "leave" | "stalled" | "reopened" (what the previous operation was)
RunOps(m, p, au, def, conf, mode, j, left, tw, st) ==
  IF j > 1 + Below(4, m, 40) + (IF left # "" THEN 1 ELSE 0) THEN <<>>
  ELSE LET kind0 == Pick(OpKinds, m, 50 + j)
           pathc == PathI(p, mode, conf)
           \* a stalled transition is only generated for a first step that needs no password (the dialogue would hang in the middle otherwise)
           \* and only without twin levels: after a transition that was started the cache is rightly forgotten, and without it twins cannot be told apart
           stallable == ~tw /\ Len(pathc) >= 2 /\ (p[pathc[1]] = pathc[2] \/ au[pathc[2]] = "no")
           \* after a reopen: a configuration batch or - every other time - a plain command, which trusts the cached level outright
           kind == CASE left = "leave" -> "configs"
                     [] left = "reopened" -> (IF (m + j) % 2 = 0 THEN "configs" ELSE "command")
                     [] left = "stalled" -> "command"
                     [] kind0 = "configs-leave" /\ p[conf] = NONE -> "configs"
                     [] kind0 = "configs-stalled" /\ ~stallable -> "configs"
                     [] OTHER -> kind0
           nn   == Len(p)
           tgt  == CASE kind = "acquire" -> 1 + Below(nn, m, 60 + j)
                     [] kind \in {"configs-at", "configs-file-at"} -> 1 + Below(nn, m, 60 + j)
                     [] kind \in {"command", "interactive", "reopen-late"} -> def
                     [] kind \in {"configs", "config", "configs-leave", "configs-stalled"} -> conf
                     [] OTHER -> 0
           steps0 == IF tgt = 0 THEN <<>> ELSE Steps(p, au, PathI(p, mode, tgt))
           steps == IF kind = "configs-stalled" THEN << steps0[1] >> ELSE steps0
           pay   == CASE kind \in {"command", "interactive", "reopen-late"} -> << [kind |-> "line", level |-> tgt, mode |-> tgt] >>
                      [] kind \in {"configs", "configs-at", "config", "configs-file-at"} -> << [kind |-> "line", level |-> tgt, mode |-> tgt], [kind |-> "line", level |-> tgt, mode |-> tgt] >>
                      [] kind = "configs-leave" -> << [kind |-> "line", level |-> tgt, mode |-> tgt], [kind |-> "deesc", level |-> tgt, mode |-> tgt] >>
                      [] OTHER -> <<>>
           nmode == CASE tgt = 0 -> mode
                      [] kind = "configs-leave" -> p[tgt]
                      [] kind = "configs-stalled" -> pathc[2]
                      [] kind = "reopen-late" -> st
                      [] OTHER -> tgt
       IN << [op |-> kind, target |-> tgt, class |-> CASE kind = "rename" -> "ok" [] kind \in {"configs-stalled", "reopen-late"} -> "timeout" [] tgt = 0 -> "privilege" [] OTHER -> "ok",
              steps |-> steps \o pay, final |-> nmode] >>
          \o RunOps(m, p, au, def, conf, nmode, j + 1, CASE kind = "configs-leave" -> "leave" [] kind = "configs-stalled" -> "stalled" [] kind = "reopen-late" -> "reopened" [] OTHER -> "", tw, st)

Scn(m) ==
  LET nn   == 2 + Below(3, m, 1)                                  \* 2..4 levels
      p    == [i \in 1..nn |-> IF i = 1 THEN NONE ELSE 1 + Below(i - 1, m, 10 + i)]
      au   == [i \in 1..nn |-> IF i > 1 /\ Below(3, m, 20 + i) = 0 THEN (IF Below(3, m, 30 + i) = 0 THEN "grants" ELSE "asks") ELSE "no"]
      def  == 1 + Below(nn, m, 2)
      conf == 1 + Below(nn, m, 3)
      \* sibling levels that show the SAME prompt (configuration flavours): only the driver's cached level tells them apart,
      \* so the device never starts in one of them (a cold cache would make the first classification a coin toss)
      \* twins are leaves: a path THROUGH a level whose prompt is ambiguous is classified by map order once the cache is UNKNOWN
      leaf(i) == \A c \in 1..nn : p[c] # i
      sibs == {pr \in (1..nn) \X (1..nn) : pr[1] < pr[2] /\ pr[1] > 1 /\ p[pr[1]] = p[pr[2]] /\ leaf(pr[1]) /\ leaf(pr[2])}
      twin == IF sibs # {} /\ Below(2, m, 5) = 0 THEN CHOOSE pr \in sibs : TRUE ELSE <<0, 0>>
      st0  == 1 + Below(nn, m, 4)
      st   == IF st0 = twin[1] \/ st0 = twin[2] THEN 1 ELSE st0
  IN [id |-> m, n |-> nn, parent |-> p, auth |-> au, def |-> def, conf |-> conf, start |-> st, twin |-> twin,
      ops |-> RunOps(m, p, au, def, conf, st, 1, "", twin # <<0, 0>>, st)]

Init == n = 0
Next == n < Count /\ n' = n + 1 /\ PrintT("SCN " \o ToJson(Scn(n)))
Spec == Init /\ [][Next]_n
=============================================================================
