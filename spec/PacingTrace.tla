---------------------------- MODULE PacingTrace ----------------------------
(* C12 (direction V): is the client paced by the device?  The harness records, per operation,
     {"ev":"reset","t":id,"pre":n,"preneed":n,"eager":b,"exchanges":[{"echolen":n,"mustecho":b,"resplen":n,"need":n}, ...]}
     {"ev":"write","k":i,"part":"input"|"return","pos":p,"secret":b,"state":s}     one per client write, in device order
     {"ev":"done","class":c,"whole":b}
   where pos = number of bytes of the operation's stream the device had DELIVERED when the write arrived (taken under the
   device mutex), need = length of exchange i's response up to and including its expected pattern (or prompt), and the device
   produces every reaction only after a delay, so a client that types ahead is observably early.
   The enabling conditions are those of Stall.tla: input i only after the response of exchange i-1 has been delivered as far
   as `need`; the return of an exchange whose echo must be awaited (plain command, not eager) only after that echo has been
   delivered; a secret only while the device is asking for it.                                                          *)
EXTENDS Naturals, Sequences, TLC, Json
Trace == ndJsonDeserialize("trace.ndjson")
VARIABLES l, ex, pre, preneed, eager, last
vars == <<l, ex, pre, preneed, eager, last>>
Ev == Trace[l]

RECURSIVE Off(_)
Off(i) == IF i = 1 THEN pre ELSE Off(i - 1) + ex[i-1].echolen + ex[i-1].resplen
RespNeed(i) == Off(i) + ex[i].echolen + ex[i].need          \* stream offset at which exchange i's expected response is complete
InputEnabledAt(i) == IF i = 1 THEN preneed ELSE RespNeed(i - 1)
ReturnEnabledAt(i) == IF ex[i].mustecho /\ ~eager THEN Off(i) + ex[i].echolen ELSE InputEnabledAt(i)

Init == l = 1 /\ ex = <<>> /\ pre = 0 /\ preneed = 0 /\ eager = FALSE /\ last = 0
Reset == /\ l <= Len(Trace) /\ Ev.ev = "reset" /\ l' = l + 1
         /\ ex' = Ev.exchanges /\ pre' = Ev.pre /\ preneed' = Ev.preneed /\ eager' = Ev.eager /\ last' = 0
Write == /\ l <= Len(Trace) /\ Ev.ev = "write" /\ l' = l + 1
         /\ Ev.k \in 1..Len(ex)
         /\ Ev.k >= last                                             \* exchanges in order
         /\ IF Ev.part = "input" THEN Ev.pos >= InputEnabledAt(Ev.k) ELSE Ev.pos >= ReturnEnabledAt(Ev.k)
         /\ (Ev.secret => Ev.asking)                                 \* the secret goes only to its prompt
         /\ last' = Ev.k /\ UNCHANGED <<ex, pre, preneed, eager>>
Done == /\ l <= Len(Trace) /\ Ev.ev = "done" /\ l' = l + 1
        /\ (Ev.class = "ok" => Ev.whole)                             \* the result contains the whole dialogue
        /\ UNCHANGED <<ex, pre, preneed, eager, last>>
Next == Reset \/ Write \/ Done
Spec == Init /\ [][Next]_vars
ASSUME TLCSet(1, 0)
HW == TLCSet(1, IF TLCGet(1) < l THEN l ELSE TLCGet(1))
Accepted == \/ TLCGet(1) = Len(Trace) + 1
            \/ PrintT("SCN " \o ToJson([rejectedAt |-> TLCGet(1)])) = FALSE
=============================================================================
