---------------------------- MODULE MCNcFraming ----------------------------
(* Two enumerators over NcFraming:
   mode "raw":   every string over Sym up to MaxLen (breadth-first by appending one symbol)
   mode "edit":  every legal encoding (all partitions) of every payload over PaySym up to MaxPay, and every
                 single-symbol edit of it (delete / insert / replace at each position, truncation at each position)
   mode "hdr":   every two-chunk encoding of every payload of 2..MaxPay symbols with the size line of the SECOND chunk
                 header replaced by garbage (nothing, a letter, twelve digits, twelve letters), with and without the line
                 feed behind it; the second chunk as long as the first one included (a parser that keeps state from the
                 previous header must not be able to make sense of it)
   Each case is printed with its class and, for legal input, the decoded data.                                  *)
EXTENDS NcFraming
CONSTANTS Mode, MaxLen, MaxPay
VARIABLES s, kind
vars == <<s, kind>>
PaySym == {"x", "H", "1", "N", "_"}
Payloads == UNION {[1..n -> PaySym] : n \in 1..MaxPay}
Frames == UNION {{Encode(p, sz) : sz \in Parts(Len(p))} : p \in Payloads}
Edits(f) == {SubSeq(f, 1, i - 1) \o SubSeq(f, i + 1, Len(f)) : i \in 1..Len(f)}
            \cup {SubSeq(f, 1, i) \o <<c>> \o SubSeq(f, i + 1, Len(f)) : i \in 0..Len(f), c \in Sym}
            \cup {[f EXCEPT ![i] = c] : i \in 1..Len(f), c \in Sym}
            \cup {SubSeq(f, 1, i) : i \in 0..Len(f)}

Twelve(c) == [k \in 1..12 |-> c]
Garbage == { <<>>, <<"x">>, Twelve("1"), Twelve("x") }
HdrPayloads == UNION {[1..n -> PaySym] : n \in 2..MaxPay}
HdrFrames == UNION { UNION { { <<"N", "H">> \o Digits(k) \o <<"N">> \o SubSeq(p, 1, k) \o <<"N", "H">> \o g \o lf \o SubSeq(p, k + 1, Len(p)) \o <<"N", "H", "H", "N">>
                              : g \in Garbage, lf \in {<<>>, <<"N">>} } : k \in 1..(Len(p) - 1) } : p \in HdrPayloads }
\* ... and the same with chunks of 10..13 bytes (longer than the longest legal size line): a size line that is missing altogether
\* in front of a second chunk that is exactly as long as the first one, or one byte shorter / longer
LongFrames == { <<"N", "H">> \o Digits(n) \o <<"N">> \o [j \in 1..n |-> "x"] \o <<"N", "H">> \o g \o [j \in 1..m |-> "x"] \o <<"N", "H", "H", "N">>
                : n \in 10..13, m \in 10..13, g \in {<<>>, <<"1">>} }
Init == IF Mode = "raw" THEN s = <<>> /\ kind = "raw"
        ELSE IF Mode = "hdr" THEN s \in (HdrFrames \cup LongFrames) /\ kind = "hdr"
        ELSE s \in Frames /\ kind = "frame"
Next == IF Mode = "raw" THEN Len(s) < MaxLen /\ \E c \in Sym : s' = Append(s, c) /\ kind' = kind
        ELSE IF Mode = "hdr" THEN FALSE /\ UNCHANGED vars
        ELSE kind = "frame" /\ s' \in Edits(s) /\ kind' = "edit"
Spec == Init /\ [][Next]_vars

Out == [raw |-> StrOf(s), class |-> Class(s), why |-> Lenient(s).why,
        data |-> IF Strict(s).ok THEN StrOf(TrimWs(Strict(s).data)) ELSE "",
        lok |-> Lenient(s).ok, ldata |-> IF Lenient(s).ok THEN StrOf(TrimWs(Lenient(s).data)) ELSE ""]
Emit == PrintT("SCN " \o ToJson(Out))

\* model-level facts: every frame the encoder produces is legal and decodes to its payload; strict implies lenient with the same data
FramesLegal == (kind = "frame") => (Class(s) = "legal")
StrictImpliesLenient == Strict(s).ok => (Lenient(s).ok /\ Lenient(s).data = Strict(s).data)
=============================================================================
