---------------------------- MODULE MCNcFraming ----------------------------
(* Two enumerators over NcFraming:
   mode "raw":   every string over Sym up to MaxLen (breadth-first by appending one symbol)
   mode "edit":  every legal encoding (all partitions) of every payload over PaySym up to MaxPay, and every
                 single-symbol edit of it (delete / insert / replace at each position, truncation at each position)
   Each case is printed with its class and, for legal input, the decoded data.                                  *)
EXTENDS NcFraming
CONSTANTS Mode, MaxLen, MaxPay
VARIABLES s, kind
vars == <<s, kind>>
PaySym == {"x", "H", "1", "N", "_"}
Payloads == UNION {[1..n -> PaySym] : n \in 1..MaxPay}
Frames == UNION {{Encode(p, sz) : sz \in Parts(Len(p))} : p \in Payloads}
Edits(f) == {SubSeq(f, 1, i - 1) \o SubSeq(f, i + 1, Len(f)) : i \in 1..Len(f)}
            \cup {SubSeq(f, 1, i) \o <<c>> \o SubSeq(f, i + 1, Len(f)) : i \in 0..Len(f), c \in Sym}
            \cup {[f EXCEPT ![i] = c] : i \in 1..Len(f), c \in Sym}
            \cup {SubSeq(f, 1, i) : i \in 0..Len(f)}

Init == IF Mode = "raw" THEN s = <<>> /\ kind = "raw"
        ELSE s \in Frames /\ kind = "frame"
Next == IF Mode = "raw" THEN Len(s) < MaxLen /\ \E c \in Sym : s' = Append(s, c) /\ kind' = kind
        ELSE kind = "frame" /\ s' \in Edits(s) /\ kind' = "edit"
Spec == Init /\ [][Next]_vars

Out == [raw |-> StrOf(s), class |-> Class(s), why |-> Lenient(s).why,
        data |-> IF Strict(s).ok THEN StrOf(TrimWs(Strict(s).data)) ELSE "",
        lok |-> Lenient(s).ok, ldata |-> IF Lenient(s).ok THEN StrOf(TrimWs(Lenient(s).data)) ELSE ""]
Emit == PrintT("SCN " \o ToJson(Out))

\* model-level facts: every frame the encoder produces is legal and decodes to its payload; strict implies lenient with the same data
FramesLegal == (kind = "frame") => (Class(s) = "legal")
StrictImpliesLenient == Strict(s).ok => (Lenient(s).ok /\ Lenient(s).data = Strict(s).data)
=============================================================================
