SPECIFICATION Spec
CONSTANTS Seed = 1
 Count = 50
CHECK_DEADLOCK FALSE
