------------------------------- MODULE Reopen -------------------------------
(* One driver object through several sessions: Open, operations, Close, Open again - also after an Open that failed.
   Everything the object keeps between two sessions is a variable here, tagged with the number of the session that produced
   it:
       queue    the chunks the channel read loop has enqueued and nobody has consumed yet        (channel.Channel.Q)
       inflight the chunk a transport read that is still under way will come back with           (channel.read, c.t.Read)
       loops    the sessions whose read loop has not exited yet                                  (readerDone / readDone)
       caps     the sessions whose hello contributed to the capability list                      (netconf serverCapabilities)
       delim    the framing the next bytes are read with                                         (Channel.PromptPattern)
       nextId   the message-id counter, store: replies filed and never fetched                   (netconf messageID, messages)
       priv     the session in which the cached privilege level was learnt (0 = unknown)         (network CurrentPriv)
   and every place where the code resets (or does not reset) one of them is a constant, so that the choices the code makes
   (Code below) can be checked against the alternatives a maintainer might pick.  The requirement is the same for every
   listed property that speaks about a session: what an operation of session k observes was produced in session k
   (invariant Clean; `bad` names the first foreign thing observed).

   Conformance (direction G): for every alternative below TLC gives a counterexample, and each is a history one of the
   harnesses drives through the real drivers:
       QueueFlush # "open-after-wait"  late bytes during Close / during the wait in Open   C01 reopen histories, C10 reopen, C18 earlier session, C04 reopen-late
       CapsReset = FALSE               second peer offers another base version              C03 prev, C09 preliminary session
       DelimReset # "always"           Open after a session (or after a failed Open) in 1.1 C09 reopen / open again after a failed hello write
       IdReset /\ ~StoreReset          late reply of session 1 filed under a reused id      C05 recovery-reopen, C08 second session
       PrivReset = FALSE               cached level of the old session                      C07 reopen (network), C04 reopen-late
       OpenOnOpen = "as-is"            Open on a session still up (reconnect without Close) C06 open-again-without-close (fix 9754585)   *)
EXTENDS Naturals, Sequences, FiniteSets, TLC
CONSTANTS MaxSess, QueueFlush, CapsReset, DelimReset, IdReset, StoreReset, PrivReset, OpenOnOpen
VARIABLES sess, phase, loops, queue, inflight, caps, delim, ver, nextId, store, priv, chClosed, drvClosed, bad
vars == <<sess, phase, loops, queue, inflight, caps, delim, ver, nextId, store, priv, chClosed, drvClosed, bad>>

Ids == 1..(2 * MaxSess)
Flush(q) == <<>>

Init == /\ sess = 0 /\ phase = "new" /\ loops = {} /\ queue = <<>> /\ inflight = 0 /\ caps = {} /\ delim = "1.0"
        /\ ver = "1.0" /\ nextId = 1 /\ store = [i \in Ids |-> 0] /\ priv = 0 /\ chClosed = FALSE /\ drvClosed = FALSE /\ bad = ""

Note(b) == bad' = IF bad = "" THEN b ELSE bad

\* ---- Open.  O1: entered; O2: the previous read loop is gone (or was never there); O3: the hello has been read
\* Open on a session that is still up (a caller that reconnects after an error without closing first): OpenOnOpen =
\* "shutdown-first" - what the code does since fix 9754585 - closes that session as Close would and opens then; "as-is" (the code
\* before) goes straight on: no wait for the old read loop, nothing flushed, a second loop on the same queue and signals
OpenOverOpen == /\ phase = "open" /\ sess < MaxSess /\ OpenOnOpen = "shutdown-first"
                /\ phase' = "closing" /\ chClosed' = TRUE /\ drvClosed' = TRUE
                /\ UNCHANGED <<sess, loops, queue, inflight, caps, delim, ver, nextId, store, priv, bad>>
OpenStart == /\ (phase \in {"new", "closed", "failed"} \/ (phase = "open" /\ OpenOnOpen = "as-is")) /\ sess < MaxSess
             /\ sess' = sess + 1 /\ phase' = IF phase = "open" THEN "opening-nowait" ELSE "opening"
             \* two "closed" marks: the channel's (set by every close of the channel, also the one a failing Open does itself) and
             \* the driver's (set only when the user called Close); the resets hang on one or the other
             /\ queue' = IF QueueFlush = "open-before-wait" /\ chClosed THEN Flush(queue) ELSE queue
             /\ delim' = CASE DelimReset = "always" -> "1.0"
                           [] DelimReset = "after-close" /\ drvClosed -> "1.0"
                           [] OTHER -> delim
             /\ nextId' = IF IdReset THEN 1 ELSE nextId
             /\ store' = IF StoreReset THEN [i \in Ids |-> 0] ELSE store
             /\ priv' = IF PrivReset THEN 0 ELSE priv
             /\ drvClosed' = FALSE
             /\ UNCHANGED <<loops, inflight, caps, ver, chClosed, bad>>
\* the wait for the previous loop is bounded in the code (1 s); a read that takes longer than that is outside the model
OpenWaited == /\ ((phase = "opening" /\ loops = {}) \/ phase = "opening-nowait")
              /\ phase' = "hello"
              /\ queue' = IF QueueFlush = "open-after-wait" /\ chClosed THEN Flush(queue) ELSE queue
              /\ chClosed' = FALSE
              /\ UNCHANGED <<sess, loops, inflight, caps, delim, ver, nextId, store, priv, drvClosed, bad>>
\* the new session's loop starts, the server's hello (a chunk of this session) arrives and is read with the current delimiter;
\* v is what this session's peer offers
OpenHello(v) == /\ phase = "hello"
                /\ loops' = loops \cup {sess}
                /\ LET q == Append(queue, sess)                          \* the hello
                       c == (IF CapsReset THEN {} ELSE caps) \cup {sess}
                   IN /\ caps' = c
                      /\ ver' = v
                      /\ queue' = Tail(q)
                      /\ Note(CASE delim # "1.0" -> "hello read with the delimiter of an earlier session or attempt"
                                [] Head(q) # sess -> "bytes of an earlier session read as the hello"
                                [] c # {sess} -> "version selected from capabilities of an earlier session"
                                [] OTHER -> "")
                /\ delim' = v
                /\ phase' = "selected"
                /\ UNCHANGED <<sess, inflight, nextId, store, priv, chClosed, drvClosed>>
\* the client hello goes out - or its write fails: Open reports an error, closes the channel (the loop of this attempt ends),
\* and the user did NOT call Close
OpenDone == /\ phase = "selected" /\ phase' = "open"
            /\ UNCHANGED <<sess, loops, queue, inflight, caps, delim, ver, nextId, store, priv, chClosed, drvClosed, bad>>
OpenFails == /\ phase = "selected" /\ phase' = "failed" /\ loops' = loops \ {sess} /\ chClosed' = TRUE
             /\ UNCHANGED <<sess, queue, inflight, caps, delim, ver, nextId, store, priv, drvClosed, bad>>

\* ---- a session in use
\* the device says something; the loop enqueues it, or it is the content of a read that is still under way
Produce == /\ phase = "open" /\ sess \in loops /\ Len(queue) < 2
           /\ queue' = Append(queue, sess)
           /\ UNCHANGED <<sess, phase, loops, inflight, caps, delim, ver, nextId, store, priv, chClosed, drvClosed, bad>>
ReadUnderWay == /\ phase = "open" /\ sess \in loops /\ inflight = 0
                /\ inflight' = sess
                /\ UNCHANGED <<sess, phase, loops, queue, caps, delim, ver, nextId, store, priv, chClosed, drvClosed, bad>>
ReadReturns == /\ inflight # 0 /\ inflight \in loops /\ Len(queue) < 3
               /\ queue' = Append(queue, inflight) /\ inflight' = 0
               /\ UNCHANGED <<sess, phase, loops, caps, delim, ver, nextId, store, priv, chClosed, drvClosed, bad>>
\* an operation consumes the head of the queue
Consume == /\ phase = "open" /\ queue # <<>>
           /\ queue' = Tail(queue)
           /\ Note(IF Head(queue) # sess THEN "an operation consumed bytes of an earlier session" ELSE "")
           /\ UNCHANGED <<sess, phase, loops, inflight, caps, delim, ver, nextId, store, priv, chClosed, drvClosed>>
\* an rpc: takes an id; its reply is fetched, or the call times out and the reply is filed later and stays (late = TRUE)
Rpc(late) == /\ phase = "open" /\ nextId \in Ids
             /\ nextId' = nextId + 1
             /\ Note(IF store[nextId] \notin {0, sess} THEN "an rpc was handed the reply of an earlier session filed under its id" ELSE "")
             /\ store' = [store EXCEPT ![nextId] = IF late THEN sess ELSE 0]
             /\ UNCHANGED <<sess, phase, loops, queue, inflight, caps, delim, ver, priv, chClosed, drvClosed>>
\* the privilege-aware driver: learn the level from the prompt / trust the cache
Acquire == /\ phase = "open" /\ priv' = sess
           /\ UNCHANGED <<sess, phase, loops, queue, inflight, caps, delim, ver, nextId, store, chClosed, drvClosed, bad>>
UseCache == /\ phase = "open"
            /\ Note(IF priv \notin {0, sess} THEN "a command ran at the level cached in an earlier session" ELSE "")
            /\ UNCHANGED <<sess, phase, loops, queue, inflight, caps, delim, ver, nextId, store, priv, chClosed, drvClosed>>

\* ---- Close.  C1: the done signal; the loop leaves at its next look at it - after handing over what its read came back with
CloseStart == /\ phase = "open" /\ phase' = "closing" /\ chClosed' = TRUE /\ drvClosed' = TRUE
              /\ queue' = IF QueueFlush = "close-before-wait" THEN Flush(queue) ELSE queue
              /\ UNCHANGED <<sess, loops, inflight, caps, delim, ver, nextId, store, priv, bad>>
LoopExits(s) == /\ s \in loops /\ (s # sess \/ phase \in {"closing", "closed", "opening"}) /\ inflight # s
                /\ loops' = loops \ {s}
                /\ UNCHANGED <<sess, phase, queue, inflight, caps, delim, ver, nextId, store, priv, chClosed, drvClosed, bad>>
\* Close returns: after the loop has gone, or - forced - while its read is still under way
CloseDone == /\ phase = "closing" /\ phase' = "closed"
             /\ UNCHANGED <<sess, loops, queue, inflight, caps, delim, ver, nextId, store, priv, chClosed, drvClosed, bad>>

Next == \/ OpenStart \/ OpenOverOpen \/ OpenWaited \/ (\E v \in {"1.0", "1.1"} : OpenHello(v)) \/ OpenDone \/ OpenFails
        \/ Produce \/ ReadUnderWay \/ ReadReturns \/ Consume \/ (\E l \in BOOLEAN : Rpc(l)) \/ Acquire \/ UseCache
        \/ CloseStart \/ (\E s \in loops : LoopExits(s)) \/ CloseDone
Spec == Init /\ [][Next]_vars

TypeOK == /\ sess \in 0..MaxSess /\ phase \in {"new", "opening", "opening-nowait", "hello", "selected", "open", "closing", "closed", "failed"}
          /\ loops \subseteq 1..MaxSess /\ inflight \in 0..MaxSess /\ priv \in 0..MaxSess /\ delim \in {"1.0", "1.1"}
Clean == bad = ""
\* at most the loop of the previous session and that of the present one are alive, and never two on the same queue while
\* the new session is in use
OneLoop == phase \in {"hello", "selected", "open"} => loops \subseteq {sess}
=============================================================================
