SPECIFICATION Spec
CONSTANTS Seed = 1
 Count = 3
CHECK_DEADLOCK FALSE
