----------------------------- MODULE OpOptions -----------------------------
(* Per-operation options.  One list of options is handed to an operation and travels down the layers - network, generic,
   channel (or NETCONF and channel); every layer builds its own settings from the WHOLE list: an option that addresses the
   layer sets its field (the later of two wins), an option of another layer is skipped and the scan goes on.  Catalogue,
   defaults and the fold are the specification; the order law (a foreign option, wherever it stands, changes nothing) is
   checked on every list, and every list up to MaxLen is emitted with the settings each layer must end up with.  The
   harness builds the real option values, calls NewOperation of the four packages and compares field by field.
   Which listed property relies on which field:   Timeout - C05;  PrivilegeLevel - C04;  FailedWhenContains, StopOnFailed - C13;
   CompletePatterns, InterimPromptPatterns - C12;  StripPrompt, ExactMatchInput, Eager - C01;  the NETCONF fields - C03.   *)
EXTENDS Naturals, Sequences, FiniteSets, TLC, Json
CONSTANT MaxLen
VARIABLE n
Layers == << "channel", "generic", "network", "netconf" >>
O(nm, ls, f, v) == [name |-> nm, layers |-> ls, field |-> f, val |-> v]
Cat == << O("WithNoStripPrompt", {"channel"}, "StripPrompt", "false"),
          O("WithEager", {"channel"}, "Eager", "true"),
          O("WithExactMatchInput", {"channel"}, "ExactMatchInput", "true"),
          O("WithTimeoutOps:1", {"channel", "netconf"}, "Timeout", "1"),
          O("WithTimeoutOps:2", {"channel", "netconf"}, "Timeout", "2"),
          O("WithTimeoutOps:0", {"channel", "netconf"}, "Timeout", "0"),
          O("WithCompletePatterns:1", {"channel"}, "CompletePatterns", "1"),
          O("WithCompletePatterns:2", {"channel"}, "CompletePatterns", "2"),
          O("WithInterimPromptPattern:1", {"channel"}, "InterimPromptPatterns", "1"),
          O("WithInterimPromptPattern:2", {"channel"}, "InterimPromptPatterns", "2"),
          O("WithStopOnFailed", {"generic"}, "StopOnFailed", "true"),
          O("WithFailedWhenContains:1", {"generic"}, "FailedWhenContains", "1"),
          O("WithFailedWhenContains:2", {"generic"}, "FailedWhenContains", "2"),
          O("WithPrivilegeLevel:1", {"network"}, "PrivilegeLevel", "1"),
          O("WithPrivilegeLevel:2", {"network"}, "PrivilegeLevel", "2"),
          O("WithFilterType:xpath", {"netconf"}, "FilterType", "xpath"),
          O("WithDefaultType:1", {"netconf"}, "DefaultType", "1"),
          O("WithFilter:1", {"netconf"}, "Filter", "1"),
          O("WithFilter:2", {"netconf"}, "Filter", "2"),
          O("WithCommitConfirmed", {"netconf"}, "CommitConfirmed", "true"),
          O("WithCommitConfirmTimeout:1", {"netconf"}, "CommitConfirmTimeout", "1"),
          O("WithCommitConfirmedPersist:1", {"netconf"}, "CommitConfirmedPersist", "1"),
          O("WithCommitConfirmedPersistID:1", {"netconf"}, "CommitConfirmedPersistID", "1") >>
NC == Len(Cat)
Defaults == [channel |-> [StripPrompt |-> "true", Eager |-> "false", ExactMatchInput |-> "false", Timeout |-> "default", CompletePatterns |-> "", InterimPromptPatterns |-> ""],
             generic |-> [StopOnFailed |-> "false", FailedWhenContains |-> ""],
             network |-> [PrivilegeLevel |-> ""],
             netconf |-> [Filter |-> "", FilterType |-> "subtree", DefaultType |-> "", Timeout |-> "default", CommitConfirmed |-> "false", CommitConfirmTimeout |-> "0",
                          CommitConfirmedPersist |-> "", CommitConfirmedPersistID |-> ""]]
\* the fold of one layer over a list of catalogue indices
RECURSIVE Fold(_, _, _)
Fold(layer, st, l) == IF l = <<>> THEN st
                      ELSE LET o == Cat[Head(l)] IN
                           Fold(layer, IF layer \in o.layers THEN [st EXCEPT ![o.field] = o.val] ELSE st, Tail(l))
Effect(layer, l) == Fold(layer, Defaults[layer], l)
Expect(l) == [channel |-> Effect("channel", l), generic |-> Effect("generic", l), network |-> Effect("network", l), netconf |-> Effect("netconf", l)]

\* every list of length k over the catalogue, numbered: the digits of m in base NC
RECURSIVE Digits(_, _)
Digits(m, k) == IF k = 0 THEN <<>> ELSE << (m % NC) + 1 >> \o Digits(m \div NC, k - 1)
RECURSIVE Pow(_, _)
Pow(b, e) == IF e = 0 THEN 1 ELSE b * Pow(b, e - 1)
RECURSIVE Before(_)
Before(k) == IF k = 0 THEN 0 ELSE Before(k - 1) + Pow(NC, k - 1)          \* lists shorter than k
Total == Before(MaxLen + 1)
LenOf(m) == CHOOSE k \in 0..MaxLen : Before(k) <= m /\ m < Before(k + 1)
ListOf(m) == LET k == LenOf(m) IN Digits(m - Before(k), k)

\* order law: inserting an option that does not address the layer, anywhere, leaves the layer's settings alone
Insert(l, x, p) == SubSeq(l, 1, p) \o <<x>> \o SubSeq(l, p + 1, Len(l))
OrderLaw(l) == \A li \in 1..Len(Layers) : \A x \in 1..NC : Layers[li] \notin Cat[x].layers =>
                 \A p \in 0..Len(l) : Effect(Layers[li], Insert(l, x, p)) = Effect(Layers[li], l)

Init == n = 0
Next == /\ n < Total /\ n' = n + 1
        /\ LET l == ListOf(n) IN
           /\ Assert(Len(l) > 2 \/ OrderLaw(l), <<"order law fails for", l>>)
           /\ PrintT("SCN " \o ToJson([id |-> n, opts |-> [j \in 1..Len(l) |-> Cat[l[j]].name], expect |-> Expect(l)]))
Spec == Init /\ [][Next]_n
=============================================================================
