SPECIFICATION TSpec
CONSTANTS Feeds = {}
 OpReads = 2
 Protocol = "v2"
CONSTRAINT HW
INVARIANT TNoPanic
POSTCONDITION Accepted
CHECK_DEADLOCK FALSE
