------------------------------ MODULE PipeTrace ------------------------------
(* C16 (direction V): segment traces recorded from the real transports, validated against Pipe.tla's contract.
     {"ev":"reset","t":id,"transport":x,"mode":m}
     {"ev":"sent","dir":d,"total":n}                     the writer of direction d has offered n position-coded bytes
     {"ev":"recv","dir":d,"off":o,"len":n,"bad":b}       the other side obtained n bytes which, by their position code, start at offset o; b of them are not f(position)
     {"ev":"end","dir":d}                                the receiver of direction d stopped (everything must have arrived)
     {"ev":"kept","dir":d,"changed":n}                   the receiver kept every chunk as it was handed out; n of them no longer hold what they held then
     {"ev":"unblock","cause":c,"returned":b}             a Read that was blocked when the transport was closed / the peer went away (c = "close" | "peergone" |
                                                         "close-with-hung-peer"), the Read after that one ("read-after-peergone") and the Close that follows ("close-after-peergone")
     {"ev":"e2e","kind":"cli"|"netconf","same":b}        a whole driver session over the transport compared with the same session over the in-memory pipe
   A recv must continue exactly where the previous one ended (in order, exactly once), stay within what was sent, and carry
   no foreign byte; at "end" nothing may be missing; a blocked Read must have returned.                                  *)
EXTENDS Naturals, Sequences, TLC, Json
Trace == ndJsonDeserialize("trace.ndjson")
VARIABLES l, total, got
vars == <<l, total, got>>
Ev == Trace[l]
Dirs == {"c2s", "s2c"}
Init == l = 1 /\ total = [d \in Dirs |-> 0] /\ got = [d \in Dirs |-> 0]
Reset == /\ l <= Len(Trace) /\ Ev.ev = "reset" /\ l' = l + 1 /\ total' = [d \in Dirs |-> 0] /\ got' = [d \in Dirs |-> 0]
Sent == /\ l <= Len(Trace) /\ Ev.ev = "sent" /\ l' = l + 1 /\ total' = [total EXCEPT ![Ev.dir] = Ev.total] /\ UNCHANGED got
Recv == /\ l <= Len(Trace) /\ Ev.ev = "recv" /\ l' = l + 1
        /\ Ev.len >= 1 /\ Ev.off = got[Ev.dir] /\ Ev.off + Ev.len <= total[Ev.dir] /\ Ev.bad = 0
        /\ got' = [got EXCEPT ![Ev.dir] = @ + Ev.len] /\ UNCHANGED total
End == /\ l <= Len(Trace) /\ Ev.ev = "end" /\ l' = l + 1 /\ got[Ev.dir] = total[Ev.dir] /\ UNCHANGED <<total, got>>
\* what a read returned belongs to the caller: a later read does not write into it
Kept == /\ l <= Len(Trace) /\ Ev.ev = "kept" /\ l' = l + 1 /\ Ev.changed = 0 /\ UNCHANGED <<total, got>>
Unblock == /\ l <= Len(Trace) /\ Ev.ev = "unblock" /\ l' = l + 1 /\ Ev.returned /\ UNCHANGED <<total, got>>
\* an end-to-end CLI / NETCONF session over the transport must give the results the ideal pipe gives
E2E == /\ l <= Len(Trace) /\ Ev.ev = "e2e" /\ l' = l + 1 /\ Ev.same /\ UNCHANGED <<total, got>>
Next == Reset \/ Sent \/ Recv \/ End \/ Kept \/ Unblock \/ E2E
Spec == Init /\ [][Next]_vars
ASSUME TLCSet(1, 0)
HW == TLCSet(1, IF TLCGet(1) < l THEN l ELSE TLCGet(1))
Accepted == \/ TLCGet(1) = Len(Trace) + 1
            \/ PrintT("SCN " \o ToJson([rejectedAt |-> TLCGet(1)])) = FALSE
=============================================================================
