------------------------------- MODULE Telnet -------------------------------
(* C15: the option-negotiation phase of a telnet connection as a per-byte machine (transport/telnet.go).
   The server's opening is a sequence of items: a negotiation IAC verb option, a two-byte command IAC NOP / IAC GA,
   an escaped IAC IAC, or a plain data byte.  The client must answer every negotiation exactly once
   (DO SGA -> WILL SGA; any other DO and every DONT -> WONT; WILL -> DO; WONT -> DONT), must never hand a byte of a
   negotiation to the reader, and must deliver every plain data byte unmodified and in order (what it does with the
   two bytes of a two-byte command or with an escaped 0xFF is left open).  The module enumerates EVERY opening up to
   MaxItems items, runs the byte machine, and prints it with the predicted replies and data.                        *)
EXTENDS Naturals, Sequences, FiniteSets, TLC, Json
CONSTANTS MaxItems, Mode, Count, Seed
VARIABLES items, bytes, p, st, verb, replies, delivered, nneg
vars == <<items, bytes, p, st, verb, replies, delivered, nneg>>

IAC == 255  DONT == 254  DO == 253  WONT == 252  WILL == 251  SGA == 3  ECHO == 1  OTH == 24  NOP == 241  GA == 249
Verbs == {DO, DONT, WILL, WONT}
Opts  == {SGA, ECHO, OTH}
Items == {<<"neg", v, o>> : v \in Verbs, o \in Opts} \cup {<<"cmd", NOP, 0>>, <<"cmd", GA, 0>>, <<"esc", 0, 0>>, <<"data", 97, 0>>, <<"data", 98, 0>>, <<"text", 0, 0>>}
Banner == <<108, 111, 103, 105, 110, 58, 32>>      \* a run of plain text longer than a small read size
Enc(it) == CASE it[1] = "neg" -> <<IAC, it[2], it[3]>> [] it[1] = "cmd" -> <<IAC, it[2]>> [] it[1] = "esc" -> <<IAC, IAC>> [] it[1] = "text" -> Banner [] OTHER -> <<it[2]>>
RECURSIVE EncAll(_)
EncAll(s) == IF s = <<>> THEN <<>> ELSE Enc(s[1]) \o EncAll(Tail(s))
Reply(v, o) == CASE v = DO /\ o = SGA -> <<IAC, WILL, o>> [] v \in {DO, DONT} -> <<IAC, WONT, o>> [] v = WILL -> <<IAC, DO, o>> [] v = WONT -> <<IAC, DONT, o>>

\* deterministic pseudo-random sample of longer openings (Mode = "sample")
ItemSeq == << <<"neg", DO, SGA>>, <<"neg", DO, ECHO>>, <<"neg", WILL, ECHO>>, <<"neg", WILL, SGA>>, <<"neg", DONT, SGA>>, <<"neg", WONT, OTH>>, <<"neg", DONT, OTH>>,
              <<"cmd", NOP, 0>>, <<"cmd", GA, 0>>, <<"esc", 0, 0>>, <<"data", 97, 0>>, <<"data", 98, 0>>, <<"data", 97, 0>>, <<"neg", DO, OTH>>, <<"neg", WONT, SGA>>, <<"text", 0, 0>>, <<"text", 0, 0>> >>
Rnd(n, j) == ((((n + 1) * 7919) % 100003) * (((j + 3) * 131) % 10007) + (Seed % 1000) * 7907 + j * 101 + n) % 1000003
Sample(n) == [j \in 1..(MaxItems + 1 + (Rnd(n, 0) % 3)) |-> ItemSeq[(Rnd(n, j) % Len(ItemSeq)) + 1]]

Init == /\ items \in (IF Mode = "all" THEN UNION {[1..k -> Items] : k \in 1..MaxItems} ELSE {Sample(n) : n \in 1..Count})
        /\ bytes = EncAll(items) /\ p = 1 /\ st = "data" /\ verb = 0 /\ replies = <<>> /\ delivered = <<>> /\ nneg = 0
\* one byte of the opening
Byte == /\ p <= Len(bytes)
        /\ LET c == bytes[p] IN
           CASE st = "data" /\ c # IAC -> /\ delivered' = Append(delivered, c) /\ UNCHANGED <<st, verb, replies, nneg>>
             [] st = "data" /\ c = IAC -> /\ st' = "iac" /\ UNCHANGED <<verb, replies, delivered, nneg>>
             [] st = "iac" /\ c \in Verbs -> /\ st' = "verb" /\ verb' = c /\ UNCHANGED <<replies, delivered, nneg>>
             [] st = "iac" /\ c = IAC -> /\ st' = "data" /\ delivered' = Append(delivered, 255) /\ UNCHANGED <<verb, replies, nneg>>   \* escaped 0xFF (lenient)
             [] st = "iac" /\ c \notin Verbs /\ c # IAC -> /\ st' = "data" /\ UNCHANGED <<verb, replies, delivered, nneg>>          \* two-byte command: back to data
             [] st = "verb" -> /\ st' = "data" /\ replies' = Append(replies, Reply(verb, c)) /\ nneg' = nneg + 1 /\ UNCHANGED <<verb, delivered>>
        /\ p' = p + 1 /\ UNCHANGED <<items, bytes>>
Next == Byte
Spec == Init /\ [][Next]_vars

RECURSIVE PlainOf(_)
PlainOf(s) == IF s = <<>> THEN <<>> ELSE (CASE s[1][1] = "data" -> <<s[1][2]>> [] s[1][1] = "text" -> Banner [] OTHER -> <<>>) \o PlainOf(Tail(s))
PlainData == PlainOf(items)
Done == p = Len(bytes) + 1
\* every negotiation answered exactly once; plain data kept in order; nothing of a negotiation delivered
AnsweredOnce == Done => nneg = Cardinality({k \in 1..Len(items) : items[k][1] = "neg"}) /\ Len(replies) = nneg
DataKept == Done => SelectSeq(delivered, LAMBDA x : x # 255) = PlainData
BackToData == Done => st = "data"
RECURSIVE Flat(_)
Flat(s) == IF s = <<>> THEN <<>> ELSE s[1] \o Flat(Tail(s))
Emit == Done => PrintT("SCN " \o ToJson([bytes |-> bytes, replies |-> Flat(replies), data |-> PlainData, nitems |-> Len(items)]))
=============================================================================
