--------------------------- MODULE NcReadLoopScn ---------------------------
(* Behaviours of NcReadLoop.tla as scenarios for the real read loop: the history of events (send, reply i, read of n tokens
   given as the tokens themselves, timeout, fetch) of every terminal behaviour is printed with the outcome of every call;
   the harness (vh c08rl) makes a scripted transport deliver exactly those reads in exactly that order.
   Selection aid: two shadow copies of the loop state run the older loop versions "v0" and "v1" over the same reads (no
   idle iteration in between, which is what the harness' burst mode approximates); a behaviour in which a shadow fails to
   file the reply to a call that was answered at once is marked kills = {"v0"} / {"v1"} / both - those are the behaviours
   on which a regression of the echo handling shows, and the check replays all of them, the others by sampling.
   The shadows influence nothing: predictions come from the model of the current loop only.                          *)
EXTENDS NcReadLoop, Json
VARIABLES h, sb0, ss0, ok0, sb1, ss1, ok1
hv == <<h, sb0, ss0, ok0, sb1, ss1, ok1>>
Tok(t) == [k |-> t[1], i |-> t[2]]
Empty == [i \in 0..N |-> <<>>]
HInit == Init /\ h = <<>> /\ sb0 = <<>> /\ ss0 = Empty /\ ok0 = {} /\ sb1 = <<>> /\ ss1 = Empty /\ ok1 = {}
Keep == UNCHANGED <<sb0, ss0, ok0, sb1, ss1, ok1>>
Good(st) == {i \in 1..N : st[i] = M(i)}
Shadow(n) == LET r0 == IterateV("v0", sb0 \o SubSeq(stream, 1, n), ss0)
                 r1 == IterateV("v1", sb1 \o SubSeq(stream, 1, n), ss1)
             IN /\ sb0' = r0[1] /\ ss0' = r0[2] /\ ok0' = ok0 \cup Good(r0[2])
                /\ sb1' = r1[1] /\ ss1' = r1[2] /\ ok1' = ok1 \cup Good(r1[2])
HNext == \/ Send /\ h' = Append(h, [a |-> "send", i |-> next, toks |-> <<>>]) /\ Keep
         \/ EchoRest /\ h' = Append(h, [a |-> "echorest", i |-> call, toks |-> <<>>]) /\ Keep
         \/ Fetch /\ h' = Append(h, [a |-> "fetch", i |-> call, toks |-> <<>>]) /\ Keep
         \/ Timeout /\ h' = Append(h, [a |-> "timeout", i |-> call, toks |-> <<>>]) /\ Keep
         \/ \E i \in 1..N : Reply(i) /\ h' = Append(h, [a |-> "reply", i |-> i, toks |-> <<>>]) /\ Keep
         \/ Notify /\ h' = Append(h, [a |-> "notify", i |-> nn + 1, toks |-> <<>>]) /\ Keep
         \/ \E n \in 0..Len(stream) : ReadN(n) /\ Shadow(n)
                                      /\ h' = Append(h, [a |-> "read", i |-> n, toks |-> [k \in 1..n |-> Tok(stream[k])]])
HSpec == HInit /\ [][HNext]_<<vars, hv>>
Terminal == next = N + 1 /\ call = 0 /\ Settled /\ nn = Notifs /\ \A i \in 1..N : (pol[i] # "never" => i \in owed)
Outcome(i) == IF got[i] = TimedOut THEN "timeout" ELSE IF got[i] = M(i) THEN "ok" ELSE "other"
Now == {i \in 1..N : pol[i] = "now"}
Kills == (IF Now \subseteq ok0 THEN {} ELSE {"v0"}) \cup (IF Now \subseteq ok1 THEN {} ELSE {"v1"})
Emit == Terminal => PrintT("SCN " \o ToJson([n |-> N, echo |-> Echo, pol |-> pol, h |-> h, outcome |-> [i \in 1..N |-> Outcome(i)],
                                             kills |-> Kills, notifs |-> Notifs, pre |-> Pre, splitecho |-> SplitEcho,
                                             nstored |-> [k \in 1..Notifs |-> \E j \in 1..Len(store[0]) : store[0][j] = NM(k)],
                                             nfiled |-> Len(store[0])]))
=============================================================================
