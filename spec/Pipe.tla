-------------------------------- MODULE Pipe --------------------------------
(* C16: a transport as a pair of FIFO byte pipes.  Bytes are position-coded (byte i of a direction is f(i)), so a
   received segment is identified by (offset, length).  Write appends to the sender's stream, Carry moves a prefix of
   what is in flight to the receiver's side, Read hands the reader a non-empty segment; Close (local) and PeerGone
   (remote) must let a pending Read return.  Checked exhaustively for small streams: what a side has obtained is always a
   prefix of what the other side wrote (in order, exactly once), everything written is eventually obtained, and no Read
   stays blocked after Close / PeerGone.                                                                            *)
EXTENDS Naturals, Sequences, TLC
CONSTANTS NC2S, NS2C, MaxSeg
VARIABLES sent, flight, got, closed, peerGone, readPending, readReturned
vars == <<sent, flight, got, closed, peerGone, readPending, readReturned>>
Dirs == {"c2s", "s2c"}
Total(d) == IF d = "c2s" THEN NC2S ELSE NS2C
Init == /\ sent = [d \in Dirs |-> 0] /\ flight = [d \in Dirs |-> 0] /\ got = [d \in Dirs |-> 0]
        /\ closed = FALSE /\ peerGone = FALSE /\ readPending = FALSE /\ readReturned = FALSE
Write(d) == /\ ~closed /\ ~peerGone /\ sent[d] < Total(d)
            /\ \E n \in 1..MaxSeg : sent[d] + n <= Total(d) /\ sent' = [sent EXCEPT ![d] = @ + n] /\ flight' = [flight EXCEPT ![d] = @ + n]
            /\ UNCHANGED <<got, closed, peerGone, readPending, readReturned>>
Read(d) == /\ flight[d] > 0
           /\ \E n \in 1..MaxSeg : n <= flight[d] /\ got' = [got EXCEPT ![d] = @ + n] /\ flight' = [flight EXCEPT ![d] = @ - n]
           /\ UNCHANGED <<sent, closed, peerGone, readPending, readReturned>>
\* the client's reader blocks when nothing is in flight towards it
Block == /\ ~readPending /\ ~readReturned /\ flight["s2c"] = 0 /\ sent["s2c"] = Total("s2c") /\ got["s2c"] = Total("s2c")
         /\ readPending' = TRUE /\ UNCHANGED <<sent, flight, got, closed, peerGone, readReturned>>
Close == /\ ~closed /\ closed' = TRUE /\ UNCHANGED <<sent, flight, got, peerGone, readPending, readReturned>>
PeerGone == /\ ~peerGone /\ peerGone' = TRUE /\ UNCHANGED <<sent, flight, got, closed, readPending, readReturned>>
Unblock == /\ readPending /\ (closed \/ peerGone) /\ readPending' = FALSE /\ readReturned' = TRUE
           /\ UNCHANGED <<sent, flight, got, closed, peerGone>>
Next == (\E d \in Dirs : Write(d) \/ Read(d)) \/ Block \/ Close \/ PeerGone \/ Unblock
Spec == Init /\ [][Next]_vars /\ WF_vars(Unblock) /\ \A d \in Dirs : WF_vars(Read(d))

Prefix == \A d \in Dirs : got[d] + flight[d] = sent[d] /\ got[d] <= sent[d]
NoStuckRead == [](readPending /\ (closed \/ peerGone) => <>readReturned)
AllArrives == \A d \in Dirs : [](sent[d] = Total(d) => <>(got[d] = Total(d)))
=============================================================================
