------------------------------- MODULE Queue -------------------------------
(* util.Queue (util/queue.go) statement by statement: slice + depth + 1-slot depth mailbox +
   RWMutex, one producer goroutine (Channel.read: Enqueue) and one consumer goroutine (the
   operation in flight: Dequeue / DequeueAll / Requeue / GetDepth).  Labels are the atomic
   steps of the Go code; the mailbox is a buffered channel of capacity 1 (take blocks when
   empty, put never blocks here because every put follows a take by the same goroutine).    *)
EXTENDS Naturals, Sequences, TLC
CONSTANTS NProd, NCons, EMPTY

(* --algorithm Queue {
  variables
    items = <<>>,        \* q.queue : chunk ids
    depth = 0,           \* q.depth
    box = 0,             \* q.depthChan : EMPTY while a goroutine holds the token
    lock = "free",       \* RWMutex (writer side)
    produced = <<>>,     \* history: ids enqueued (at their linearisation point)
    consumed = <<>>,     \* history: ids handed to the consumer, in order
    requeued = 0, panic = "", lastDepth = 0, depthOK = TRUE;

  fair process (Prod = "prod")
    variable n = 0;
  {
   P0: while (n < NProd) {
   Plock: await lock = "free"; lock := "prod";                       \* q.lock.Lock()
   Papp:  items := Append(items, n + 1); produced := Append(produced, n + 1); depth := depth + 1;
   Ptake: await box # EMPTY; box := EMPTY;                           \* <-q.depthChan
   Pput:  box := depth;                                              \* q.depthChan <- q.depth
   Punl:  lock := "free"; n := n + 1;                                \* deferred Unlock
        }
  }

  fair process (Cons = "cons")
    variable k = 0, d = 0, op = "", last = 0;
  {
   C0: while (k < NCons) {
         with (o \in {"deq", "all", "req", "depth"}) { op := o };
   Cget:  if (op \in {"deq", "all"}) {
            await box # EMPTY; d := box; box := EMPTY;               \* getDepth(): take ...
   Cback:   box := d;                                                \* ... and put back
            if (d = 0) { goto Cend };                                \* empty: return nil, no lock taken
          } else if (op = "depth") {
            await lock # "prod"; d := depth;                         \* RLock; read; RUnlock
            depthOK := depthOK /\ (d = Len(items));
            goto Cend;
          } else if (last = 0) { goto Cend };                        \* nothing to put back
   Clock: await lock = "free"; lock := "cons";
   Cdo:   if (op = "deq") {
            if (items = <<>>) { panic := "index out of range" } else {
              last := Head(items); consumed := Append(consumed, Head(items)); items := Tail(items); depth := depth - 1 }
          } else if (op = "all") {
            consumed := consumed \o items; last := 0; items := <<>>; depth := 0
          } else {  \* requeue the chunk obtained last: back to the front, to be re-read first
            items := <<last>> \o items; consumed := SubSeq(consumed, 1, Len(consumed) - 1); depth := depth + 1; last := 0
          };
   Ctake: await box # EMPTY; box := EMPTY;
   Cput:  box := depth;
   Cunl:  lock := "free";
   Cend:  k := k + 1;
       }
  }
}
*)
\* BEGIN TRANSLATION
VARIABLES pc, items, depth, box, lock, produced, consumed, requeued, panic, 
          lastDepth, depthOK, n, k, d, op, last

vars == << pc, items, depth, box, lock, produced, consumed, requeued, panic, 
           lastDepth, depthOK, n, k, d, op, last >>

ProcSet == {"prod"} \cup {"cons"}

Init == (* Global variables *)
        /\ items = <<>>
        /\ depth = 0
        /\ box = 0
        /\ lock = "free"
        /\ produced = <<>>
        /\ consumed = <<>>
        /\ requeued = 0
        /\ panic = ""
        /\ lastDepth = 0
        /\ depthOK = TRUE
        (* Process Prod *)
        /\ n = 0
        (* Process Cons *)
        /\ k = 0
        /\ d = 0
        /\ op = ""
        /\ last = 0
        /\ pc = [self \in ProcSet |-> CASE self = "prod" -> "P0"
                                        [] self = "cons" -> "C0"]

P0 == /\ pc["prod"] = "P0"
      /\ IF n < NProd
            THEN /\ pc' = [pc EXCEPT !["prod"] = "Plock"]
            ELSE /\ pc' = [pc EXCEPT !["prod"] = "Done"]
      /\ UNCHANGED << items, depth, box, lock, produced, consumed, requeued, 
                      panic, lastDepth, depthOK, n, k, d, op, last >>

Plock == /\ pc["prod"] = "Plock"
         /\ lock = "free"
         /\ lock' = "prod"
         /\ pc' = [pc EXCEPT !["prod"] = "Papp"]
         /\ UNCHANGED << items, depth, box, produced, consumed, requeued, 
                         panic, lastDepth, depthOK, n, k, d, op, last >>

Papp == /\ pc["prod"] = "Papp"
        /\ items' = Append(items, n + 1)
        /\ produced' = Append(produced, n + 1)
        /\ depth' = depth + 1
        /\ pc' = [pc EXCEPT !["prod"] = "Ptake"]
        /\ UNCHANGED << box, lock, consumed, requeued, panic, lastDepth, 
                        depthOK, n, k, d, op, last >>

Ptake == /\ pc["prod"] = "Ptake"
         /\ box # EMPTY
         /\ box' = EMPTY
         /\ pc' = [pc EXCEPT !["prod"] = "Pput"]
         /\ UNCHANGED << items, depth, lock, produced, consumed, requeued, 
                         panic, lastDepth, depthOK, n, k, d, op, last >>

Pput == /\ pc["prod"] = "Pput"
        /\ box' = depth
        /\ pc' = [pc EXCEPT !["prod"] = "Punl"]
        /\ UNCHANGED << items, depth, lock, produced, consumed, requeued, 
                        panic, lastDepth, depthOK, n, k, d, op, last >>

Punl == /\ pc["prod"] = "Punl"
        /\ lock' = "free"
        /\ n' = n + 1
        /\ pc' = [pc EXCEPT !["prod"] = "P0"]
        /\ UNCHANGED << items, depth, box, produced, consumed, requeued, panic, 
                        lastDepth, depthOK, k, d, op, last >>

Prod == P0 \/ Plock \/ Papp \/ Ptake \/ Pput \/ Punl

C0 == /\ pc["cons"] = "C0"
      /\ IF k < NCons
            THEN /\ \E o \in {"deq", "all", "req", "depth"}:
                      op' = o
                 /\ pc' = [pc EXCEPT !["cons"] = "Cget"]
            ELSE /\ pc' = [pc EXCEPT !["cons"] = "Done"]
                 /\ op' = op
      /\ UNCHANGED << items, depth, box, lock, produced, consumed, requeued, 
                      panic, lastDepth, depthOK, n, k, d, last >>

Cget == /\ pc["cons"] = "Cget"
        /\ IF op \in {"deq", "all"}
              THEN /\ box # EMPTY
                   /\ d' = box
                   /\ box' = EMPTY
                   /\ pc' = [pc EXCEPT !["cons"] = "Cback"]
                   /\ UNCHANGED depthOK
              ELSE /\ IF op = "depth"
                         THEN /\ lock # "prod"
                              /\ d' = depth
                              /\ depthOK' = (depthOK /\ (d' = Len(items)))
                              /\ pc' = [pc EXCEPT !["cons"] = "Cend"]
                         ELSE /\ IF last = 0
                                    THEN /\ pc' = [pc EXCEPT !["cons"] = "Cend"]
                                    ELSE /\ pc' = [pc EXCEPT !["cons"] = "Clock"]
                              /\ UNCHANGED << depthOK, d >>
                   /\ box' = box
        /\ UNCHANGED << items, depth, lock, produced, consumed, requeued, 
                        panic, lastDepth, n, k, op, last >>

Cback == /\ pc["cons"] = "Cback"
         /\ box' = d
         /\ IF d = 0
               THEN /\ pc' = [pc EXCEPT !["cons"] = "Cend"]
               ELSE /\ pc' = [pc EXCEPT !["cons"] = "Clock"]
         /\ UNCHANGED << items, depth, lock, produced, consumed, requeued, 
                         panic, lastDepth, depthOK, n, k, d, op, last >>

Clock == /\ pc["cons"] = "Clock"
         /\ lock = "free"
         /\ lock' = "cons"
         /\ pc' = [pc EXCEPT !["cons"] = "Cdo"]
         /\ UNCHANGED << items, depth, box, produced, consumed, requeued, 
                         panic, lastDepth, depthOK, n, k, d, op, last >>

Cdo == /\ pc["cons"] = "Cdo"
       /\ IF op = "deq"
             THEN /\ IF items = <<>>
                        THEN /\ panic' = "index out of range"
                             /\ UNCHANGED << items, depth, consumed, last >>
                        ELSE /\ last' = Head(items)
                             /\ consumed' = Append(consumed, Head(items))
                             /\ items' = Tail(items)
                             /\ depth' = depth - 1
                             /\ panic' = panic
             ELSE /\ IF op = "all"
                        THEN /\ consumed' = consumed \o items
                             /\ last' = 0
                             /\ items' = <<>>
                             /\ depth' = 0
                        ELSE /\ items' = <<last>> \o items
                             /\ consumed' = SubSeq(consumed, 1, Len(consumed) - 1)
                             /\ depth' = depth + 1
                             /\ last' = 0
                  /\ panic' = panic
       /\ pc' = [pc EXCEPT !["cons"] = "Ctake"]
       /\ UNCHANGED << box, lock, produced, requeued, lastDepth, depthOK, n, k, 
                       d, op >>

Ctake == /\ pc["cons"] = "Ctake"
         /\ box # EMPTY
         /\ box' = EMPTY
         /\ pc' = [pc EXCEPT !["cons"] = "Cput"]
         /\ UNCHANGED << items, depth, lock, produced, consumed, requeued, 
                         panic, lastDepth, depthOK, n, k, d, op, last >>

Cput == /\ pc["cons"] = "Cput"
        /\ box' = depth
        /\ pc' = [pc EXCEPT !["cons"] = "Cunl"]
        /\ UNCHANGED << items, depth, lock, produced, consumed, requeued, 
                        panic, lastDepth, depthOK, n, k, d, op, last >>

Cunl == /\ pc["cons"] = "Cunl"
        /\ lock' = "free"
        /\ pc' = [pc EXCEPT !["cons"] = "Cend"]
        /\ UNCHANGED << items, depth, box, produced, consumed, requeued, panic, 
                        lastDepth, depthOK, n, k, d, op, last >>

Cend == /\ pc["cons"] = "Cend"
        /\ k' = k + 1
        /\ pc' = [pc EXCEPT !["cons"] = "C0"]
        /\ UNCHANGED << items, depth, box, lock, produced, consumed, requeued, 
                        panic, lastDepth, depthOK, n, d, op, last >>

Cons == C0 \/ Cget \/ Cback \/ Clock \/ Cdo \/ Ctake \/ Cput \/ Cunl
           \/ Cend

(* Allow infinite stuttering to prevent deadlock on termination. *)
Terminating == /\ \A self \in ProcSet: pc[self] = "Done"
               /\ UNCHANGED vars

Next == Prod \/ Cons
           \/ Terminating

Spec == /\ Init /\ [][Next]_vars
        /\ WF_vars(Prod)
        /\ WF_vars(Cons)

Termination == <>(\A self \in ProcSet: pc[self] = "Done")

\* END TRANSLATION

NoPanic    == panic = ""
\* what the consumer obtained, followed by what is still held, is exactly what was produced, in order
Lossless   == consumed \o items = produced
DepthIsLen == /\ (lock = "free" => depth = Len(items))
              /\ ((lock = "free" /\ box # EMPTY) => box = depth)
              /\ depthOK
\* every goroutine that holds the token puts it back: the token is never lost
TokenConsistent == (box = EMPTY) => (pc["prod"] = "Pput" \/ pc["cons"] \in {"Cback", "Cput"})
Finishes == <>(\A p \in {"prod", "cons"} : pc[p] = "Done")
=============================================================================
