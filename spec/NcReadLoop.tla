----------------------------- MODULE NcReadLoop -----------------------------
(* The NETCONF read loop (driver/netconf/read.go) at the granularity of transport reads, together with the callers that
   poll the message store (driver/netconf/rpc.go) and a server that answers each request now, late (after the caller's
   timeout) or never.  NcSession.tla states the same contract over whole messages; this module refines it to the byte
   level far enough to explain the two defects found there.  The byte stream is abstracted to tokens:
            <<"rpch", i>>  (SplitEcho only) the head of the echo of request i: it carries message-id i like a message head does
            <<"rpc", i>>   the echo of the client's own request i up to and including "</rpc>" (SplitEcho: the rest of it)
            <<"eend", i>>  the framing delimiter that ends the echo of request i
            <<"pre", i>>   what precedes the head of server message i on the wire (1.1: the chunk header line, 1.0: the XML declaration)
            <<"hdr", i>>   the head of server message i (carries message-id i)
            <<"body", i>>  further bytes of message i (<<"sbody", i>>: they mention a subscription-id)
            <<"dl", i>>    a DATA line of message i that consists of "##" only (legal chunk data under NETCONF 1.1)
            <<"end", i>>   the framing delimiter that ends message i
   One loop iteration appends what the transport returned (possibly nothing) to the buffer b, then: if b contains
   something that looks like the delimiter (an "end"/"eend" token - or, because the test is the pattern ^##$, a "dl"
   token) then, while b contains "</rpc>", everything up to and including the first delimiter-looking token is dropped
   (Loop = "v2": while; "v1": once, then the remainder is examined in the same iteration; "v0": once, the remainder is
   examined only in the next iteration); a buffer with a delimiter and no "</rpc>" is filed whole under the first
   message-id in it.
   Reads are arbitrary cuts of the stream except that one read never carries tokens of two server messages (the echo of
   a request may share a read with a server message) - the quantifier of property C08.  PromptEcho = TRUE additionally
   assumes that the echo of a request reaches the client before that call's timer expires.
     Loop = "v2", DataLines = FALSE          : OwnReply, NoLoss, Done hold (the code after fix a9a0008)
     Loop = "v1", PromptEcho = TRUE          : they hold;  PromptEcho = FALSE: NoLoss violated (the defect a9a0008
                                               repaired: two echoes and a late reply in one read - found by TLC here
                                               first, then reproduced on the code through policy "lateecho" of NcSession)
     Loop = "v0"                             : NoLoss violated (the defect 4a07be4 repaired: echo + late reply in one read)
     DataLines = TRUE                        : OwnReply violated (known finding C02:driver:1.1:data-line-starts-with-##) *)
EXTENDS Naturals, Sequences, FiniteSets, TLC
CONSTANTS Loop, DataLines, Echo, N, Policies, PromptEcho, Notifs, Pre, SplitEcho, IdFrom, Errs, ErrLoop
VARIABLES stream, b, store, next, call, pol, got, owed, asked, nn, pendEcho, errSt
vars == <<stream, b, store, next, call, pol, got, owed, asked, nn, pendEcho, errSt>>

\* Pre: the wire form of a message is modelled with its framing prefix as a token of its own (finer cuts, larger state space)
\* the body of every other reply mentions a subscription ("sbody": the reply to establish-subscription, subscription state read
\* with get): such a message is a reply AND looks like a message of the subscription, it is filed as both
Body(i) == IF i % 2 = 1 THEN <<"sbody", i>> ELSE <<"body", i>>
M(i) == (IF Pre THEN << <<"pre", i>> >> ELSE <<>>) \o
        (IF DataLines THEN << <<"hdr", i>>, <<"dl", i>>, Body(i), <<"end", i>> >>
                      ELSE << <<"hdr", i>>, Body(i), <<"end", i>> >>)
E(i) == IF SplitEcho THEN << <<"rpch", i>>, <<"rpc", i>>, <<"eend", i>> >> ELSE << <<"rpc", i>>, <<"eend", i>> >>
\* notification k of the (single) subscription: no message-id, a subscription-id in its head; numbered 20 + k as a server message
NM(k) == << <<"nhdr", 20 + k>>, <<"nbody", 20 + k>>, <<"nend", 20 + k>> >>
None == <<>>
TimedOut == << <<"timeout", 0>> >>
Errored == << <<"error", 0>> >>

Looks(tok) == tok[1] \in {"end", "eend", "dl", "nend"}
HasDelim(s) == \E k \in 1..Len(s) : Looks(s[k])
HasRpc(s) == \E k \in 1..Len(s) : s[k][1] = "rpc"
FirstDelim(s) == CHOOSE k \in 1..Len(s) : Looks(s[k]) /\ \A j \in 1..(k-1) : ~Looks(s[j])
\* IdFrom = "any": the first message-id attribute in the buffer, wherever it stands (the code before fix 2e0bedd); "reply": the
\* message-id of the first rpc-reply start tag
IdTok(t) == t[1] = "hdr" \/ (IdFrom = "any" /\ t[1] = "rpch")
FirstId(s) == IF \E k \in 1..Len(s) : IdTok(s[k])
              THEN s[CHOOSE k \in 1..Len(s) : IdTok(s[k]) /\ \A j \in 1..(k-1) : ~IdTok(s[j])][2] ELSE 0
HasNotif(s) == \E k \in 1..Len(s) : s[k][1] \in {"nhdr", "sbody"}
ServerMsgs(s) == {s[k][2] : k \in {j \in 1..Len(s) : s[j][1] \in {"pre", "hdr", "body", "sbody", "dl", "end", "nhdr", "nbody", "nend"}}}
OkRead(s) == Cardinality(ServerMsgs(s)) <= 1

\* the filing branch; returns <<buffer, store>>.  store[i], i > 0: the message filed under message-id i; store[0]: the
\* sequence of buffers filed as messages of the subscription (a buffer can be both)
Examine(buf, st) ==
  IF HasDelim(buf) /\ ~HasRpc(buf)
  THEN LET st1 == IF FirstId(buf) # 0 THEN [st EXCEPT ![FirstId(buf)] = buf] ELSE st
           st2 == IF HasNotif(buf) THEN [st1 EXCEPT ![0] = Append(@, buf)] ELSE st1
       IN << <<>>, st2 >>
  ELSE <<buf, st>>
\* one whole iteration on buffer nb
RECURSIVE DropAll(_)
DropAll(s) == IF HasDelim(s) /\ HasRpc(s) THEN DropAll(SubSeq(s, FirstDelim(s) + 1, Len(s))) ELSE s
IterateV(ver, nb, st) ==
  IF HasDelim(nb) /\ HasRpc(nb)
  THEN LET rest == SubSeq(nb, FirstDelim(nb) + 1, Len(nb)) IN
       CASE ver = "v0" -> <<rest, st>>
         [] ver = "v1" -> Examine(rest, st)
         [] ver = "v2" -> Examine(DropAll(rest), st)
  ELSE Examine(nb, st)
Iterate(nb, st) == IterateV(Loop, nb, st)

Init == /\ stream = <<>> /\ b = <<>> /\ store = [i \in 0..N |-> <<>>] /\ next = 1 /\ call = 0 /\ nn = 0 /\ pendEcho = <<>>
        /\ pol \in [1..N -> Policies] /\ got = [i \in 1..N |-> None] /\ owed = {} /\ asked = {} /\ errSt = "none"

\* the caller: build request i, write it, then poll the store for i
Send == /\ call = 0 /\ next <= N /\ pendEcho = <<>>
        /\ call' = next /\ next' = next + 1 /\ asked' = asked \cup {next}
        /\ IF Echo /\ SplitEcho THEN stream' = stream \o << E(next)[1] >> /\ pendEcho' = Tail(E(next))
           ELSE stream' = (IF Echo THEN stream \o E(next) ELSE stream) /\ pendEcho' = <<>>
        /\ UNCHANGED <<b, store, pol, got, owed, nn, errSt>>
EchoRest == /\ pendEcho # <<>> /\ stream' = stream \o pendEcho /\ pendEcho' = <<>>
            /\ UNCHANGED <<b, store, next, call, pol, got, owed, asked, nn, errSt>>
Fetch == /\ call # 0 /\ store[call] # <<>>
         /\ got' = [got EXCEPT ![call] = store[call]] /\ store' = [store EXCEPT ![call] = <<>>] /\ call' = 0
         /\ UNCHANGED <<stream, b, next, pol, owed, asked, nn, pendEcho, errSt>>
\* PromptEcho: the echo of a request reaches the client before that call's timer expires (what a pty does unless the
\* network stalls for longer than the operation timeout)
EchoRead(i) == \A k \in 1..Len(stream) : stream[k] \notin {<<"rpc", i>>, <<"eend", i>>}
Timeout == /\ call # 0 /\ pol[call] # "now" /\ store[call] = <<>> /\ (PromptEcho => EchoRead(call))
           \* time-scale separation: a timeout is hundreds of loop iterations long, so the loop has examined all it has
           /\ Iterate(b, store) = <<b, store>>
           /\ got' = [got EXCEPT ![call] = TimedOut] /\ call' = 0
           /\ UNCHANGED <<stream, b, store, next, pol, owed, asked, nn, pendEcho, errSt>>
\* the server: reply to a request it has received, now or only after the caller gave up
Reply(i) == /\ i \in asked /\ i \notin owed /\ pol[i] # "never" /\ (i = call => pendEcho = <<>>)
            /\ (pol[i] = "late" => got[i] = TimedOut)
            /\ owed' = owed \cup {i} /\ stream' = stream \o M(i)
            /\ UNCHANGED <<b, store, next, call, pol, got, asked, nn, pendEcho, errSt>>
\* the server: an asynchronous notification of the subscription, at any time
Notify == /\ nn < Notifs /\ nn' = nn + 1 /\ stream' = stream \o NM(nn + 1)
          /\ UNCHANGED <<b, store, next, call, pol, got, owed, asked, pendEcho, errSt>>
\* the read loop
\* a transient transport error (one read fails, the connection stays usable): the channel hands it to the NETCONF loop, which
\* parks until a call takes it - the call that is waiting, or the next one once it has written its request - and then goes on
\* reading (ErrLoop = "continue", the code) or leaves (ErrLoop = "exit": every later reply is lost)
ReadErr == /\ Errs > 0 /\ errSt = "none" /\ errSt' = "pending"
           /\ UNCHANGED <<stream, b, store, next, call, pol, got, owed, asked, nn, pendEcho>>
TakeErr == /\ errSt = "pending" /\ call # 0 /\ pendEcho = <<>>
           /\ got' = [got EXCEPT ![call] = Errored] /\ call' = 0 /\ errSt' = "spent"
           /\ UNCHANGED <<stream, b, store, next, pol, owed, asked, nn, pendEcho>>
LoopReads == errSt # "pending" /\ (ErrLoop = "exit" => errSt # "spent")
ReadN(n) == /\ n \in 0..Len(stream) /\ LoopReads
            /\ OkRead(SubSeq(stream, 1, n))
            /\ LET r == Iterate(b \o SubSeq(stream, 1, n), store) IN
               /\ b' = r[1] /\ store' = r[2] /\ (n = 0 => r # <<b, store>>)
            /\ stream' = SubSeq(stream, n + 1, Len(stream))
            /\ UNCHANGED <<next, call, pol, got, owed, asked, nn, pendEcho, errSt>>
Read == \E n \in 0..Len(stream) : ReadN(n)
Next == Send \/ EchoRest \/ Fetch \/ Timeout \/ Read \/ Notify \/ ReadErr \/ TakeErr \/ \E i \in 1..N : Reply(i)
Spec == Init /\ [][Next]_vars /\ WF_vars(Next)

TypeOK == call \in 0..N /\ next \in 1..(N+1)
\* a call never returns anything but the whole reply that carries its own id
OwnReply == \A i \in 1..N : got[i] \notin {None, TimedOut, Errored} => got[i] = M(i)
\* a reply the server sent in full to a caller that is still waiting is delivered: no state in which everything has
\* been read and examined, the reply was sent, and the caller can neither fetch nor (it was promised a reply) time out
Settled == stream = <<>> /\ pendEcho = <<>> /\ Iterate(b, store) = <<b, store>>
NoLoss == (Settled /\ call # 0 /\ call \in owed) => store[call] # <<>>
Done == <>(next = N + 1 /\ call = 0)
\* the store never holds anything but whole server messages under their own ids
StoreExact == \A i \in 1..N : store[i] # <<>> => store[i] = M(i)
\* not part of any listed property: every notification sent in full is filed, whole, in order.  Holds without echo;
\* with an echoing transport a notification that is still (partly) in the buffer when the echo of the next request
\* arrives is dropped with that echo (TLC counterexample; the harness checks that the code agrees with the model about
\* which notifications survive)
IsNotif(m) == \E k \in 1..Len(m) : m[k][1] = "nhdr"
NotifExact == Settled => SelectSeq(store[0], IsNotif) = [k \in 1..nn |-> NM(k)]
=============================================================================
