SPECIFICATION Spec
CONSTRAINT HW
POSTCONDITION Accepted
CHECK_DEADLOCK FALSE
