SPECIFICATION Spec
CONSTANT N = 4
INVARIANTS IdsIncrease OwnReply NoLoss ServerSawAll
PROPERTY Done
CONSTRAINT Emit
CHECK_DEADLOCK FALSE
