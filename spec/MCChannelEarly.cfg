SPECIFICATION Spec
CONSTANTS
 CmdSet <- MCCmdsEarly
 OutSet <- MCOutsTiny
 NCmd = 2
 Prompt <- MCPrompt
 Banner <- MCBanner
 ReadSizes = {40}
 Depths = {12}
 Strips = {TRUE}
 Exacts = {TRUE, FALSE}
 Wraps = {FALSE}
 QMax = 3
INVARIANTS Aligned DeviceGot
VIEW View
CHECK_DEADLOCK FALSE
