---------------------------- MODULE MCLifecycle ----------------------------
EXTENDS Lifecycle
MCFeeds == { <<>>, <<"data">>, <<"err">>, <<"eof">>, <<"data","err">>, <<"data","eof">> }
MCFeedsSmall == { <<>>, <<"err">> }          \* enough for the vacuity guards (older protocols must be rejected)
=============================================================================
