--------------------------- MODULE NcRequestTrace ---------------------------
(* C03 (direction V): validates what the NETCONF client actually transmitted.  The harness records, per session,
     {"ev":"reset","version":v,"selfclose":b,"header":b}
     {"ev":"req","n":k,"op":name,"wire":<byte classes of the message as the server received it, framing included>,
      "msgid":id,"decl":b,"inputeq":b,"framedeq":b,"wf":b,"tree":s,"expect":s,"selfclosed":b,"streamerrors":n}
   and this module checks every request against the framing specification (NcFraming!Strict for 1.1: sizes are exact
   byte counts, one end-of-chunks marker, nothing else; 1.0: payload followed by the delimiter and no delimiter inside),
   the message-id sequence 101, 102, ..., the round trip (decoded wire = Input, wire = FramedInput), well-formedness,
   the expected element tree, and that the two options change only what they name.
   Byte classes: H '#', N LF, digits, _ space, D the six bytes of ']]>]]>' collapsed to one symbol, x anything else.   *)
EXTENDS NcFraming
Trace == ndJsonDeserialize("trace.ndjson")
VARIABLES l, version, selfclose, header, count, ok
vars == <<l, version, selfclose, header, count, ok>>
Ev == Trace[l]

Init == l = 1 /\ version = "" /\ selfclose = FALSE /\ header = TRUE /\ count = 0 /\ ok = TRUE

Reset == /\ l <= Len(Trace) /\ Ev.ev = "reset" /\ l' = l + 1
         /\ version' = Ev.version /\ selfclose' = Ev.selfclose /\ header' = Ev.header /\ count' = 0 /\ ok' = TRUE

Legal10(w) == /\ Len(w) >= 2 /\ w[Len(w)] = "D"
              /\ \A i \in 1..(Len(w) - 1) : w[i] # "D"
Legal11(w) == Strict(w).ok

Req == /\ l <= Len(Trace) /\ Ev.ev = "req" /\ l' = l + 1
       /\ count' = count + 1
       /\ Ev.n = count + 1
       /\ Ev.msgid = 100 + Ev.n + Ev.skipped            \* unique, increasing from the first request (skipped: ids used up by requests whose write failed)
       /\ Ev.streamerrors = 0                           \* separators between consecutive messages
       /\ IF version = "1.1" THEN Legal11(Ev.wire) ELSE Legal10(Ev.wire)
       /\ Ev.inputeq /\ Ev.framedeq                     \* strict decode of the wire = Input; wire = FramedInput
       /\ Ev.wf                                         \* well-formed XML
       /\ Ev.tree = Ev.expect                           \* rpc[xmlns, message-id] / operation / caller's content, unaltered
       /\ Ev.decl = header                              \* the declaration is there exactly when not excluded
       /\ (~selfclose => ~Ev.selfclosed)                \* no element is collapsed unless asked for
       /\ UNCHANGED <<version, selfclose, header, ok>>
Next == Reset \/ Req
Spec == Init /\ [][Next]_vars
ASSUME TLCSet(1, 0)
HW == TLCSet(1, IF TLCGet(1) < l THEN l ELSE TLCGet(1))
Accepted == \/ TLCGet(1) = Len(Trace) + 1
            \/ PrintT("SCN " \o ToJson([rejectedAt |-> TLCGet(1)])) = FALSE
=============================================================================
