SPECIFICATION Spec
CONSTANTS NC2S = 4
 NS2C = 4
 MaxSeg = 3
INVARIANT Prefix
PROPERTIES NoStuckRead AllArrives
CHECK_DEADLOCK FALSE
