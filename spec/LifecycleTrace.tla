--------------------------- MODULE LifecycleTrace ---------------------------
(* C07, direction V: the yield-point sequences recorded from the real goroutines (gate of `vh c07`, one global log
   written under the gate's mutex at the ENTRY of every hook) are validated against Lifecycle.tla (Protocol "v2" =
   the code after the shutdown fixes).

   Grain of atomicity.  A hook fires when a goroutine ARRIVES at a label; the statement of that label takes effect
   somewhere between this event and the goroutine's next event.  So a model step of process p (the statement of
   pc[p]) is a silent step of the trace specification; it puts the hook events the code emits on arrival at the
   next label into pend[p], and p cannot take another step before the log has delivered exactly these events.
   The effects of two goroutines may therefore be ordered either way between their events - as in the code.

   Warm-up.  The gate is installed just before Close is called: the read loops and an operation in flight are
   somewhere in their cycle and have run unobserved.  Until its first event - and at most until the closer's first
   event, from which on every arrival is in the log - a process steps without emitting; its first event is
   accepted when its pc is at that label.  (The closer is observed from its first statement.)

   Projection done by the harness side (checks/c07.py, `lifecycle_blocks`):
     - goroutine = label family (R_ reader, C_/NC_ closer, N_ NETCONF reader, O_ operation in flight);
     - O_ events are kept only for a CLI operation in flight (in a NETCONF session they are the inside of N_read,
       which the model takes as one statement; elsewhere nobody polls once the gate is installed);
     - R_sent / N_sent are dropped: the code's hook sits BEHIND the hand-over, where the model is already on its
       way to R_top / N_top (the next event of the same goroutine);
     - header of a block = the model's matrix cell (Netconf, HasOp, Closes, CloseUnblocks, Feed).
   A rejection is reported as `model_drift` (DESIGN.md V3): the model and the code have come apart at a yield
   point; it is never a verdict about the property.  *)
EXTENDS Lifecycle, Json

Trace == ndJsonDeserialize("trace.ndjson")
VARIABLES l, pend, warm, arr
tvars == <<l, pend, warm, arr>>
Ev == Trace[l]

Observed == {"reader", "closer", "op", "ncreader"}

\* events the code emits when process p, having executed the statement of label `from`, arrives at label `to`
\* (primed variables: the values that statement has just produced)
Emit(p, from, to) ==
  CASE p = "reader" ->
         CASE to = "R_top"  -> <<"R_top">>
           [] to = "R_read" -> <<"R_read">>
           [] to = "R_chk"  -> IF rerr' # "data" THEN <<"R_chk">> ELSE <<>>
           [] to = "R_eof"  -> <<"R_eof">>
           [] to = "R_send" -> <<"R_send">>
           [] to = "R_exit" -> <<"R_exit">>
           [] OTHER -> <<>>
    [] p = "closer" ->
         CASE to = "C_once"  -> IF Netconf THEN <<"NC_done">> ELSE <<>>
           [] to = "C_done"  -> IF Netconf THEN <<"NC_wait", "C_done">> ELSE <<"C_done">>
           [] to = "C1_wait" -> <<"C_wait">>
           [] to = "C_tclose" -> IF force' THEN <<"C_tforce">> ELSE <<"C_tclose">>
           [] to = "C_ret" /\ from = "C_once" -> IF Netconf THEN <<"NC_wait">> ELSE <<>>
           [] OTHER -> <<>>
    [] p = "op" ->
         CASE to = "O_errs" -> <<"O_errs">>
           [] to = "O_flag" -> IF ~opEnd' THEN <<"O_flag">> ELSE <<>>
           [] OTHER -> <<>>
    [] p = "ncreader" ->
         CASE to = "N_top"  -> <<"N_top">>
           [] to = "N_read" -> <<"N_read">>
           [] to = "N_send" -> IF gotErr' THEN <<"N_send">> ELSE <<>>
           [] OTHER -> <<>>
    [] OTHER -> <<>>

\* label at which a process sits when the hook of that name fires (used for the first event of a warm process)
HookPc(h) == h

ProcAction(p) == CASE p = "reader" -> Reader [] p = "closer" -> Closer [] p = "helper" -> Helper
                   [] p = "op" -> Op [] p = "ncop" -> NcOp [] p = "ncreader" -> NcReader

Step(p) == /\ pend[p] = <<>>
           /\ ProcAction(p)
           /\ pend' = [pend EXCEPT ![p] = IF warm[p] THEN <<>> ELSE Emit(p, pc[p], pc'[p])]
           /\ UNCHANGED <<l, warm, arr>>

Consume == /\ l <= Len(Trace) /\ Ev.ev = "y"
           /\ LET p == Ev.p IN
              /\ IF warm[p]
                   THEN /\ pend[p] = <<>> /\ pc[p] = HookPc(Ev.l) /\ UNCHANGED pend
                   ELSE /\ pend[p] # <<>> /\ Head(pend[p]) = Ev.l
                        /\ pend' = [pend EXCEPT ![p] = Tail(pend[p])]
              \* the gate is in place before Close is called: from the closer's first event on every arrival is in the log
              /\ warm' = IF p = "closer" THEN [q \in ProcSet |-> FALSE] ELSE [warm EXCEPT ![p] = FALSE]
           /\ l' = l + 1
           /\ UNCHANGED <<vars, arr>>

\* a new block: the matrix cell of its header, everything else as in Lifecycle!Init
Start(h) ==
  /\ Feed' = h.feed /\ peer' = h.feed
  /\ Closes' = h.closes /\ CloseUnblocks' = h.closebeh /\ Netconf' = h.netconf /\ HasOp' = h.hasop
  /\ errsClosed' = FALSE /\ errsWait' = FALSE /\ doneWait' = FALSE /\ doneClosed' = FALSE
  /\ helperLive' = FALSE /\ helperDone' = FALSE /\ exited' = FALSE /\ tClosed' = FALSE /\ tCloses' = 0
  /\ implLock' = "free" /\ ncErrsWait' = FALSE /\ ncDoneWait' = FALSE /\ ncDoneClosed' = FALSE
  /\ ncExited' = FALSE /\ closedOnce' = FALSE /\ panic' = "" /\ closeRet' = 0
  /\ rerr' = "" /\ n' = 0 /\ force' = FALSE /\ sawExited' = FALSE /\ opEnd' = FALSE /\ gotErr' = FALSE
  /\ pc' = [self \in ProcSet |-> CASE self = "reader" -> "R_top" [] self = "closer" -> "C_loop"
                                   [] self = "helper" -> "H_idle" [] self = "op" -> "O_loop"
                                   [] self = "ncop" -> "NO_wait" [] self = "ncreader" -> "N_top"]
  /\ pend' = [p \in ProcSet |-> <<>>]
  /\ warm' = [p \in ProcSet |-> p # "closer"]
  /\ arr' = h.arrive

Reset == /\ l <= Len(Trace) /\ Ev.ev = "reset" /\ l' = l + 1 /\ Start(Ev)

TInit == /\ l = 1 /\ pend = [p \in ProcSet |-> <<>>] /\ warm = [p \in ProcSet |-> FALSE] /\ arr = <<>>
         /\ Feed = <<>> /\ peer = <<>> /\ Closes = 1 /\ CloseUnblocks = "eof" /\ Netconf = FALSE /\ HasOp = FALSE
         /\ errsClosed = FALSE /\ errsWait = FALSE /\ doneWait = FALSE /\ doneClosed = FALSE
         /\ helperLive = FALSE /\ helperDone = FALSE /\ exited = FALSE /\ tClosed = FALSE /\ tCloses = 0
         /\ implLock = "free" /\ ncErrsWait = FALSE /\ ncDoneWait = FALSE /\ ncDoneClosed = FALSE
         /\ ncExited = FALSE /\ closedOnce = FALSE /\ panic = "" /\ closeRet = 0
         /\ rerr = "" /\ n = 0 /\ force = FALSE /\ sawExited = FALSE /\ opEnd = FALSE /\ gotErr = FALSE
         /\ pc = [self \in ProcSet |-> "Done"]

\* the environment: what the peer sends while the connection is being closed (header field `arrive`) becomes readable
\* one item at a time; only the moment at which the read loop is waiting for it matters (nobody else looks at `peer`)
Arrive == /\ arr # <<>> /\ peer = <<>> /\ pc["reader"] = "R_read"
          /\ peer' = <<Head(arr)>> /\ arr' = Tail(arr)
          /\ UNCHANGED <<pc, Feed, Closes, CloseUnblocks, Netconf, HasOp, errsClosed, errsWait, doneWait, doneClosed,
                         helperLive, helperDone, exited, tClosed, tCloses, implLock, ncErrsWait, ncDoneWait, ncDoneClosed,
                         ncExited, closedOnce, panic, closeRet, rerr, n, force, sawExited, opEnd, gotErr, l, pend, warm>>

\* between two blocks nothing moves: a block starts only from the Reset that reads its header
Live == l > 1

TNext == \/ Reset
         \/ (Live /\ Consume)
         \/ (Live /\ \E p \in ProcSet : Step(p))
         \/ (Live /\ Arrive)
TSpec == TInit /\ [][TNext]_<<vars, tvars>>

ASSUME TLCSet(1, 0)
\* high-water mark of the log position; the search (depth first) stops as soon as one path has consumed the whole log
HW == /\ TLCSet(1, IF TLCGet(1) < l THEN l ELSE TLCGet(1))
      /\ (l = Len(Trace) + 1 => TLCSet("exit", TRUE))
Accepted == \/ TLCGet(1) = Len(Trace) + 1
            \/ PrintT("SCN " \o ToJson([rejectedAt |-> TLCGet(1)])) = FALSE
\* what the model promises must hold along every accepted prefix as well
TNoPanic == panic = ""
=============================================================================
