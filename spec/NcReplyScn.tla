----------------------------- MODULE NcReplyScn -----------------------------
(* Scenario generator for C02 at driver level: a server reply (payload symbols, chunk partition,
   version, flags) with the observables the property predicts: Result = payload without the XML
   declaration and surrounding white space; Failed <=> the payload carries an rpc-error.
   Payload symbols (concretised by the harness):
     P  <rpc-reply ... message-id="ID">     S  </rpc-reply>          D  the XML declaration
     x  an ASCII byte   U  a multi-byte rune   H  '#'   1  digit   N  line feed   _  space
     L  "<rpc-"   l  "</rpc-"   r  "error"   G  ">"   A  ` a="b"` (attribute)   n  "nc:" prefix piece   Q  a processing instruction
   so an rpc-error element is  L r G ... l r G  and a partition can cut the marker between its pieces. *)
EXTENDS Naturals, Sequences, ScnRand, TLC, Json
CONSTANT Count
VARIABLE n

IsSub(a, b) == \E k \in 0..(Len(b) - Len(a)) : SubSeq(b, k+1, k+Len(a)) = a
RECURSIVE StrOf(_)
StrOf(s) == IF s = <<>> THEN "" ELSE s[1] \o StrOf(Tail(s))

Bodies == << <<"x","x","x">>, <<"x","U","x">>, <<"U","U">>, <<"H","1","N","x">>, <<"N","H","H","x","N">>, <<"x","N","H","1","N","x">>,
             <<"L","r","G","x","l","r","G">>, <<"x","L","r","A","G","U","l","r","G","x">>, <<"L","r","G","l","r","G">>,
             <<"x","_","N","_">>, <<"N","N","x">>, <<"1","1","H","H","N","N","H">>, <<"x","l","r","G">>,
             <<"x","x","x","x","x","x","x","x","x","x","x","x">>, <<"H">>, <<"x","N","H","H","x","x","N","x">>, <<"x","N","H","H","N","x">>,
             <<"Q","x","x">>, <<"x","Q","x","Q">>, <<"Q">> >>       \* processing instructions: a second "?>" on the line of the declaration
HasErr(b) == IsSub(<<"L","r","G">>, b) \/ IsSub(<<"l","r","G">>, b)

RECURSIVE Cut(_, _, _)
\* pseudo-random partition of length len into parts of 1..mx
Cut(len, m, j) == IF len = 0 THEN <<>>
                  ELSE LET k == 1 + Below(IF len < 4 THEN len ELSE 4, m, j) IN <<k>> \o Cut(len - k, m, j + 1)

Scn(m) ==
  LET body == Pick(Bodies, m, 1)
      decl == Below(4, m, 2) = 0
      lead == Below(5, m, 3) = 0                      \* white space in front of the payload
      pay  == (IF decl THEN <<"D">> ELSE <<>>) \o (IF lead /\ ~decl THEN <<"N">> ELSE <<>>) \o <<"P">> \o body \o <<"S">> \o (IF Coin(m, 4) THEN <<"N">> ELSE <<>>)
      ver  == IF Below(3, m, 5) = 0 THEN "1.0" ELSE "1.1"
      whole == Below(4, m, 6) = 0
      sizes == IF whole THEN <<Len(pay)>> ELSE Cut(Len(pay), m, 20)
  IN [id |-> m, version |-> ver, payload |-> StrOf(pay), sizes |-> sizes, splitU |-> Coin(m, 7),
      echo |-> Below(3, m, 8) = 0,
      splitD |-> decl /\ Coin(m, 9),                 \* the first chunk ends inside the XML declaration
      \* predicted observables
      result |-> StrOf(<<"P">> \o body \o <<"S">>), failed |-> HasErr(body)]

Init == n = 0
Next == n < Count /\ n' = n + 1 /\ PrintT("SCN " \o ToJson(Scn(n)))
Spec == Init /\ [][Next]_n
=============================================================================
