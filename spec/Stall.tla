-------------------------------- MODULE Stall --------------------------------
(* C05 / C06: a blocking operation as a list of exchanges paced by the device, under a stall or a
   loss of the connection after byte k of the operation's stream.

   An exchange is [inlen, echolen, echo, resplen, need]: the client writes an input of inlen bytes, the device echoes
   echolen bytes; if echo the client waits until that echo has been consumed; it writes a return; it waits until `need`
   of the `resplen` response bytes have been consumed (the rest is trailing white space of a prompt).
   The device is causal: the echo is produced by the input write, the response by the return.
   Only lengths matter here; contents are the business of Channel.tla / Privilege.tla / Interactive.tla.

   Environment actions: Deliver (any cut), Stall (nothing beyond byte k), Lose (EOF / error / write
   error at byte k), Expire (the operation's deadline: enabled only when the operation can make no
   further progress, i.e. the timeout is long compared with delivery), CatchUp.
   The operations come from ops.json, exported by the harness from the fault-free run of each real
   operation against its scripted device (device-side lengths).                                   *)
EXTENDS Naturals, Sequences, TLC, Json, FiniteSets
CONSTANTS Fault,           \* "stall" | "eof" | "err" | "werr"
          Mode             \* "mc": every interleaving on length-compressed operations; "emit": predictions for the real lengths
RawOps == JsonDeserialize("ops.json")      \* sequence of [name, pre, preneed, exchanges: <<[inlen, echolen, echo, resplen, need]>>]
\* compression for the exhaustive run: outcomes depend only on the order of k and the thresholds, not on absolute lengths
Sh(n) == IF Mode = "emit" \/ n <= 4 THEN n ELSE 4 + (n % 3)
ShNeed(len, need) == IF Sh(len) >= (len - need) THEN Sh(len) - (len - need) ELSE 0
Ops == [i \in 1..Len(RawOps) |->
          [name |-> RawOps[i].name, pre |-> Sh(RawOps[i].pre), preneed |-> ShNeed(RawOps[i].pre, RawOps[i].preneed),
           exchanges |-> [j \in 1..Len(RawOps[i].exchanges) |->
              LET e == RawOps[i].exchanges[j] IN
              [inlen |-> Sh(e.inlen), echolen |-> Sh(e.echolen), echo |-> e.echo, resplen |-> Sh(e.resplen), need |-> ShNeed(e.resplen, e.need)]]]]

VARIABLES o, k,             \* scenario: operation index, fault position
          x, phase,         \* current exchange, client phase: write | echo | ret | resp | done
          prod, dlv, cons,  \* bytes produced by the device / delivered to the client / consumed by the operation
          writes,           \* number of client writes the device has received
          outcome           \* "" | ok | timeout | error
vars == <<o, k, x, phase, prod, dlv, cons, writes, outcome>>

Ex(op) == Ops[op].exchanges
RECURSIVE Off(_, _)
\* stream offset at which exchange i of operation op starts
Off(op, i) == IF i = 1 THEN Ops[op].pre ELSE Off(op, i - 1) + Ex(op)[i-1].echolen + Ex(op)[i-1].resplen
\* the client waits for the echo only when echo is set; an unawaited echo still occupies the stream
RECURSIVE RespTarget(_, _)
EchoTarget(op, i) == IF Ex(op)[i].echo THEN Off(op, i) + Ex(op)[i].echolen ELSE (IF i = 1 THEN Ops[op].preneed ELSE RespTarget(op, i - 1))
RespTarget(op, i) == Off(op, i) + Ex(op)[i].echolen + Ex(op)[i].need
Total(op) == Off(op, Len(Ex(op)) + 1)
Need(op)  == RespTarget(op, Len(Ex(op)))

LastRet(op) == EchoTarget(op, Len(Ex(op)))

Init == /\ o \in 1..Len(Ops) /\ k \in 0..Total(o)
        /\ x = 1 /\ phase = "pre" /\ prod = Ops[o].pre /\ dlv = 0 /\ cons = 0 /\ writes = 0 /\ outcome = ""

Lost == Fault # "stall" /\ dlv >= k            \* the connection is gone once k bytes were delivered

WriteInput == /\ outcome = "" /\ phase = "write"
              /\ IF Fault = "werr" /\ Lost
                 THEN outcome' = "error" /\ UNCHANGED <<prod, writes, phase>>
                 ELSE /\ prod' = prod + Ex(o)[x].echolen
                      /\ writes' = writes + 1 /\ phase' = "echo" /\ outcome' = outcome
              /\ UNCHANGED <<o, k, x, dlv, cons>>
PreDone == /\ outcome = "" /\ phase = "pre" /\ cons >= Ops[o].preneed
           /\ phase' = "write" /\ UNCHANGED <<o, k, x, prod, dlv, cons, writes, outcome>>
EchoDone == /\ outcome = "" /\ phase = "echo" /\ cons >= EchoTarget(o, x)
            /\ phase' = "ret" /\ UNCHANGED <<o, k, x, prod, dlv, cons, writes, outcome>>
WriteReturn == /\ outcome = "" /\ phase = "ret"
               /\ IF Fault = "werr" /\ Lost
                  THEN outcome' = "error" /\ UNCHANGED <<prod, writes, phase>>
                  ELSE /\ prod' = prod + Ex(o)[x].resplen /\ writes' = writes + 1 /\ phase' = "resp" /\ outcome' = outcome
               /\ UNCHANGED <<o, k, x, dlv, cons>>
RespDone == /\ outcome = "" /\ phase = "resp" /\ cons >= RespTarget(o, x)
            /\ IF x = Len(Ex(o)) THEN phase' = "done" /\ outcome' = "ok" /\ x' = x
                                 ELSE phase' = "write" /\ x' = x + 1 /\ outcome' = outcome
            /\ UNCHANGED <<o, k, prod, dlv, cons, writes>>
\* transport read + enqueue: any cut, never beyond the fault position
Deliver == /\ dlv < prod /\ dlv < k
           /\ \E n \in (dlv + 1)..(IF prod < k THEN prod ELSE k) : dlv' = n
           /\ UNCHANGED <<o, k, x, phase, prod, cons, writes, outcome>>
\* the operation dequeues (any number of the delivered bytes)
Consume == /\ outcome = "" /\ cons < dlv /\ phase \in {"pre", "echo", "resp"}
           /\ \E n \in (cons + 1)..dlv : cons' = n
           /\ UNCHANGED <<o, k, x, phase, prod, dlv, writes, outcome>>
Waiting == phase \in {"pre", "echo", "resp"} /\ cons = dlv
           /\ ~(phase = "pre" /\ cons >= Ops[o].preneed)
           /\ ~(phase = "echo" /\ cons >= EchoTarget(o, x)) /\ ~(phase = "resp" /\ cons >= RespTarget(o, x))
\* read side of a lost connection: the operation is handed the error (or sees the reader gone) when it has drained the queue
ReadFails == /\ outcome = "" /\ Fault \in {"eof", "err"} /\ Lost /\ Waiting /\ dlv = (IF prod < k THEN prod ELSE k)
             /\ outcome' = "error" /\ UNCHANGED <<o, k, x, phase, prod, dlv, cons, writes>>
\* the deadline fires only when nothing else can happen
Expire == /\ outcome = "" /\ Waiting /\ dlv = (IF prod < k THEN prod ELSE k)
          /\ ~(Fault \in {"eof", "err"} /\ Lost)
          /\ outcome' = "timeout" /\ UNCHANGED <<o, k, x, phase, prod, dlv, cons, writes>>
\* ---- the contract: the outcome is a function of (operation, k) alone, whatever the cuts
Pred(op, kk) ==
  CASE Fault = "stall" -> IF kk >= Need(op) THEN "ok" ELSE "timeout"
    [] Fault \in {"eof", "err"} -> IF kk >= Need(op) THEN "ok" ELSE "error"
    [] OTHER -> "any"
\* emit mode: no interleavings, just the contract's prediction for every real (operation, k)
Predict == /\ Mode = "emit" /\ outcome = ""
           /\ outcome' \in (IF Pred(o, k) = "any" THEN (IF k >= Need(o) THEN {"ok"} ELSE {"error", "timeout"}) ELSE {Pred(o, k)})
           /\ UNCHANGED <<o, k, x, phase, prod, dlv, cons, writes>>
Run == PreDone \/ WriteInput \/ EchoDone \/ WriteReturn \/ RespDone \/ Deliver \/ Consume \/ ReadFails \/ Expire
Next == IF Mode = "emit" THEN Predict ELSE Run
Spec == Init /\ [][Next]_vars /\ WF_vars(Next)

OutcomeIsFunction == (outcome # "" /\ Fault # "werr") => outcome = Pred(o, k)
NoPartialSuccess  == (Mode = "mc" /\ outcome = "ok") => cons >= Need(o) /\ x = Len(Ex(o))
NeverStuck == <>(outcome # "")
\* no read after the verdict: a timed-out operation consumes nothing more (Consume is disabled once outcome is set)
Emit == (Mode = "emit" /\ outcome # "") => PrintT("SCN " \o ToJson([op |-> Ops[o].name, k |-> k, fault |-> Fault, class |-> outcome,
                                                    need |-> Need(o), total |-> Total(o), writes |-> writes, lastret |-> LastRet(o)]))
View == <<o, k, x, phase, prod, dlv, cons, writes, outcome>>
=============================================================================
