SPECIFICATION Spec
CONSTRAINT Emit
CHECK_DEADLOCK FALSE
