------------------------------ MODULE ScnRand ------------------------------
(* Deterministic pseudo-random picks for scenario generators: scenario number n and slot j give an
   index; no TLC randomness is involved, so a run is reproducible from (Seed, n) alone.       *)
EXTENDS Naturals, Sequences
CONSTANT Seed
Rnd(n, j) == ((((n + 1) * 7919) % 100003) * (((j + 3) * 131) % 10007) + (Seed % 1000) * 7907 + j * 101 + n) % 1000003
Pick(seq, n, j) == seq[(Rnd(n, j) % Len(seq)) + 1]
Below(k, n, j) == Rnd(n, j) % k          \* 0..k-1
Coin(n, j) == Rnd(n, j) % 2 = 0
=============================================================================
