----------------------------- MODULE ChannelScn -----------------------------
(* Scenario generator for C01 (direction G): scenario n is a scripted CLI session (commands,
   device outputs, prompt, read size, search depth, strip / exact / echo style) drawn from the
   templates below, filtered by the property's preconditions (Text!PreOut, PreCmd), and printed
   with the results the contract predicts (Text!Expect) and the lines the device must receive.
   Channel.tla shows, for every cut of the stream, that the algorithm meets exactly this
   contract; the harness then demands the same of the real drivers under many segmentations. *)
EXTENDS Text, ScnRand, TLC, Json
CONSTANT Count
VARIABLE n

Cmds == << <<"a","b","_","c">>, <<"d">>, <<"a","1","_","b","2","_","c">>,
           <<"f","_","e","_","d","_","c","_","b","_","a">>, <<"c","2">>, <<"b","!","a">>, <<"e","e","e">> >>
\* line templates: trailing blanks, CR inside, escapes, '#' / '>' that do not make a prompt, leading blank, empty
LinesT == << <<"a","b","_","c">>, <<"a","_","_">>, <<>>, <<"E","a","!","b","E">>, <<"!","b","#","c">>,
             <<"_","a">>, <<"a","R","b">>, <<"%","1",">","2">>, <<"a","_","#">>, <<"c","c","c","c","c","c","c","c">>,
             <<"E","E">>, <<"!","#","_">>, <<"d","E","_","E">>,
             \* lines whose TAIL looks like a prompt (only a line-aligned window keeps them from matching)
             <<"%","a","b","#">>, <<"!","_","a",">">>, <<"%","%","e","#","_">>, <<"c","c","c","c","c","c","c","c","c","c","c">> >>
Seps == << <<"R","N">>, <<"N">> >>
Prompts == << <<"e","#","_">>, <<"e","#">>, <<"a","b","1",">">>, <<"d","2",">","_">> >>
ReadSizes == <<1, 2, 3, 8, 64, 8192>>

RECURSIVE OutLines(_, _, _)
OutLines(m, k, base) == IF k = 0 THEN <<>>
                        ELSE Pick(LinesT, m, base + 2*k) \o (IF k = 1 THEN <<>> ELSE Pick(Seps, m, base + 2*k + 1)) \o OutLines(m, k - 1, base)
Out(m, j) == LET nl == Below(6, m, 100*j) IN
             OutLines(m, nl, 100*j + 1) \o (IF Below(5, m, 100*j + 50) = 0 THEN <<"R","N">> ELSE <<>>)
NoEsc(o) == SelectSeq(o, LAMBDA x : x # "E")

RECURSIVE WrapEcho(_, _)
WrapEcho(c, k) == IF c = <<>> THEN <<>>
                  ELSE <<c[1]>> \o (IF (k + 1) % 2 = 0 THEN <<"_", "R">> ELSE <<>>) \o WrapEcho(Tail(c), k + 1)
\* a terminal that breaks the line while it echoes (the cursor reached the right margin): CR LF behind the first character
BreakEcho(c) == IF Len(c) < 2 THEN c ELSE <<c[1], "R", "N">> \o Tail(c)
Banner == <<"f", "_", "N">>
Scn(m) ==
  LET nc     == 1 + Below(4, m, 1)
      prompt == Pick(Prompts, m, 2)
      rs     == Pick(ReadSizes, m, 3)
      strip  == Coin(m, 4)
      wrap   == Below(3, m, 5) = 0
      cmds   == [j \in 1..nc |-> Pick(Cmds, m, 10 + j)]
      outs   == [j \in 1..nc |-> IF rs < 8 THEN NoEsc(Out(m, j)) ELSE Out(m, j)]
      need   == LET ls == {LongestLine(Answer(outs[j], prompt)) : j \in 1..nc}
                IN (CHOOSE x \in ls : \A y \in ls : y <= x) + Len(prompt)
      depth  == CASE Below(3, m, 7) = 0 -> need + 1 [] Below(3, m, 7) = 1 -> need + 4 [] OTHER -> 1000
      \* the broken echo only with the default search depth: a depth that does not reach back over prompt and echo to the line
      \* feed in front of them is outside what the property promises for an echo of two lines
      brk    == (~wrap) /\ depth = 1000 /\ Below(2, m, 9) = 0
      exact  == (~wrap) /\ (~brk) /\ Coin(m, 6)
  IN [id |-> m, nc |-> nc, prompt |-> Str(prompt), readSize |-> rs, strip |-> strip, wrap |-> wrap, brk |-> brk, exact |-> exact,
      depth |-> depth,
      \* the operation carries an interim prompt pattern that nothing the device prints matches: the output is then awaited by
      \* ReadUntilAnyPrompt instead of ReadUntilPrompt, the contract is the same
      interim |-> Below(4, m, 8) = 0,
      cmds |-> [j \in 1..nc |-> Str(cmds[j])], outs |-> [j \in 1..nc |-> Str(outs[j])],
      pre |-> \A j \in 1..nc : PreOut(outs[j], depth, prompt) /\ PreCmd(cmds[j]),
      expect |-> [j \in 1..nc |-> Str(Expect(outs[j], prompt, strip))],
      \* an empty command (a bare return): nothing is echoed, the device answers with its prompt alone
      expectempty |-> Str(Post(<<"N", "N">> \o prompt, strip)),
      early |-> EarlyEcho(cmds[1], Banner \o prompt \o <<"N", "N">> \o prompt,
                          IF wrap THEN WrapEcho(cmds[1], 0) ELSE IF brk THEN BreakEcho(cmds[1]) ELSE cmds[1], depth, exact),
      devlog |-> [j \in 1..nc |-> Str(cmds[j])]]

Init == n = 0
Next == /\ n < Count /\ n' = n + 1
        /\ LET s == Scn(n) IN s.pre => PrintT("SCN " \o ToJson(s))
Spec == Init /\ [][Next]_n
=============================================================================
