------------------------------- MODULE Options -------------------------------
(* C19: driver options.  Catalogue: every option function with the setting (object.field) it names, its kind
   (set: the later one wins; app: accumulates in list order; flag: presence sets it) and the constructors whose
   objects carry that setting.  Fold(list) is the contract: the value of every setting after applying an option
   list in order, independent of where unrelated options stand; a platform definition's options come first and the
   user's list after them, so the user wins.  The module generates option lists (with duplicates and two value
   variants per option) and prints Fold for each; the harness applies the real option functions through the four
   constructors and compares every observable setting.  Every fifth list is also emitted with one invalid option
   inserted (Invalid / InvScn): the constructor must reject it as the table says, wherever it stands.             *)
EXTENDS Naturals, Sequences, FiniteSets, ScnRand, TLC, Json
CONSTANT Count
VARIABLE n

\* objs: which constructors expose the setting (g generic, n network, c netconf, p platform-built network driver)
Cat == <<
  [name |-> "WithAuthUsername",        field |-> "A.User",               kind |-> "set",  objs |-> "gncp"],
  [name |-> "WithAuthPassword",        field |-> "A.Password",           kind |-> "set",  objs |-> "gncp"],
  [name |-> "WithAuthSecondary",       field |-> "N.AuthSecondary",      kind |-> "set",  objs |-> "np"],
  [name |-> "WithAuthPassphrase",      field |-> "S.PrivateKeyPassPhrase", kind |-> "set", objs |-> "gncp"],
  [name |-> "WithAuthNoStrictKey",     field |-> "S.StrictKey",          kind |-> "flag", objs |-> "gncp"],
  [name |-> "WithAuthBypass",          field |-> "C.AuthBypass",         kind |-> "flag", objs |-> "gncp"],
  [name |-> "WithPromptSearchDepth",   field |-> "C.PromptSearchDepth",  kind |-> "set",  objs |-> "gncp"],
  [name |-> "WithUsernamePattern",     field |-> "C.UsernamePattern",    kind |-> "set",  objs |-> "gncp"],
  [name |-> "WithPasswordPattern",     field |-> "C.PasswordPattern",    kind |-> "set",  objs |-> "gncp"],
  [name |-> "WithPassphrasePattern",   field |-> "C.PassphrasePattern",  kind |-> "set",  objs |-> "gncp"],
  [name |-> "WithReturnChar",          field |-> "C.ReturnChar",         kind |-> "set",  objs |-> "gncp"],
  [name |-> "WithTimeoutOps",          field |-> "C.TimeoutOps",         kind |-> "set",  objs |-> "gncp"],
  [name |-> "WithReadDelay",           field |-> "C.ReadDelay",          kind |-> "set",  objs |-> "gncp"],
  [name |-> "WithChannelLog",          field |-> "C.ChannelLog",         kind |-> "set",  objs |-> "gncp"],
  [name |-> "WithFailedWhenContains",  field |-> "G.FailedWhenContains", kind |-> "set",  objs |-> "gnp"],
  [name |-> "WithOnOpen",              field |-> "G.OnOpen",             kind |-> "set",  objs |-> "gnp"],
  [name |-> "WithOnClose",             field |-> "G.OnClose",            kind |-> "set",  objs |-> "gnp"],
  [name |-> "WithLogger",              field |-> "Logger",               kind |-> "set",  objs |-> "gncp"],
  [name |-> "WithDefaultLogger",       field |-> "Logger",               kind |-> "set",  objs |-> "gnp"],
  [name |-> "WithNetconfPreferredVersion", field |-> "NC.PreferredVersion", kind |-> "set", objs |-> "c"],
  [name |-> "WithNetconfForceSelfClosingTags", field |-> "NC.ForceSelfClosingTags", kind |-> "flag", objs |-> "c"],
  [name |-> "WithNetconfExcludeHeader", field |-> "NC.ExcludeHeader",    kind |-> "flag", objs |-> "c"],
  [name |-> "WithNetworkOnOpen",       field |-> "N.OnOpen",             kind |-> "set",  objs |-> "np"],
  [name |-> "WithNetworkOnClose",      field |-> "N.OnClose",            kind |-> "set",  objs |-> "np"],
  [name |-> "WithDefaultDesiredPriv",  field |-> "N.DefaultDesiredPriv", kind |-> "set",  objs |-> "np"],
  [name |-> "WithTransportReadSize",   field |-> "A.ReadSize",           kind |-> "set",  objs |-> "gncp"],
  [name |-> "WithPort",                field |-> "A.Port",               kind |-> "set",  objs |-> "gncp"],
  [name |-> "WithTermHeight",          field |-> "A.TermHeight",         kind |-> "set",  objs |-> "gncp"],
  [name |-> "WithTermWidth",           field |-> "A.TermWidth",          kind |-> "set",  objs |-> "gncp"],
  [name |-> "WithTimeoutSocket",       field |-> "A.TimeoutSocket",      kind |-> "set",  objs |-> "gncp"],
  [name |-> "WithSystemTransportOpenBin", field |-> "Sys.OpenBin",       kind |-> "set",  objs |-> "gncp"],
  [name |-> "WithSystemTransportOpenArgs", field |-> "Sys.ExtraArgs",    kind |-> "app",  objs |-> "gncp"],
  [name |-> "WithSystemTransportOpenArgsOverride", field |-> "Sys.OpenArgs", kind |-> "set", objs |-> "gncp"],
  [name |-> "WithSSHKnownHostsFile",   field |-> "S.KnownHostsFile",     kind |-> "set",  objs |-> "gncp"],
  [name |-> "WithSSHConfigFile",       field |-> "S.ConfigFile",         kind |-> "set",  objs |-> "gncp"]
>>
\* WithAuthPrivateKey sets two settings at once; it interacts with WithAuthPassphrase by order
PrivKey == [name |-> "WithAuthPrivateKey", field |-> "S.PrivateKeyPath", kind |-> "set", objs |-> "gncp"]
Fields == {Cat[k].field : k \in 1..Len(Cat)} \cup {"S.PrivateKeyPath"}

\* an option list: sequence of [o |-> index into Cat (0 = WithAuthPrivateKey), v |-> value variant 1..2]
Tag(e) == IF e.o = 0 THEN "WithAuthPrivateKey:" \o ToString(e.v) ELSE Cat[e.o].name \o ":" \o ToString(e.v)
RECURSIVE Fold(_, _)
\* acc: function field -> sequence of tags (set/flag: at most one, the last; app: all, in order)
Fold(list, acc) ==
  IF list = <<>> THEN acc
  ELSE LET e == list[1] IN
       IF e.o = 0
       THEN Fold(Tail(list), [acc EXCEPT !["S.PrivateKeyPath"] = <<Tag(e)>>, !["S.PrivateKeyPassPhrase"] = <<Tag(e)>>])
       ELSE LET c == Cat[e.o] IN
            Fold(Tail(list), [acc EXCEPT ![c.field] = IF c.kind = "app" THEN @ \o <<Tag(e)>> ELSE <<Tag(e)>>])
Empty == [f \in Fields |-> <<>>]

\* options a platform definition's options block can express (platform/options.go)
PlatNames == {"WithPort", "WithAuthBypass", "WithAuthNoStrictKey", "WithUsernamePattern", "WithPasswordPattern", "WithPassphrasePattern", "WithReturnChar",
              "WithReadDelay", "WithTimeoutOps", "WithTransportReadSize", "WithTermHeight", "WithTermWidth", "WithSystemTransportOpenArgs"}
PlatIdx == SelectSeq([k \in 1..Len(Cat) |-> k], LAMBDA k : Cat[k].name \in PlatNames)
PList(m, len, base) == [j \in 1..len |-> [o |-> PlatIdx[1 + Below(Len(PlatIdx), m, base + 2 * j)], v |-> 1 + Below(2, m, base + 2 * j + 1)]]
List(m, len, base) == [j \in 1..len |-> [o |-> Below(Len(Cat) + 1, m, base + 2 * j), v |-> 1 + Below(2, m, base + 2 * j + 1)]]
Scn(m) == LET user == List(m, 1 + Below(8, m, 1), 10)
              plat == PList(m, Below(4, m, 2), 60)          \* options named by a platform definition's options block come first
              folded == Fold(plat \o user, Empty)
          IN [id |-> m, user |-> [j \in 1..Len(user) |-> Tag(user[j])], platform |-> [j \in 1..Len(plat) |-> Tag(plat[j])],
              expect |-> [f \in Fields |-> folded[f]],
              expectUserOnly |-> [f \in Fields |-> Fold(user, Empty)[f]]]

\* order laws, checked on every generated list: swapping two adjacent options that name different settings changes nothing
Indep(a, b) == LET fa == IF a.o = 0 THEN {"S.PrivateKeyPath", "S.PrivateKeyPassPhrase"} ELSE {Cat[a.o].field}
                   fb == IF b.o = 0 THEN {"S.PrivateKeyPath", "S.PrivateKeyPassPhrase"} ELSE {Cat[b.o].field}
               IN fa \cap fb = {}
Swap(l, i) == [l EXCEPT ![i] = l[i+1], ![i+1] = l[i]]
OrderLaw(m) == LET l == List(m, 1 + Below(8, m, 1), 10) IN
               \A i \in 1..(Len(l) - 1) : Indep(l[i], l[i+1]) => Fold(Swap(l, i), Empty) = Fold(l, Empty)
\* Invalid values: an otherwise valid list with one invalid option at any position (or, for the network constructor, without
\* the mandatory privilege levels).  reject[ctor] is what the constructor must do: "bad" = an error that is a bad-option
\* error, "bad-or-ignored" = the option's value is invalid but the option does not apply to that object (the statement's two
\* clauses overlap: either outcome is accepted, a panic or any other error is not), "error" = some error (a file that
\* does not exist is reported as file-not-found), "" = nothing to reject.
Invalid == <<
  [tag |-> "WithTransportType:bogus",          reject |-> [g |-> "bad", n |-> "bad", c |-> "bad", p |-> "bad"]],
  [tag |-> "WithNetconfPreferredVersion:bogus", reject |-> [g |-> "bad-or-ignored", n |-> "bad-or-ignored", c |-> "bad", p |-> "bad-or-ignored"]],
  [tag |-> "WithSSHKnownHostsFile:missing",     reject |-> [g |-> "error", n |-> "error", c |-> "error", p |-> "error"]],
  [tag |-> "NoPrivilegeLevels:0",               reject |-> [g |-> "", n |-> "bad", c |-> "", p |-> ""]],
  \* not invalid at all: with the telnet transport the SSH file options do not apply, whatever their value - ignored without error
  [tag |-> "TelnetIgnoresSSHFileOptions:0",     reject |-> [g |-> "", n |-> "", c |-> "", p |-> ""]]
>>
Insert(l, pos, x) == SubSeq(l, 1, pos) \o <<x>> \o SubSeq(l, pos + 1, Len(l))
InvScn(m) == LET user == List(m, Below(6, m, 1), 10)
                 inv == Invalid[1 + Below(Len(Invalid), m, 3)]
                 tags == [j \in 1..Len(user) |-> Tag(user[j])]
             IN [id |-> m, kind |-> "invalid", user |-> Insert(tags, Below(Len(user) + 1, m, 4), inv.tag), platform |-> <<>>, reject |-> inv.reject]
\* values at the edge of the catalogue: a port that is another transport's default (22 ssh, 23 telnet, 830 NETCONF over ssh) or the
\* largest one, with every built-in transport type, the two options in both orders. Fold says: the port given is the port held and
\* the transport type given is the transport built - a default is only what holds when nothing was given.
EdgePorts == <<22, 23, 830, 65535>>
EdgeTypes == <<"system", "standard", "telnet">>
EdgeCount == 24
EdgeScn(k) == [id |-> 100000 + k, kind |-> "edge", user |-> <<>>, platform |-> <<>>,
               port |-> EdgePorts[1 + (k % 4)], transport |-> EdgeTypes[1 + ((k \div 4) % 3)],
               first |-> IF (k \div 12) % 2 = 0 THEN "port" ELSE "type"]
\* a value that is empty: the later option still wins (an empty list of failure strings switches the marking off, also over the
\* list a platform definition brought along)
EmptyCount == 3
EmptyScn(k) == [id |-> 200000 + k, kind |-> "edge-empty", user |-> <<>>, platform |-> <<>>,
                port |-> 0, transport |-> "", first |-> <<"user-then-empty", "platform-then-empty", "empty-then-user">>[k + 1]]
Init == n = 0
Next == n < Count /\ n' = n + 1 /\ Assert(OrderLaw(n), "order law violated") /\ PrintT("SCN " \o ToJson(Scn(n)))
             /\ (n % 5 = 0 => PrintT("SCN " \o ToJson(InvScn(n))))
             /\ (n < EdgeCount => PrintT("SCN " \o ToJson(EdgeScn(n))))
             /\ (n < EmptyCount => PrintT("SCN " \o ToJson(EmptyScn(n))))
Spec == Init /\ [][Next]_n
=============================================================================
