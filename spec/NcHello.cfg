SPECIFICATION Spec
INVARIANT TableRight
CHECK_DEADLOCK FALSE
