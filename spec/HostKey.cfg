SPECIFICATION Spec
INVARIANTS StrictMeansListed SkippedOnlyWhenDisabled
CHECK_DEADLOCK FALSE
