SPECIFICATION Spec
INVARIANTS StrictMeansListed SkippedOnlyWhenDisabled UnreadableNeverTrusted
CHECK_DEADLOCK FALSE
