-------------------------------- MODULE Text --------------------------------
(* Sequence operators over the abstract symbol alphabet (spec/alphabet.json): the pure functions
   of channel/read.go, channel/channel.go (processOut) and util/bytes.go that the CLI properties
   talk about.  A symbol is a one-character string:
     a-f 1 2  letters / digits (legal in prompts and commands)      _  space
     N  line feed        R  carriage return (must vanish)           E  a complete escape sequence (must vanish)
     # >      prompt terminators            ! %  other punctuation (never part of a prompt)          *)
EXTENDS Naturals, Sequences, FiniteSets

PromptChars == {"a","b","c","d","e","f","1","2"}
Terms       == {"#", ">"}
Blank       == {"_"}
Min(a, b)   == IF a < b THEN a ELSE b
Max(a, b)   == IF a > b THEN a ELSE b

\* what the channel read loop does to every chunk: CR and complete escape sequences vanish
Norm(s) == SelectSeq(s, LAMBDA x : x \notin {"R", "E"})

FirstN(s) == IF \E i \in 1..Len(s) : s[i] = "N"
             THEN CHOOSE i \in 1..Len(s) : s[i] = "N" /\ \A j \in 1..(i-1) : s[j] # "N"
             ELSE 0

RECURSIVE Lines(_)
Lines(s) == LET i == FirstN(s) IN
            IF i = 0 THEN <<s>> ELSE <<SubSeq(s, 1, i-1)>> \o Lines(SubSeq(s, i+1, Len(s)))

RECURSIVE JoinN(_)
JoinN(ls) == IF Len(ls) = 0 THEN <<>> ELSE IF Len(ls) = 1 THEN ls[1] ELSE ls[1] \o <<"N">> \o JoinN(Tail(ls))

RECURSIVE RStrip(_)
RStrip(l) == IF l # <<>> /\ l[Len(l)] \in Blank THEN RStrip(SubSeq(l, 1, Len(l)-1)) ELSE l

RECURSIVE TrimNL(_)
TrimNL(s) == IF s # <<>> /\ s[1] = "N" THEN TrimNL(Tail(s))
             ELSE IF s # <<>> /\ s[Len(s)] = "N" THEN TrimNL(SubSeq(s, 1, Len(s)-1)) ELSE s

\* (?im)^[a-z\d.\-@()/:]{1,48}[#>$]\s*$  on one line
IsPromptLine(l) == \E n \in 1..Min(48, Len(l)-1) :
                      /\ \A k \in 1..n : l[k] \in PromptChars
                      /\ l[n+1] \in Terms
                      /\ \A k \in (n+2)..Len(l) : l[k] \in Blank
HasPrompt(s) == \E k \in 1..Len(Lines(s)) : IsPromptLine(Lines(s)[k])
\* the first prompt line of s (GetPrompt returns PromptPattern.Find): without trailing blanks? Find returns the match incl. \s*
FirstPromptLine(s) == LET ls == Lines(s) IN
                      IF \E k \in 1..Len(ls) : IsPromptLine(ls[k])
                      THEN ls[CHOOSE k \in 1..Len(ls) : IsPromptLine(ls[k]) /\ \A j \in 1..(k-1) : ~IsPromptLine(ls[j])]
                      ELSE <<>>

IsSub(a, b) == \E k \in 0..(Len(b) - Len(a)) : SubSeq(b, k+1, k+Len(a)) = a
RECURSIVE IsSubseq(_, _)
IsSubseq(a, b) == IF a = <<>> THEN TRUE ELSE IF b = <<>> THEN FALSE
                  ELSE IF a[1] = b[1] THEN IsSubseq(Tail(a), Tail(b)) ELSE IsSubseq(a, Tail(b))
\* util.BytesRoughlyContains
Fuzzy(input, out) == IsSub(input, out) \/ (Len(out) >= Len(input) /\ IsSubseq(input, out))

\* processReadBuf: line-aligned tail window (since fix 09d7a9f the window is not cut when only white space would remain)
Window(rb, depth) ==
  IF Len(rb) <= depth THEN rb
  ELSE LET t == SubSeq(rb, Len(rb) - depth + 1, Len(rb))
           i == FirstN(t)
           blank(x) == \A k \in 1..Len(x) : x[k] \in {"N", "_", "R"}
       IN IF i > 1 /\ ~blank(SubSeq(t, i, Len(t))) THEN SubSeq(t, i, Len(t)) ELSE t

\* processOut: rstrip every line, drop prompt lines when stripping, trim surrounding newlines
Post(b, strip) ==
  LET ls  == Lines(b)
      ls2 == [k \in 1..Len(ls) |-> RStrip(ls[k])]
      ls3 == [k \in 1..Len(ls2) |-> IF strip /\ IsPromptLine(ls2[k]) THEN <<>> ELSE ls2[k]]
  IN TrimNL(JoinN(ls3))

\* ---- the contract of one scripted CLI exchange (C01): the device answers a return with CRLF out CRLF prompt
Answer(o, prompt) == <<"N">> \o Norm(o) \o <<"N">> \o prompt
Expect(o, prompt, strip) == Post(Answer(o, prompt), strip)
LongestLine(s) == LET ls == Lines(s) IN
                  IF ls = <<>> THEN 0 ELSE CHOOSE m \in {Len(ls[k]) : k \in 1..Len(ls)} : \A k \in 1..Len(ls) : Len(ls[k]) <= m
\* precondition of C01: the window is deeper than prompt + longest line, and no proper prefix of the answer
\* (up to the point where the final prompt's terminator arrives) looks like a prompt in the search window
PreOut(o, d, prompt) ==
  /\ d > LongestLine(Answer(o, prompt)) + Len(prompt)
  /\ \A k \in 0..(Len(Answer(o, prompt)) - Len(prompt)) : ~HasPrompt(Window(SubSeq(Answer(o, prompt), 1, k), d))
  /\ \A k \in 1..(Len(RStrip(prompt)) - 1) :
        ~HasPrompt(Window(SubSeq(Answer(o, prompt), 1, Len(Answer(o, prompt)) - Len(prompt) + k), d))
PreCmd(c) == c # <<>> /\ c[Len(c)] # "_" /\ c[1] # "_" /\ \A k \in 1..Len(c) : c[k] \notin {"N", "R", "E"}
\* ---- a deviation of the code from C01, named: the echo wait (fuzzy subsequence or exact substring in the window)
\* can be satisfied by bytes that were already unconsumed when the command was typed (banner, previous prompt)
\* together with a PROPER prefix of the echo; the return is then written before the echo has been read and the
\* rest of the echo ends up in the result.  EarlyEcho says exactly when that is possible.
EchoSeenIn(c, buf, d, exact) == IF exact THEN IsSub(c, Window(buf, Max(d, 2 * Len(c))))
                                ELSE Fuzzy(c, Window(buf, Max(d, 2 * Len(c))))
EarlyEcho(c, stale, echo, d, exact) ==
  \E k \in 0..(Len(Norm(echo)) - 1) : EchoSeenIn(c, Norm(stale) \o SubSeq(Norm(echo), 1, k), d, exact)
RECURSIVE Flatten(_)
Flatten(ss) == IF ss = <<>> THEN <<>> ELSE ss[1] \o Flatten(Tail(ss))
\* a one-character-per-symbol string for JSON output
RECURSIVE Str(_)
Str(s) == IF s = <<>> THEN "" ELSE s[1] \o Str(Tail(s))
=============================================================================
