------------------------------- MODULE PipeScn -------------------------------
(* Scenario generator for C16: transport x mode x payload sizes around and above the read size x peer chunking x read size. *)
EXTENDS Naturals, Sequences, ScnRand, TLC, Json
CONSTANT Count
VARIABLE n
Cells == << <<"telnet", "shell">>, <<"standard", "shell">>, <<"standard", "netconf">>, <<"system", "shell">>, <<"system", "netconf">> >>
Sizes == << 1, 63, 64, 65, 200, 1000, 5000 >>
Scn(m) == LET c == Cells[(m % 5) + 1] IN
  [id |-> m, transport |-> c[1], mode |-> c[2], readsize |-> Pick(<<64, 64, 8192, 17>>, m, 1),
   s2c |-> Pick(Sizes, m, 2), c2s |-> Pick(Sizes, m, 3), chunk |-> Pick(<<1, 7, 64, 100, 4096>>, m, 4), longline |-> Below(4, m, 5) = 0,
   \* all 256 byte values (only where no tty sits in the path: telnet, standard); the peer starts talking before Open has returned (early);
   \* at Close the peer has stopped answering (hung)
   binary |-> (c[1] # "system") /\ Below(3, m, 6) = 0, \* (a telnet peer that talks during the negotiation phase is C15's subject: there 0xFF is protocol, so no binary payload then)
   early |-> Below(2, m, 7) = 0 /\ ~(c[1] = "telnet" /\ Below(3, m, 6) = 0), hung |-> Below(3, m, 8) = 0,
   \* a telnet peer opens with option negotiation (DO / WILL / DONT of several options) in front of its data: the commands and
   \* the client's answers are protocol, not data - nothing of them may show up in either byte stream
   nego |-> c[1] = "telnet" /\ Below(3, m, 6) # 0 /\ Below(3, m, 9) # 0]
Init == n = 0
Next == n < Count /\ n' = n + 1 /\ PrintT("SCN " \o ToJson(Scn(n)))
Spec == Init /\ [][Next]_n
=============================================================================
