----------------------------- MODULE TextKernel -----------------------------
(* Kernel conformance for Text.tla: the abstract matchers the CLI specifications are built on are evaluated by TLC on
   EVERY symbol string up to MaxLen (and every pair for the fuzzy match) and printed; the harness evaluates the public Go
   counterparts (the default Channel.PromptPattern, util.StripANSI + CR removal, util.BytesRoughlyContains) on the
   concretisation and the two must agree.  This binds the alphabet-level abstraction itself to the code.             *)
EXTENDS Text, TLC, Json
CONSTANTS Mode, MaxLen
VARIABLES s, t
KSym == {"a", "1", "_", "N", "#", ">", "!", "R", "E"}
FSym == {"a", "b", "_"}
Init == IF Mode = "unary" THEN s = <<>> /\ t = <<>> ELSE s \in UNION {[1..k -> FSym] : k \in 1..3} /\ t = <<>>
Next == IF Mode = "unary" THEN Len(s) < MaxLen /\ \E c \in KSym : s' = Append(s, c) /\ t' = t
        ELSE Len(t) < MaxLen /\ \E c \in FSym : t' = Append(t, c) /\ s' = s
Spec == Init /\ [][Next]_<<s, t>>
Emit == PrintT("SCN " \o ToJson(IF Mode = "unary"
           THEN [s |-> Str(s), prompt |-> HasPrompt(Norm(s)), norm |-> Str(Norm(s))]
           ELSE [s |-> Str(s), t |-> Str(t), fuzzy |-> Fuzzy(s, t), sub |-> IsSub(s, t)]))
=============================================================================
