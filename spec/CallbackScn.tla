----------------------------- MODULE CallbackScn -----------------------------
(* Scenario generator for C18: a callback list (1-3 callbacks drawn from templates: contains / not-contains / regex class /
   case sensitivity / once / complete / reset-output) and a device dialogue (what the device prints after the initial input
   and after each answer a callback types).  The harness runs SendWithCallbacks and records firings for CallbackTrace.   *)
EXTENDS Naturals, Sequences, ScnRand, TLC, Json
CONSTANT Count
VARIABLE n
\* texts are given by name; the harness holds the concrete strings
CbT == << [contains |-> "confirm", notcontains |-> "", re |-> "", insens |-> TRUE,  once |-> FALSE, complete |-> FALSE, reset |-> TRUE],
          [contains |-> "Confirm", notcontains |-> "", re |-> "", insens |-> FALSE, once |-> FALSE, complete |-> FALSE, reset |-> TRUE],
          [contains |-> "password", notcontains |-> "", re |-> "", insens |-> TRUE,  once |-> TRUE,  complete |-> FALSE, reset |-> TRUE],
          [contains |-> "?", notcontains |-> "password", re |-> "", insens |-> TRUE, once |-> FALSE, complete |-> FALSE, reset |-> TRUE],
          [contains |-> "yes/no", notcontains |-> "", re |-> "", insens |-> TRUE,  once |-> FALSE, complete |-> FALSE, reset |-> FALSE],
          [contains |-> "", notcontains |-> "", re |-> "digit", insens |-> FALSE, once |-> FALSE, complete |-> FALSE, reset |-> TRUE],
          [contains |-> "", notcontains |-> "more", re |-> "hashend", insens |-> TRUE, once |-> FALSE, complete |-> TRUE, reset |-> FALSE],
          [contains |-> "finished", notcontains |-> "", re |-> "", insens |-> TRUE, once |-> FALSE, complete |-> TRUE, reset |-> FALSE],
          [contains |-> "DONE", notcontains |-> "", re |-> "", insens |-> FALSE, once |-> FALSE, complete |-> TRUE, reset |-> FALSE],
          \* 10: keeps its output and may fire only once; 11: a text OR a pattern (either one triggers)
          [contains |-> "yes/no", notcontains |-> "", re |-> "", insens |-> TRUE,  once |-> TRUE, complete |-> FALSE, reset |-> FALSE],
          [contains |-> "(yes/no)", notcontains |-> "", re |-> "digit", insens |-> TRUE, once |-> FALSE, complete |-> FALSE, reset |-> TRUE] >>
Segs == << "confirm-q", "password-q", "yesno-q", "digit-line", "plain", "more", "finished", "done-upper", "done-lower", "password-again", "two-triggers",
          "pw-upper-q", "more-upper", "confirm-long", "password-long" >>       \* the excluded text in capitals: an insensitive not-contains must still see it;
          \* "...-long": the question, then a listing longer than the channel's prompt search depth in the same piece of output (a trigger
          \* - or the text that excludes one - holds wherever it stands in the accumulated output)
\* directed part (the first 27 scenarios): for every template its own trigger shown twice (a once-callback must not fire again,
\* a repeatable one must), the same followed by a completing callback, and the trigger interleaved with the text that excludes it
Trig == << "confirm-q", "confirm-q", "password-q", "yesno-q", "yesno-q", "digit-line", "finished", "finished", "done-upper" >>
Anti == << "plain", "plain", "password-again", "pw-upper-q", "plain", "plain", "more-upper", "plain", "done-lower" >>
Directed(m) == LET t == (m % 9) + 1
                   v == m \div 9
               IN [id |-> m,
                   cbs |-> CASE v = 0 -> << CbT[t] >> [] v = 1 -> << CbT[t], CbT[8] >> [] OTHER -> << CbT[t], Pick(CbT, m, 11) >>,
                   nexttimeout |-> CASE v = 0 -> << FALSE >> [] OTHER -> << FALSE, Below(3, m, 21) = 0 >>,
                   segs |-> CASE v = 0 -> << Trig[t], Trig[t] >> [] v = 1 -> << Trig[t], Trig[t], "finished" >> [] OTHER -> << Trig[t], Anti[t], Trig[t] >>,
                   mute |-> FALSE]
Random(m) == LET nc == 1 + Below(3, m, 1)
              ns == 2 + Below(3, m, 2)
          IN [id |-> m, cbs |-> [j \in 1..nc |-> Pick(CbT, m, 10 + j)],
              \* per callback: does it carry a next-timeout (the timeout for what follows its firing)?
              nexttimeout |-> [j \in 1..nc |-> Below(3, m, 20 + j) = 0], segs |-> [j \in 1..ns |-> Pick(Segs, m, 30 + j)],
              mute |-> Below(5, m, 40) = 0]
\* three more: a callback that keeps its output fires and the device then says nothing more (it must fire again at once - or end the
\* send with the "already triggered" error when it may fire only once); a text-or-pattern callback triggered by the pattern alone
Directed2(m) == [id |-> m,
                 cbs |-> CASE m = 27 -> << CbT[5] >> [] m = 28 -> << CbT[10] >> [] OTHER -> << CbT[11], CbT[8] >>,
                 nexttimeout |-> CASE m = 29 -> << FALSE, FALSE >> [] OTHER -> << FALSE >>,
                 segs |-> CASE m = 29 -> << "digit-line", "finished" >> [] OTHER -> << "yesno-q" >>,
                 mute |-> m # 29]      \* the device says nothing more after its last piece of output
Scn(m) == IF m < 27 THEN Directed(m) ELSE IF m < 30 THEN Directed2(m) ELSE Random(m)
Init == n = 0
Next == n < Count /\ n' = n + 1 /\ PrintT("SCN " \o ToJson(Scn(n)))
Spec == Init /\ [][Next]_n
=============================================================================
