------------------------------ MODULE QueueSeq ------------------------------
(* The atomic abstraction of util.Queue (what Queue.tla refines at its linearisation points) and
   an enumerator of every sequential history of length N with the abstract results: each
   terminal state is printed as a scenario that the harness replays on the real util.Queue,
   comparing the return value of every call.                                                  *)
EXTENDS Naturals, Sequences, TLC, Json
CONSTANT N
VARIABLES items, hist, fresh
vars == <<items, hist, fresh>>

Ops == {"enq", "deq", "all", "req", "depth"}
Init == items = <<>> /\ hist = <<>> /\ fresh = 1

Do(op) ==
  /\ Len(hist) < N
  /\ CASE op = "enq" -> /\ items' = Append(items, fresh) /\ fresh' = fresh + 1
                        /\ hist' = Append(hist, [op |-> op, arg |-> fresh, res |-> <<>>])
       [] op = "req" -> /\ items' = <<fresh>> \o items /\ fresh' = fresh + 1
                        /\ hist' = Append(hist, [op |-> op, arg |-> fresh, res |-> <<>>])
       [] op = "deq" -> /\ items' = (IF items = <<>> THEN items ELSE Tail(items)) /\ fresh' = fresh
                        /\ hist' = Append(hist, [op |-> op, arg |-> 0, res |-> IF items = <<>> THEN <<>> ELSE <<Head(items)>>])
       [] op = "all" -> /\ items' = <<>> /\ fresh' = fresh
                        /\ hist' = Append(hist, [op |-> op, arg |-> 0, res |-> items])
       [] op = "depth" -> /\ items' = items /\ fresh' = fresh
                          /\ hist' = Append(hist, [op |-> op, arg |-> 0, res |-> <<Len(items)>>])
Next == \E op \in Ops : Do(op)
Spec == Init /\ [][Next]_vars

\* FIFO with put-back first: everything ever handed out, in order, followed by what is held,
\* is a permutation-free merge; checked here as: no id is handed out twice and none invented
RECURSIVE Flat(_)
Flat(h) == IF h = <<>> THEN <<>> ELSE (IF h[1].op \in {"deq", "all"} THEN h[1].res ELSE <<>>) \o Flat(Tail(h))
NoDup == LET f == Flat(hist) \o items IN \A i, j \in 1..Len(f) : i # j => f[i] # f[j]
NoInvent == \A i \in 1..Len(Flat(hist)) : Flat(hist)[i] < fresh
DepthRight == \A i \in 1..Len(hist) : hist[i].op = "depth" => hist[i].res[1] <= i

Emit == (Len(hist) = N) => PrintT("SCN " \o ToJson([ops |-> hist]))
=============================================================================
