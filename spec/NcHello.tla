------------------------------ MODULE NcHello ------------------------------
(* C09: NETCONF session establishment.  Select(adv, pref) is the version decision table; a scenario is a
   server hello (advertised base versions, layout, namespace prefix, extra capabilities, session-id), the
   user's preferred version and the transport's echo flag, with the predicted observables:
     error class of Open; selected version; capabilities and session-id exactly as in the hello;
     the client's hello: exactly one, end-of-message framing, advertising exactly base:<selected>;
     the framing of the first RPC.                                                                   *)
EXTENDS Naturals, Sequences, FiniteSets, TLC, Json
VARIABLES adv, pref, layout, prefix, extra, sid, echo, tail, emitted
vars == <<adv, pref, layout, prefix, extra, sid, echo, tail, emitted>>

Versions == {"1.0", "1.1"}
Select(a, p) ==
  CASE p = "none" -> IF "1.1" \in a THEN "1.1" ELSE IF "1.0" \in a THEN "1.0" ELSE "error"
    [] p = "1.0"  -> IF "1.0" \in a THEN "1.0" ELSE "error"
    [] p = "1.1"  -> IF "1.1" \in a THEN "1.1" ELSE "error"

\* "wrapped": the text of every capability on a line of its own between its tags (white space around it is layout, not content)
Layouts  == {"pretty", "oneline", "decl", "wrapped"}
Prefixes == {"", "nc"}
\* extra capability sets: none; ordinary; URNs that merely CONTAIN a base capability as a substring (must not count)
\* "many": forty module capabilities - the hello is several times longer than the channel's prompt search depth
Extras   == {"none", "ordinary", "lookalike", "many"}
\* what the server writes behind the end-of-message delimiter of its hello: nothing, or a line feed
Tails    == {"", "nl"}
Sids     == {"", "7", "4294967295"}

Init == /\ adv \in SUBSET Versions /\ pref \in {"none", "1.0", "1.1"}
        /\ layout \in Layouts /\ prefix \in Prefixes /\ extra \in Extras /\ sid \in Sids /\ echo \in BOOLEAN /\ tail \in Tails
        /\ emitted = FALSE
Sel == Select(adv, pref)
Scn == [adv10 |-> "1.0" \in adv, adv11 |-> "1.1" \in adv,
        pref |-> pref, layout |-> layout, prefix |-> prefix, extra |-> extra, sid |-> sid, echo |-> echo, tail |-> tail,
        class |-> IF Sel = "error" THEN "netconf" ELSE "ok", selected |-> IF Sel = "error" THEN "" ELSE Sel]
Next == ~emitted /\ emitted' = TRUE /\ PrintT("SCN " \o ToJson(Scn)) /\ UNCHANGED <<adv, pref, layout, prefix, extra, sid, echo, tail>>
Spec == Init /\ [][Next]_vars

\* the table, as the property states it
TableRight ==
  /\ (Sel = "1.1") <=> ("1.1" \in adv /\ pref # "1.0")
  /\ (Sel = "1.0") <=> ("1.0" \in adv /\ (pref = "1.0" \/ (pref = "none" /\ "1.1" \notin adv)))
  /\ (Sel = "error") <=> (adv = {} \/ (pref = "1.0" /\ "1.0" \notin adv) \/ (pref = "1.1" /\ "1.1" \notin adv))
=============================================================================
