------------------------------- MODULE Channel -------------------------------
(* One CLI session through channel.Channel: the device->client wire, the transport read loop
   (channel/read.go read(): cut, normalise, enqueue), the queue, and the operation goroutine of
   SendInputB (channel/sendinput.go): write input, read until the echo is seen (fuzzy or exact, in
   the line-aligned window), write return, read until the prompt is seen, post-process.
   The device (environment) is causal: it echoes what it receives and answers a return with
   CRLF output CRLF prompt.  Every action is one critical section of the code / one reaction of
   the device; TRead's existential k is the segmentation of the byte stream into reads.       *)
EXTENDS Text, TLC
CONSTANTS CmdSet, OutSet, NCmd, Prompt, ReadSizes, Depths, Strips, Exacts, Wraps, QMax, Banner
VARIABLES cmds, outs, readSize, depth, strip, exact, wrap,     \* the scenario (chosen in Init, then fixed)
          wire, q, rb, phase, i, devLine, devLog, results
cfgvars == <<cmds, outs, readSize, depth, strip, exact, wrap>>
vars == <<cmds, outs, readSize, depth, strip, exact, wrap, wire, q, rb, phase, i, devLine, devLog, results>>

\* echo as a wrapping terminal prints it: "_R" interleaved after every second byte
RECURSIVE WrapEcho(_, _)
WrapEcho(c, n) == IF c = <<>> THEN <<>>
                  ELSE <<c[1]>> \o (IF (n + 1) % 2 = 0 THEN <<"_", "R">> ELSE <<>>) \o WrapEcho(Tail(c), n + 1)
Echo(c) == IF wrap THEN WrapEcho(c, 0) ELSE c
EchoDepth(c) == Max(depth, 2 * Len(c))
EchoSeen(c, buf) == EchoSeenIn(c, buf, depth, exact)

Init == /\ cmds \in [1..NCmd -> CmdSet] /\ outs \in [1..NCmd -> OutSet]
        /\ readSize \in ReadSizes /\ depth \in Depths /\ strip \in Strips /\ exact \in Exacts /\ wrap \in Wraps
        /\ (wrap => ~exact)                      \* exact matching cannot accept an altered echo, by design
        /\ \A j \in 1..NCmd : PreOut(outs[j], depth, Prompt) /\ PreCmd(cmds[j])
        /\ wire = Banner \o Prompt             \* login banner + first prompt, never consumed explicitly
        /\ q = <<>> /\ rb = <<>> /\ phase = "idle" /\ i = 1
        /\ devLine = <<>> /\ devLog = <<>> /\ results = <<>>

\* transport read: any cut 1..readSize; CR / escape sequences vanish; empty chunks are not enqueued
TRead == /\ wire # <<>> /\ Len(q) < QMax
         /\ \E k \in 1..Min(readSize, Len(wire)) :
              LET chunk == Norm(SubSeq(wire, 1, k)) IN
              /\ wire' = SubSeq(wire, k+1, Len(wire))
              /\ q' = IF chunk = <<>> THEN q ELSE Append(q, chunk)
         /\ UNCHANGED <<rb, phase, i, devLine, devLog, results>> /\ UNCHANGED cfgvars

WriteInput == /\ phase = "idle" /\ i <= NCmd
              /\ wire' = wire \o Echo(cmds[i])
              /\ devLine' = cmds[i] /\ rb' = <<>> /\ phase' = "echo"
              /\ UNCHANGED <<q, i, devLog, results>> /\ UNCHANGED cfgvars

EchoRead == /\ phase = "echo" /\ q # <<>>
            /\ rb' = rb \o Head(q) /\ q' = Tail(q)
            /\ phase' = IF EchoSeen(cmds[i], rb') THEN "ret" ELSE "echo"
            /\ UNCHANGED <<wire, i, devLine, devLog, results>> /\ UNCHANGED cfgvars

WriteReturn == /\ phase = "ret"
               /\ devLog' = Append(devLog, devLine) /\ devLine' = <<>>
               /\ wire' = wire \o <<"R", "N">> \o outs[i] \o <<"R", "N">> \o Prompt
               /\ rb' = <<>> /\ phase' = "prompt"
               /\ UNCHANGED <<q, i, results>> /\ UNCHANGED cfgvars

PromptRead == /\ phase = "prompt" /\ q # <<>>
              /\ rb' = rb \o Head(q) /\ q' = Tail(q)
              /\ IF HasPrompt(Window(rb', depth))
                 THEN /\ results' = Append(results, Post(rb', strip)) /\ i' = i + 1 /\ phase' = "idle"
                 ELSE /\ UNCHANGED <<results, i>> /\ phase' = "prompt"
              /\ UNCHANGED <<wire, devLine, devLog>> /\ UNCHANGED cfgvars

Next == TRead \/ WriteInput \/ EchoRead \/ WriteReturn \/ PromptRead
Spec == Init /\ [][Next]_vars /\ WF_vars(Next)

Expected(j) == Expect(outs[j], Prompt, strip)
AlignedAll == \A j \in 1..Len(results) : results[j] = Expected(j)
\* the first command meets the unconsumed banner + prompt; later ones at most the prompt's trailing blanks
Early == EarlyEcho(cmds[1], Banner \o Prompt, Echo(cmds[1]), depth, exact)
Aligned   == ~Early => AlignedAll
DeviceGot == \A j \in 1..Len(devLog) : devLog[j] = cmds[j]
\* a result is made of symbols of its own exchange only
NoForeign == \A j \in 1..Len(results) : \A k \in 1..Len(results[j]) :
                \E m \in 1..Len(Answer(outs[j], Prompt)) : results[j][k] = Answer(outs[j], Prompt)[m]
AllDone   == <>(i = NCmd + 1)
View == <<cmds, outs, readSize, depth, strip, exact, wrap, wire, q, rb, phase, i>>
=============================================================================
