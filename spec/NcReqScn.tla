------------------------------ MODULE NcReqScn ------------------------------
(* Scenario generator for C03: a session = version x self-closing x header flags and a sequence of operations with
   argument kinds.  The harness concretises the kinds (ASCII, multi-byte, long, attributes, namespaces, empty elements,
   comment / CDATA / processing instruction before a closing tag, an element with attributes that is written self-closed
   inside a parent of the same name) and records what was transmitted for NcRequestTrace. *)
EXTENDS Naturals, Sequences, ScnRand, TLC, Json
CONSTANT Count
VARIABLE n
Ops == << "get", "get-filter", "get-xpath", "get-config", "get-config-filter", "get-config-defaults", "edit-config", "copy-config",
          "delete-config", "lock", "unlock", "validate", "commit", "commit-confirmed", "commit-persist", "discard", "rpc",
          "commit-persist-id", "commit-all", "commit-timeout" >>       \* every commit parameter alone and all together
ArgKinds == << "ascii", "multibyte", "long", "attrs", "namespaces", "empty-elements", "comment-before-close", "cdata", "pi", "whitespace-only", "mixed", "percent", "prefixed-empty", "same-name-nested" >>
Stores == << "running", "candidate", "startup" >>
Scn(m) == LET k == 2 + Below(5, m, 1) IN
  \* prev = "mismatch": the user requires `version`, the peer offers only the other one: no session, nothing framed at all
  \* prev: an earlier session on the SAME driver object, closed again, in which the peer offered only that version; the session
  \* under observation is then negotiated with a peer that offers only `version` - its framing follows its own two hellos
  [id |-> m, version |-> IF Coin(m, 2) THEN "1.1" ELSE "1.0", prev |-> Pick(<< "none", "none", "1.0", "1.1", "mismatch" >>, m, 5), selfclose |-> Below(3, m, 3) = 0, header |-> Below(4, m, 4) # 0,
   ops |-> [j \in 1..k |-> [op |-> Pick(Ops, m, 10 + j), arg |-> Pick(ArgKinds, m, 30 + j),
                             store |-> Pick(Stores, m, 50 + j), store2 |-> Pick(Stores, m, 70 + j)]]]
Init == n = 0
Next == n < Count /\ n' = n + 1 /\ PrintT("SCN " \o ToJson(Scn(n)))
Spec == Init /\ [][Next]_n
=============================================================================
