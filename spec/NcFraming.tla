----------------------------- MODULE NcFraming -----------------------------
(* RFC 6242 chunked framing (NETCONF 1.1) over byte classes, as two decoders:
     Strict  - exactly the RFC grammar:  (LF '#' size LF data)+ LF '#' '#' LF
     Lenient - the most permissive sensible reading (white space tolerated at chunk boundaries
               and around the message, leading zeros in a size), which still needs every declared size to be a
               positive decimal number of at most 10 digits that is matched by that many bytes,
               a '#' wherever a header must be, and the end-of-chunks marker.
   Class(raw):  legal      Strict accepts                      -> Result = Trim(data), not failed
                malformed  even Lenient rejects for one of the reasons the property lists
                           (short data, bad size, missing end-of-chunks, no chunk marker)
                                                               -> must be marked failed
                grey       anything else                       -> either, but no panic / foreign bytes
   Symbols:  H '#'   0 1 2 digits   - minus   N line feed   _ space   x any other payload byte  *)
EXTENDS Integers, Sequences, FiniteSets, TLC, Json
Sym   == {"H", "1", "2", "0", "-", "N", "x", "_"}
DigitChars == <<"0", "1", "2", "3", "4", "5", "6", "7", "8", "9">>
Digit == {DigitChars[i] : i \in 1..10}       \* the exhaustive enumerations use only 0 1 2 (Sym); recorded traces use all ten
Ws    == {"N", "_"}
DVal(d) == (CHOOSE i \in 1..10 : DigitChars[i] = d) - 1

RECURSIVE Size(_, _, _, _)
\* digits from position p: <<value, next position, digit count>>
\* (the value saturates below TLC's 32-bit integers; every input here is far shorter than that)
Size(s, p, acc, n) == IF p <= Len(s) /\ s[p] \in Digit /\ n < 11
                      THEN Size(s, p + 1, IF acc >= 100000000 THEN 999999999 ELSE acc * 10 + DVal(s[p]), n + 1) ELSE <<acc, p, n>>

RECURSIVE SkipWs(_, _)
SkipWs(s, p) == IF p <= Len(s) /\ s[p] \in Ws THEN SkipWs(s, p + 1) ELSE p

Bad(why) == [ok |-> FALSE, why |-> why, data |-> <<>>]

\* ---------------- strict: input is  LF # size LF data ... LF ## LF  and nothing else
RECURSIVE SChunks(_, _, _)
SChunks(s, p, data) ==
  IF p + 1 > Len(s) THEN Bad("no-end")
  ELSE IF s[p] # "N" \/ s[p+1] # "H" THEN Bad("no-marker")
  ELSE IF p + 2 > Len(s) THEN Bad("no-end")
  ELSE IF s[p+2] = "H"
       THEN IF data = <<>> THEN Bad("empty-message")
            ELSE IF p + 3 > Len(s) THEN Bad("no-end")
            ELSE IF s[p+3] # "N" THEN Bad("junk-after-end")
            ELSE IF p + 3 < Len(s) THEN Bad("junk-after-end")
            ELSE [ok |-> TRUE, why |-> "", data |-> data]
       ELSE IF s[p+2] \notin (Digit \ {"0"}) THEN Bad("bad-size")
       ELSE LET r == Size(s, p + 2, 0, 0) IN
            IF r[3] > 10 THEN Bad("bad-size")
            ELSE IF r[2] > Len(s) THEN Bad("no-end")
            ELSE IF s[r[2]] # "N" THEN Bad("bad-size")
            ELSE IF r[2] + r[1] > Len(s) THEN Bad("short-data")
            ELSE SChunks(s, r[2] + 1 + r[1], data \o SubSeq(s, r[2] + 1, r[2] + r[1]))
Strict(s) == SChunks(s, 1, <<>>)

\* ---------------- lenient: white space allowed around the message (before the first '#', after the end marker); between chunks
\* only line feeds - a space or tab there means that the size of the chunk before it was smaller than its data
RECURSIVE SkipLF(_, _)
SkipLF(s, p) == IF p <= Len(s) /\ s[p] = "N" THEN SkipLF(s, p + 1) ELSE p
RECURSIVE LChunks(_, _, _)
LChunks(s, p0, data) ==
  LET p == IF p0 = 1 THEN SkipWs(s, p0) ELSE SkipLF(s, p0) IN
  IF p > Len(s) THEN Bad("no-end")
  ELSE IF s[p] # "H" THEN Bad("no-marker")
  ELSE IF p + 1 > Len(s) THEN Bad("no-end")
  ELSE IF s[p+1] = "H"
       THEN IF data = <<>> THEN Bad("empty-message")
            ELSE IF SkipWs(s, p + 2) <= Len(s) THEN Bad("junk-after-end")
            ELSE [ok |-> TRUE, why |-> "", data |-> data]
       ELSE IF s[p+1] \notin Digit THEN Bad("bad-size")
       ELSE LET r == Size(s, p + 1, 0, 0) IN
            IF r[3] > 10 THEN Bad("bad-size")
            ELSE IF r[1] = 0 /\ r[2] <= Len(s) THEN Bad("zero-size")
            ELSE IF r[2] > Len(s) THEN Bad("no-end")
            ELSE IF s[r[2]] # "N" THEN Bad("bad-size")
            ELSE IF r[2] + r[1] > Len(s) THEN Bad("short-data")
            ELSE LChunks(s, r[2] + 1 + r[1], data \o SubSeq(s, r[2] + 1, r[2] + r[1]))
Lenient(s) == LChunks(s, 1, <<>>)

MustFail == {"short-data", "bad-size", "no-end", "no-marker"}
Class(s) == IF Strict(s).ok THEN "legal"
            ELSE IF ~Lenient(s).ok /\ Lenient(s).why \in MustFail THEN "malformed"
            ELSE "grey"

RECURSIVE TrimWs(_)
TrimWs(s) == IF s # <<>> /\ s[1] \in Ws THEN TrimWs(Tail(s))
             ELSE IF s # <<>> /\ s[Len(s)] \in Ws THEN TrimWs(SubSeq(s, 1, Len(s) - 1)) ELSE s

\* ---------------- encoder: payload cut into chunks of the given sizes
RECURSIVE Digits(_)
Digits(n) == IF n < 10 THEN <<DigitChars[n + 1]>>
             ELSE Digits(n \div 10) \o Digits(n % 10)
RECURSIVE Encode(_, _)
Encode(payload, sizes) ==
  IF sizes = <<>> THEN <<"N", "H", "H", "N">>
  ELSE <<"N", "H">> \o Digits(sizes[1]) \o <<"N">> \o SubSeq(payload, 1, sizes[1])
       \o Encode(SubSeq(payload, sizes[1] + 1, Len(payload)), Tail(sizes))
\* all ways to cut a length n into positive parts with sizes expressible in the digit classes (<= 2 here)
RECURSIVE Parts(_)
Parts(n) == IF n = 0 THEN {<<>>} ELSE UNION {{<<k>> \o r : r \in Parts(n - k)} : k \in 1..(IF n < 2 THEN n ELSE 2)}

RECURSIVE StrOf(_)
StrOf(s) == IF s = <<>> THEN "" ELSE s[1] \o StrOf(Tail(s))

\* the round trip the RFC demands, checked by TLC for every payload and partition in MCNcFraming
RoundTrip(payload, sizes) == Strict(Encode(payload, sizes)).ok /\ Strict(Encode(payload, sizes)).data = payload
=============================================================================
