SPECIFICATION Spec
CONSTANTS Seed = 1
 Count = 6
CHECK_DEADLOCK FALSE
