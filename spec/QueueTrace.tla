----------------------------- MODULE QueueTrace -----------------------------
(* Linearizability of recorded util.Queue histories (one producer goroutine "p", one consumer
   goroutine "c") against the atomic queue of QueueSeq.  Trace = NDJSON of events
     {"ev":"reset"} | {"ev":"inv","g":g,"op":op,"arg":n} | {"ev":"res","g":g,"res":[...]}
   recorded in real-time order (one global log).  Between two logged events each pending
   operation may take its silent linearisation step; a response is accepted only if it equals
   the result of that step.  Accepted iff the whole log can be consumed (high-water mark).  *)
EXTENDS Naturals, Sequences, TLC, Json
Trace == ndJsonDeserialize("trace.ndjson")
VARIABLES l, items, pend
vars == <<l, items, pend>>
Ev == Trace[l]
G == {"p", "c"}
None == [op |-> "none", arg |-> 0, lin |-> FALSE, res |-> <<>>]

Init == l = 1 /\ items = <<>> /\ pend = [g \in G |-> None]

Reset == /\ l <= Len(Trace) /\ Ev.ev = "reset" /\ l' = l + 1
         /\ items' = <<>> /\ pend' = [g \in G |-> None]

Invoke == /\ l <= Len(Trace) /\ Ev.ev = "inv" /\ pend[Ev.g].op = "none"
          /\ pend' = [pend EXCEPT ![Ev.g] = [op |-> Ev.op, arg |-> Ev.arg, lin |-> FALSE, res |-> <<>>]]
          /\ l' = l + 1 /\ UNCHANGED items

Lin(g) == /\ pend[g].op # "none" /\ ~pend[g].lin
          /\ LET o == pend[g] IN
             CASE o.op = "enq" -> /\ items' = Append(items, o.arg)
                                  /\ pend' = [pend EXCEPT ![g].lin = TRUE]
               [] o.op = "req" -> /\ items' = <<o.arg>> \o items
                                  /\ pend' = [pend EXCEPT ![g].lin = TRUE]
               [] o.op = "deq" -> /\ items' = (IF items = <<>> THEN items ELSE Tail(items))
                                  /\ pend' = [pend EXCEPT ![g].lin = TRUE, ![g].res = IF items = <<>> THEN <<>> ELSE <<Head(items)>>]
               [] o.op = "all" -> /\ items' = <<>>
                                  /\ pend' = [pend EXCEPT ![g].lin = TRUE, ![g].res = items]
               [] o.op = "depth" -> /\ items' = items
                                    /\ pend' = [pend EXCEPT ![g].lin = TRUE, ![g].res = <<Len(items)>>]
          /\ UNCHANGED l

Respond == /\ l <= Len(Trace) /\ Ev.ev = "res" /\ pend[Ev.g].op # "none" /\ pend[Ev.g].lin
           /\ Ev.res = pend[Ev.g].res
           /\ pend' = [pend EXCEPT ![Ev.g] = None]
           /\ l' = l + 1 /\ UNCHANGED items

Next == Reset \/ Invoke \/ Respond \/ \E g \in G : Lin(g)
Spec == Init /\ [][Next]_vars
ASSUME TLCSet(1, 0)
HW == TLCSet(1, IF TLCGet(1) < l THEN l ELSE TLCGet(1))
Accepted == \/ TLCGet(1) = Len(Trace) + 1
            \/ PrintT("SCN " \o ToJson([rejectedAt |-> TLCGet(1)])) = FALSE
=============================================================================
