---------------------------- MODULE CallbackTrace ----------------------------
(* C18 (direction V).  The harness records one block per SendWithCallbacks operation:
     {"ev":"reset","t":id,"cbs":[{"contains":[chars],"notcontains":[chars],"re":"",  "insens":b,"once":b,"complete":b,"reset":b}, ...],
      "spent":[k, ...]}                                  callbacks of this list that ran in an EARLIER operation with the same list (the once mark belongs to the callback)
     {"ev":"fire","i":k,"arg":[chars]}                 callback k (1-based) ran with this argument
     {"ev":"return","class":c,"result":[chars],"stream":[chars]}   stream = everything the device delivered during the operation (CR removed)
   and this module decides membership in the firing rule:
     - the argument of a firing is the delivered stream from the last reset up to some delivery boundary (existential: any coalescing of reads is fine),
       and boundaries never move backwards;
     - the callback's trigger holds on that argument and no earlier callback's trigger does;
     - a callback marked once fires at most once: when its trigger wins again the operation must end with an operation error instead;
     - a callback marked complete ends the operation, returning the whole dialogue up to that boundary;
     - a time-out is only legitimate when no trigger holds on what was accumulated at the end.
   Characters are one-character strings; "re" names a regex class: "digit" (\d) or "hashend" (#\s*$).                                  *)
EXTENDS Naturals, Sequences, TLC, Json
Trace == ndJsonDeserialize("trace.ndjson")
VARIABLES l, cbs, resetAt, lastP, fired, completed, pendingOnce, fullSeen
vars == <<l, cbs, resetAt, lastP, fired, completed, pendingOnce, fullSeen>>
Ev == Trace[l]

Upper == <<"A","B","C","D","E","F","G","H","I","J","K","L","M","N","O","P","Q","R","S","T","U","V","W","X","Y","Z">>
LowerS == <<"a","b","c","d","e","f","g","h","i","j","k","l","m","n","o","p","q","r","s","t","u","v","w","x","y","z">>
Low(c) == IF \E k \in 1..26 : Upper[k] = c THEN LowerS[CHOOSE k \in 1..26 : Upper[k] = c] ELSE c
LowSeq(s) == [k \in 1..Len(s) |-> Low(s[k])]
IsSub(a, b) == \E k \in 0..(Len(b) - Len(a)) : SubSeq(b, k+1, k+Len(a)) = a
Digits == {"0","1","2","3","4","5","6","7","8","9"}
RECURSIVE RTrim(_)
RTrim(s) == IF s # <<>> /\ s[Len(s)] \in {" ", "\n", "\t"} THEN RTrim(SubSeq(s, 1, Len(s) - 1)) ELSE s
ReMatch(name, s) == CASE name = "digit" -> \E k \in 1..Len(s) : s[k] \in Digits
                      [] name = "hashend" -> RTrim(s) # <<>> /\ RTrim(s)[Len(RTrim(s))] = "#"
                      [] Ev.class = "aborted" -> TRUE        \* the harness stopped a callback list that keeps re-firing (no reset, no complete)
                     [] OTHER -> FALSE
\* the trigger predicate of the property
Trig(cb, acc) ==
  LET a  == IF cb.insens THEN LowSeq(acc) ELSE acc
      ct == IF cb.insens THEN LowSeq(cb.contains) ELSE cb.contains
      nc == IF cb.insens THEN LowSeq(cb.notcontains) ELSE cb.notcontains
  IN /\ \/ (cb.contains # <<>> /\ IsSub(ct, a))
        \/ (cb.re # "" /\ ReMatch(cb.re, a))
     /\ ~(cb.notcontains # <<>> /\ IsSub(nc, a))

Init == l = 1 /\ cbs = <<>> /\ resetAt = 0 /\ lastP = 0 /\ fired = {} /\ completed = FALSE /\ pendingOnce = FALSE /\ fullSeen = <<>>
Reset == /\ l <= Len(Trace) /\ Ev.ev = "reset" /\ l' = l + 1
         /\ cbs' = Ev.cbs /\ resetAt' = 0 /\ lastP' = 0 /\ fired' = {Ev.spent[k] : k \in 1..Len(Ev.spent)} /\ completed' = FALSE /\ pendingOnce' = FALSE /\ fullSeen' = <<>>
\* the stream is only known at the end; a firing's argument carries its own content, so we check it against the running
\* concatenation: arg must extend what was seen since the last reset
Fire == /\ l <= Len(Trace) /\ Ev.ev = "fire" /\ l' = l + 1 /\ ~completed /\ ~pendingOnce
        /\ Ev.i \in 1..Len(cbs)
        /\ LET arg == Ev.arg
               sinceReset == SubSeq(fullSeen, resetAt + 1, Len(fullSeen))
           IN /\ Len(arg) >= Len(sinceReset) /\ SubSeq(arg, 1, Len(sinceReset)) = sinceReset     \* boundaries never move backwards
              /\ Trig(cbs[Ev.i], arg)
              /\ \A j \in 1..(Ev.i - 1) : ~Trig(cbs[j], arg)
              /\ ~(cbs[Ev.i].once /\ Ev.i \in fired)
              /\ fullSeen' = SubSeq(fullSeen, 1, resetAt) \o arg
              /\ fired' = fired \cup {Ev.i}
              /\ completed' = cbs[Ev.i].complete
              /\ resetAt' = IF cbs[Ev.i].reset /\ ~cbs[Ev.i].complete THEN resetAt + Len(arg) ELSE resetAt
        /\ UNCHANGED <<cbs, lastP, pendingOnce>>
Return == /\ l <= Len(Trace) /\ Ev.ev = "return" /\ l' = l + 1
          /\ LET stream == Ev.stream
                 accEnd == SubSeq(stream, resetAt + 1, Len(stream))
             IN /\ Len(stream) >= Len(fullSeen) /\ SubSeq(stream, 1, Len(fullSeen)) = fullSeen    \* what the callbacks saw is what the device delivered
                /\ CASE Ev.class = "ok" -> completed /\ Ev.result = fullSeen                       \* complete: the whole dialogue up to that boundary
                     [] Ev.class = "timeout" -> /\ ~completed
                                                /\ \A j \in 1..Len(cbs) : ~Trig(cbs[j], accEnd) \/ (cbs[j].once /\ j \in fired)
                     [] Ev.class = "operation" -> \* a once-callback's trigger won a second time
                                                  /\ ~completed
                                                  /\ \E j \in 1..Len(cbs) : cbs[j].once /\ j \in fired
                     [] Ev.class = "aborted" -> TRUE        \* the harness stopped a callback list that keeps re-firing (no reset, no complete)
                     [] OTHER -> FALSE
          /\ UNCHANGED <<cbs, resetAt, lastP, fired, completed, pendingOnce, fullSeen>>
Next == Reset \/ Fire \/ Return
Spec == Init /\ [][Next]_vars
ASSUME TLCSet(1, 0)
HW == TLCSet(1, IF TLCGet(1) < l THEN l ELSE TLCGet(1))
Accepted == \/ TLCGet(1) = Len(Trace) + 1
            \/ PrintT("SCN " \o ToJson([rejectedAt |-> TLCGet(1)])) = FALSE
=============================================================================
