------------------------------ MODULE Privilege ------------------------------
(* C04 / C17: network.Driver.AcquirePriv as the code does it (driver/network/acquirepriv.go), over every
   rooted labelled tree on Levels.  One Step = one iteration of the loop: GetPrompt, classify the prompt
   (cached level first, then the target, then whichever candidate Go's map iteration yields), and either
   finish or issue exactly one escalate / de-escalate command.  acc[m] = the set of levels whose pattern
   accepts the prompt of mode m (Exact = TRUE: only m itself - the premise of C04; FALSE: any reflexive
   relation - the ambiguity C17 has to live with).                                                    *)
EXTENDS Naturals, Sequences, FiniteSets, TLC
CONSTANTS Levels, Exact
NONE == "NONE"
UNKNOWN == "UNKNOWN"

VARIABLES parent, auth, acc, mode, cache, target, pc, devLog, count, start
vars == <<parent, auth, acc, mode, cache, target, pc, devLog, count, start>>

RECURSIVE Anc(_, _, _)
Anc(p, x, n) == IF n = 0 \/ x = NONE THEN {} ELSE {x} \cup Anc(p, p[x], n - 1)   \* x and its ancestors
IsTree(p) == /\ Cardinality({x \in Levels : p[x] = NONE}) = 1
             /\ \A x \in Levels : \E r \in Anc(p, x, Cardinality(Levels)) : p[r] = NONE
Trees == {p \in [Levels -> Levels \cup {NONE}] : IsTree(p)}

\* the unique tree path: up from a to the lowest common ancestor, then down to b
RECURSIVE Up(_, _, _)
Up(p, a, b) == IF a \in Anc(p, b, Cardinality(Levels)) THEN <<a>> ELSE <<a>> \o Up(p, p[a], b)
RECURSIVE Down(_, _, _)
Down(p, l, b) == IF l = b THEN <<>> ELSE Down(p, l, p[b]) \o <<b>>
Path(p, a, b) == LET u == Up(p, a, b) IN u \o Down(p, u[Len(u)], b)
\* the commands the device must see for a -> b
RECURSIVE Cmds(_, _)
Cmds(p, path) == IF Len(path) < 2 THEN <<>>
                 ELSE (IF p[path[1]] = path[2] THEN <<<<"deesc", path[1]>>>> ELSE <<<<"esc", path[2]>>>>) \o Cmds(p, Tail(path))

Init == /\ parent \in Trees
        /\ auth \in SUBSET {x \in Levels : parent[x] # NONE}
        /\ acc \in IF Exact THEN {[m \in Levels |-> {m}]}
                   ELSE {f \in [Levels -> SUBSET Levels] : \A m \in Levels : m \in f[m]}
        /\ mode \in Levels /\ start = mode
        /\ cache \in {"", mode}
        /\ target \in Levels
        /\ pc = "prompt" /\ devLog = <<>> /\ count = 0

Step == /\ pc = "prompt"
        /\ \E cur \in acc[mode] :
             /\ (cache \in acc[mode] => cur = cache)
             /\ (cache \notin acc[mode] /\ target \in acc[mode] => cur = target)
             /\ IF cur = target
                THEN /\ cache' = cur /\ pc' = "done" /\ UNCHANGED <<mode, devLog, count>>
                ELSE LET path == Path(parent, cur, target)
                         nxt  == path[2]
                     IN /\ cache' = UNKNOWN
                        /\ IF parent[nxt] # cur
                           THEN /\ devLog' = Append(devLog, <<"deesc", cur, mode>>)
                                /\ mode' = IF mode = cur THEN parent[cur] ELSE mode
                           ELSE /\ devLog' = Append(devLog, <<"esc", nxt, mode>>)
                                /\ mode' = IF mode = parent[nxt] THEN nxt ELSE mode
                        /\ count' = count + 1
                        /\ pc' = IF count + 1 > 2 * Cardinality(Levels) THEN "error" ELSE "prompt"
        /\ UNCHANGED <<parent, auth, acc, target, start>>

Next == Step
Spec == Init /\ [][Next]_vars /\ WF_vars(Next)

Reached   == pc = "done" => mode = target
AlongPath == pc = "done" => [k \in 1..Len(devLog) |-> <<devLog[k][1], devLog[k][2]>>] = Cmds(parent, Path(parent, start, target))
InPlace   == \A k \in 1..Len(devLog) : (devLog[k][1] = "deesc" => devLog[k][3] = devLog[k][2])
                                     /\ (devLog[k][1] = "esc" => devLog[k][3] = parent[devLog[k][2]])
NoError   == pc # "error"
Terminates == <>(pc \in {"done", "error"})
ReachedLenient == pc = "done" => target \in acc[mode]
=============================================================================
