--------------------------- MODULE InteractiveScn ---------------------------
(* Scenario generator for C12: interactive dialogues (1..3 events: visible / hidden, with / without an expected response,
   device answers that may show a prompt-looking line before the expected response, dialogues that finish early by showing
   a completion pattern), plain commands (eager or not), and privilege escalations with a secondary secret against a
   device that asks for the password / grants without asking / refuses without asking / rejects the secret.           *)
EXTENDS Naturals, Sequences, ScnRand, TLC, Json
CONSTANT Count
VARIABLE n
\* "command-doubled": a plain command that ends in a doubled letter, typed while unsolicited device output is still unread, with the
\* echo trickling in (the echo wait must not be satisfied one character early)
\* "escalate-noauth": with a secondary secret configured, a transition that needs no password (configure terminal) is still a plain
\* command: its return waits for its echo and the secret is not part of it
Kinds == << "interactive", "interactive", "command", "command-eager", "escalate", "escalate", "interactive-network", "command-doubled", "escalate-noauth" >>
EscOutcomes == << "asks", "grants", "refuses", "rejects" >>
EvShapes == << [hidden |-> FALSE, resp |-> TRUE], [hidden |-> FALSE, resp |-> FALSE], [hidden |-> TRUE, resp |-> TRUE], [hidden |-> TRUE, resp |-> FALSE] >>
Scn(m) == LET kind == Pick(Kinds, m, 1)
              ne == 1 + Below(3, m, 2)
          IN [id |-> m, kind |-> kind,
              events |-> [j \in 1..ne |-> LET sh == Pick(EvShapes, m, 10 + j) IN
                                            [hidden |-> sh.hidden, resp |-> (sh.resp \/ j < ne) /\ ~(j = ne /\ ~sh.resp), noisy |-> Below(3, m, 20 + j) = 0]],
              early |-> Below(4, m, 3) = 0,            \* the device shows a completion pattern before the last event
              esc |-> Pick(EscOutcomes, m, 4),
              delayus |-> 300 + 400 * Below(6, m, 5),
              \* before its question the device prints a listing that is longer than the channel's prompt search depth
              long |-> Below(3, m, 7) = 0,
              \* the device redraws its prompt after an asynchronous log line: a prompt-looking line is still unread when the dialogue starts
              stale |-> Below(3, m, 8) = 0,
              \* used by C11 only: the write carrying the secret fails / the connection breaks right after the secret was sent
              fault |-> Pick(<<"", "werr-on-secret", "rerr-after-secret">>, m, 6)]
Init == n = 0
Next == n < Count /\ n' = n + 1 /\ PrintT("SCN " \o ToJson(Scn(n)))
Spec == Init /\ [][Next]_n
=============================================================================
