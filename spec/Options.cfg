SPECIFICATION Spec
CONSTANTS Seed = 1
 Count = 5
CHECK_DEADLOCK FALSE
