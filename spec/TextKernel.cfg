SPECIFICATION Spec
CONSTANTS Mode = "unary"
 MaxLen = 4
CONSTRAINT Emit
CHECK_DEADLOCK FALSE
