------------------------------ MODULE Lifecycle ------------------------------
(* C07: the shutdown protocol of a connection, goroutine by goroutine, with Go channel semantics made
   explicit (unbuffered rendezvous, close, send-on-closed = panic).  Every label is a yield point of
   the same name in the code (build tag verif), so a TLC counterexample is a schedule the harness can
   force on the real goroutines.

   Processes:  Reader   channel.Channel.read            Closer  Channel.Close (after the NETCONF part when Netconf)
               Helper   the goroutine Close spawns         Op      an in-flight operation polling Channel.Read
               NcReader netconf.Driver.read              (NETCONF Close is the NC_ prefix of Closer)
   Environment: the transport: Feed is what its reads return before Close (data / err / eof); after Close a
   blocked read returns per CloseUnblocks in {"eof","err","stay"}.
   Protocol = "v0" models the code at the pinned commit; "v1" the repaired protocol (see DESIGN.md §12).   *)
EXTENDS Naturals, Sequences, TLC
CONSTANTS Feeds, OpReads, Protocol      \* Feeds: the set of feeds explored in one run

(* --algorithm Lifecycle {
  variables
    Feed \in Feeds,                    \* the matrix: one initial state per combination
    Closes \in {1, 2},
    CloseUnblocks \in {"eof", "err", "stay"},
    Netconf \in BOOLEAN,
    HasOp \in BOOLEAN,                \* an operation is in flight when Close is called
    errsClosed = FALSE,   \* v0: channel.Errs has been closed
    errsWait   = FALSE,   \* reader parked in  c.Errs <- err
    doneWait   = FALSE,   \* v0: helper parked in  c.done <- struct{}{}
    doneClosed = FALSE,   \* v1: close(c.done)
    helperLive = FALSE,   \* v0: helper goroutine exists and has not finished
    helperDone = FALSE,   \* v0: ch closed
    exited     = FALSE,   \* readLoopExited / readerDone
    tClosed    = FALSE,   \* transport closed
    tCloses    = 0,
    implLock   = "free",
    peer       = Feed,
    ncErrsWait = FALSE,   \* netconf reader parked in  d.errs <- err
    ncDoneWait = FALSE,   \* v0: netconf Close parked in  d.done <- true
    ncDoneClosed = FALSE, \* v1
    ncExited   = FALSE,
    closedOnce = FALSE,   \* v1
    panic      = "",
    closeRet   = 0;

  define {
    V1 == Protocol \in {"v1", "v2"}
    V2 == Protocol = "v2"            \* v1 + an operation in flight also watches the done signal (fixes a94e4ce, 3360717)
    DoneSignalled == IF V1 THEN doneClosed ELSE doneWait
  }

  fair process (Reader = "reader")
    variable rerr = "";
  {
   R_top:   while (TRUE) {
              if (V1 /\ doneClosed) { goto R_exit }
              else if (~V1 /\ doneWait) { doneWait := FALSE; helperDone := TRUE; helperLive := FALSE; goto R_exit };   \* case <-c.done
   R_lock:    await implLock = "free"; implLock := "reader";
   R_read:    await peer # <<>> \/ tClosed;                                               \* Impl.Read
              if (peer # <<>>) { rerr := Head(peer); if (Head(peer) # "err") { peer := Tail(peer) } }
              else if (CloseUnblocks = "stay") { await FALSE }
              else { rerr := CloseUnblocks };
              implLock := "free";
   R_chk:     if (rerr # "data") {
                if (V1 /\ doneClosed) { goto R_exit }
                else if (~V1 /\ doneWait) { doneWait := FALSE; helperDone := TRUE; helperLive := FALSE; goto R_exit };
   R_eof:       if (rerr = "eof") { goto R_exit };
   R_send:      if (~V1 /\ errsClosed) { panic := "reader: send on closed Errs"; goto R_dead } else { errsWait := TRUE };
   R_sent:      await ~errsWait \/ (~V1 /\ errsClosed) \/ (V1 /\ doneClosed);
                if (errsWait) {
                  if (V1) { errsWait := FALSE; goto R_exit }        \* select { case c.Errs <- err: case <-c.done: return }
                  else { panic := "reader: send on closed Errs"; goto R_dead }
                };
              };
            };
   R_exit:  exited := TRUE;
   R_dead:  skip;
  }

  \* Channel.Close, preceded by the NETCONF part when Netconf
  fair process (Closer = "closer")
    variable n = 0, force = FALSE, sawExited = FALSE;
  {
   C_loop:  while (n < Closes) {
              if (V1) {
   C_once:      if (closedOnce) { goto C_ret } else { closedOnce := TRUE };
   NC1_done:    if (Netconf) { ncDoneClosed := TRUE };                 \* close(d.done)
   C_done:      doneClosed := TRUE;                                    \* close(c.done)
   C1_wait:     either { await exited; force := FALSE } or { force := TRUE };
              } else {
                if (Netconf) {
   NC_done:       ncDoneWait := TRUE;                                  \* d.done <- true  (unbuffered)
   NC_wait:       await ~ncDoneWait;
                };
   C_errs:      if (errsClosed) { panic := "close: close of closed Errs"; goto C_dead } else { errsClosed := TRUE };
   C_flag:      sawExited := exited;
   C_help:      if (~sawExited) { helperLive := TRUE; helperDone := FALSE } else { helperDone := TRUE };
   C_wait:      either { await helperDone; force := FALSE } or { force := TRUE };   \* the grace timer may win at any time
              };
   C_tclose:  if (~force) { await implLock = "free" };
              tClosed := TRUE; tCloses := tCloses + 1;
   C_ret:     n := n + 1; closeRet := closeRet + 1;
            };
   C_dead:  skip;
  }

  \* v0 only: the goroutine spawned by Close that offers the done signal
  fair process (Helper = "helper")
  {
   H_idle:  await helperLive \/ closeRet = Closes \/ panic # "" \/ V1;
            if (helperLive /\ ~V1) {
   H_send:    doneWait := TRUE;                                        \* c.done <- struct{}{}
   H_wait:    await ~doneWait;
            };
  }

  \* an in-flight CLI operation polling Channel.Read (only when not Netconf) whose device never answers: it ends when
  \* Channel.Read reports an error (its own timer is far in the future)
  fair process (Op = "op")
    variable opEnd = FALSE;
  {
   O_loop:  while (HasOp /\ ~Netconf /\ ~opEnd) {
   O_errs:    if (errsWait) { errsWait := FALSE; opEnd := TRUE };      \* select { case err := <-c.Errs }
   O_flag:    if (~opEnd /\ (exited \/ (V2 /\ doneClosed))) { opEnd := TRUE };   \* the exited flag (v2: and the done signal), then Dequeue
            };
  }

  \* an in-flight NETCONF rpc: select { d.errs, (v2) d.done, timer (far future), reply (never) }
  fair process (NcOp = "ncop")
  {
   NO_wait: await ~(HasOp /\ Netconf) \/ ncErrsWait \/ (V2 /\ ncDoneClosed);
            if (HasOp /\ Netconf /\ ncErrsWait) { ncErrsWait := FALSE };
  }

  \* netconf.Driver.read
  fair process (NcReader = "ncreader")
    variable gotErr = FALSE;
  {
   N_top:   while (Netconf) {
              if (V1 /\ ncDoneClosed) { goto N_exit }
              else if (~V1 /\ ncDoneWait) { ncDoneWait := FALSE; goto N_exit };     \* case <-d.done
   N_read:    \* Channel.Read(): Errs first, then the exited flag
              if (errsWait) { errsWait := FALSE; gotErr := TRUE }
              else if (~V1 /\ errsClosed) { gotErr := FALSE }          \* receive from closed Errs yields nil
              else { gotErr := exited \/ (V2 /\ doneClosed) };    \* v2: Channel.Read also reports the closed done signal (a94e4ce)
   N_send:    if (gotErr) {
                ncErrsWait := TRUE;                                    \* d.errs <- err : nobody receives when idle
   N_sent:      await ~ncErrsWait \/ (V1 /\ ncDoneClosed);
                if (ncErrsWait) { ncErrsWait := FALSE; goto N_exit };  \* v1: select with <-d.done
              };
            };
   N_exit:  ncExited := TRUE;
  }
}
*)
\* BEGIN TRANSLATION
VARIABLES pc, Feed, Closes, CloseUnblocks, Netconf, HasOp, errsClosed, 
          errsWait, doneWait, doneClosed, helperLive, helperDone, exited, 
          tClosed, tCloses, implLock, peer, ncErrsWait, ncDoneWait, 
          ncDoneClosed, ncExited, closedOnce, panic, closeRet

(* define statement *)
V1 == Protocol \in {"v1", "v2"}
V2 == Protocol = "v2"
DoneSignalled == IF V1 THEN doneClosed ELSE doneWait

VARIABLES rerr, n, force, sawExited, opEnd, gotErr

vars == << pc, Feed, Closes, CloseUnblocks, Netconf, HasOp, errsClosed, 
           errsWait, doneWait, doneClosed, helperLive, helperDone, exited, 
           tClosed, tCloses, implLock, peer, ncErrsWait, ncDoneWait, 
           ncDoneClosed, ncExited, closedOnce, panic, closeRet, rerr, n, 
           force, sawExited, opEnd, gotErr >>

ProcSet == {"reader"} \cup {"closer"} \cup {"helper"} \cup {"op"} \cup {"ncop"} \cup {"ncreader"}

Init == (* Global variables *)
        /\ Feed \in Feeds
        /\ Closes \in {1, 2}
        /\ CloseUnblocks \in {"eof", "err", "stay"}
        /\ Netconf \in BOOLEAN
        /\ HasOp \in BOOLEAN
        /\ errsClosed = FALSE
        /\ errsWait = FALSE
        /\ doneWait = FALSE
        /\ doneClosed = FALSE
        /\ helperLive = FALSE
        /\ helperDone = FALSE
        /\ exited = FALSE
        /\ tClosed = FALSE
        /\ tCloses = 0
        /\ implLock = "free"
        /\ peer = Feed
        /\ ncErrsWait = FALSE
        /\ ncDoneWait = FALSE
        /\ ncDoneClosed = FALSE
        /\ ncExited = FALSE
        /\ closedOnce = FALSE
        /\ panic = ""
        /\ closeRet = 0
        (* Process Reader *)
        /\ rerr = ""
        (* Process Closer *)
        /\ n = 0
        /\ force = FALSE
        /\ sawExited = FALSE
        (* Process Op *)
        /\ opEnd = FALSE
        (* Process NcReader *)
        /\ gotErr = FALSE
        /\ pc = [self \in ProcSet |-> CASE self = "reader" -> "R_top"
                                        [] self = "closer" -> "C_loop"
                                        [] self = "helper" -> "H_idle"
                                        [] self = "op" -> "O_loop"
                                        [] self = "ncop" -> "NO_wait"
                                        [] self = "ncreader" -> "N_top"]

R_top == /\ pc["reader"] = "R_top"
         /\ IF V1 /\ doneClosed
               THEN /\ pc' = [pc EXCEPT !["reader"] = "R_exit"]
                    /\ UNCHANGED << doneWait, helperLive, helperDone >>
               ELSE /\ IF ~V1 /\ doneWait
                          THEN /\ doneWait' = FALSE
                               /\ helperDone' = TRUE
                               /\ helperLive' = FALSE
                               /\ pc' = [pc EXCEPT !["reader"] = "R_exit"]
                          ELSE /\ pc' = [pc EXCEPT !["reader"] = "R_lock"]
                               /\ UNCHANGED << doneWait, helperLive, 
                                               helperDone >>
         /\ UNCHANGED << Feed, Closes, CloseUnblocks, Netconf, HasOp, 
                         errsClosed, errsWait, doneClosed, exited, tClosed, 
                         tCloses, implLock, peer, ncErrsWait, ncDoneWait, 
                         ncDoneClosed, ncExited, closedOnce, panic, closeRet, 
                         rerr, n, force, sawExited, opEnd, gotErr >>

R_lock == /\ pc["reader"] = "R_lock"
          /\ implLock = "free"
          /\ implLock' = "reader"
          /\ pc' = [pc EXCEPT !["reader"] = "R_read"]
          /\ UNCHANGED << Feed, Closes, CloseUnblocks, Netconf, HasOp, 
                          errsClosed, errsWait, doneWait, doneClosed, 
                          helperLive, helperDone, exited, tClosed, tCloses, 
                          peer, ncErrsWait, ncDoneWait, ncDoneClosed, ncExited, 
                          closedOnce, panic, closeRet, rerr, n, force, 
                          sawExited, opEnd, gotErr >>

R_read == /\ pc["reader"] = "R_read"
          /\ peer # <<>> \/ tClosed
          /\ IF peer # <<>>
                THEN /\ rerr' = Head(peer)
                     /\ IF Head(peer) # "err"
                           THEN /\ peer' = Tail(peer)
                           ELSE /\ TRUE
                                /\ peer' = peer
                ELSE /\ IF CloseUnblocks = "stay"
                           THEN /\ FALSE
                                /\ rerr' = rerr
                           ELSE /\ rerr' = CloseUnblocks
                     /\ peer' = peer
          /\ implLock' = "free"
          /\ pc' = [pc EXCEPT !["reader"] = "R_chk"]
          /\ UNCHANGED << Feed, Closes, CloseUnblocks, Netconf, HasOp, 
                          errsClosed, errsWait, doneWait, doneClosed, 
                          helperLive, helperDone, exited, tClosed, tCloses, 
                          ncErrsWait, ncDoneWait, ncDoneClosed, ncExited, 
                          closedOnce, panic, closeRet, n, force, sawExited, 
                          opEnd, gotErr >>

R_chk == /\ pc["reader"] = "R_chk"
         /\ IF rerr # "data"
               THEN /\ IF V1 /\ doneClosed
                          THEN /\ pc' = [pc EXCEPT !["reader"] = "R_exit"]
                               /\ UNCHANGED << doneWait, helperLive, 
                                               helperDone >>
                          ELSE /\ IF ~V1 /\ doneWait
                                     THEN /\ doneWait' = FALSE
                                          /\ helperDone' = TRUE
                                          /\ helperLive' = FALSE
                                          /\ pc' = [pc EXCEPT !["reader"] = "R_exit"]
                                     ELSE /\ pc' = [pc EXCEPT !["reader"] = "R_eof"]
                                          /\ UNCHANGED << doneWait, helperLive, 
                                                          helperDone >>
               ELSE /\ pc' = [pc EXCEPT !["reader"] = "R_top"]
                    /\ UNCHANGED << doneWait, helperLive, helperDone >>
         /\ UNCHANGED << Feed, Closes, CloseUnblocks, Netconf, HasOp, 
                         errsClosed, errsWait, doneClosed, exited, tClosed, 
                         tCloses, implLock, peer, ncErrsWait, ncDoneWait, 
                         ncDoneClosed, ncExited, closedOnce, panic, closeRet, 
                         rerr, n, force, sawExited, opEnd, gotErr >>

R_eof == /\ pc["reader"] = "R_eof"
         /\ IF rerr = "eof"
               THEN /\ pc' = [pc EXCEPT !["reader"] = "R_exit"]
               ELSE /\ pc' = [pc EXCEPT !["reader"] = "R_send"]
         /\ UNCHANGED << Feed, Closes, CloseUnblocks, Netconf, HasOp, 
                         errsClosed, errsWait, doneWait, doneClosed, 
                         helperLive, helperDone, exited, tClosed, tCloses, 
                         implLock, peer, ncErrsWait, ncDoneWait, ncDoneClosed, 
                         ncExited, closedOnce, panic, closeRet, rerr, n, force, 
                         sawExited, opEnd, gotErr >>

R_send == /\ pc["reader"] = "R_send"
          /\ IF ~V1 /\ errsClosed
                THEN /\ panic' = "reader: send on closed Errs"
                     /\ pc' = [pc EXCEPT !["reader"] = "R_dead"]
                     /\ UNCHANGED errsWait
                ELSE /\ errsWait' = TRUE
                     /\ pc' = [pc EXCEPT !["reader"] = "R_sent"]
                     /\ panic' = panic
          /\ UNCHANGED << Feed, Closes, CloseUnblocks, Netconf, HasOp, 
                          errsClosed, doneWait, doneClosed, helperLive, 
                          helperDone, exited, tClosed, tCloses, implLock, peer, 
                          ncErrsWait, ncDoneWait, ncDoneClosed, ncExited, 
                          closedOnce, closeRet, rerr, n, force, sawExited, 
                          opEnd, gotErr >>

R_sent == /\ pc["reader"] = "R_sent"
          /\ ~errsWait \/ (~V1 /\ errsClosed) \/ (V1 /\ doneClosed)
          /\ IF errsWait
                THEN /\ IF V1
                           THEN /\ errsWait' = FALSE
                                /\ pc' = [pc EXCEPT !["reader"] = "R_exit"]
                                /\ panic' = panic
                           ELSE /\ panic' = "reader: send on closed Errs"
                                /\ pc' = [pc EXCEPT !["reader"] = "R_dead"]
                                /\ UNCHANGED errsWait
                ELSE /\ pc' = [pc EXCEPT !["reader"] = "R_top"]
                     /\ UNCHANGED << errsWait, panic >>
          /\ UNCHANGED << Feed, Closes, CloseUnblocks, Netconf, HasOp, 
                          errsClosed, doneWait, doneClosed, helperLive, 
                          helperDone, exited, tClosed, tCloses, implLock, peer, 
                          ncErrsWait, ncDoneWait, ncDoneClosed, ncExited, 
                          closedOnce, closeRet, rerr, n, force, sawExited, 
                          opEnd, gotErr >>

R_exit == /\ pc["reader"] = "R_exit"
          /\ exited' = TRUE
          /\ pc' = [pc EXCEPT !["reader"] = "R_dead"]
          /\ UNCHANGED << Feed, Closes, CloseUnblocks, Netconf, HasOp, 
                          errsClosed, errsWait, doneWait, doneClosed, 
                          helperLive, helperDone, tClosed, tCloses, implLock, 
                          peer, ncErrsWait, ncDoneWait, ncDoneClosed, ncExited, 
                          closedOnce, panic, closeRet, rerr, n, force, 
                          sawExited, opEnd, gotErr >>

R_dead == /\ pc["reader"] = "R_dead"
          /\ TRUE
          /\ pc' = [pc EXCEPT !["reader"] = "Done"]
          /\ UNCHANGED << Feed, Closes, CloseUnblocks, Netconf, HasOp, 
                          errsClosed, errsWait, doneWait, doneClosed, 
                          helperLive, helperDone, exited, tClosed, tCloses, 
                          implLock, peer, ncErrsWait, ncDoneWait, ncDoneClosed, 
                          ncExited, closedOnce, panic, closeRet, rerr, n, 
                          force, sawExited, opEnd, gotErr >>

Reader == R_top \/ R_lock \/ R_read \/ R_chk \/ R_eof \/ R_send \/ R_sent
             \/ R_exit \/ R_dead

C_loop == /\ pc["closer"] = "C_loop"
          /\ IF n < Closes
                THEN /\ IF V1
                           THEN /\ pc' = [pc EXCEPT !["closer"] = "C_once"]
                           ELSE /\ IF Netconf
                                      THEN /\ pc' = [pc EXCEPT !["closer"] = "NC_done"]
                                      ELSE /\ pc' = [pc EXCEPT !["closer"] = "C_errs"]
                ELSE /\ pc' = [pc EXCEPT !["closer"] = "C_dead"]
          /\ UNCHANGED << Feed, Closes, CloseUnblocks, Netconf, HasOp, 
                          errsClosed, errsWait, doneWait, doneClosed, 
                          helperLive, helperDone, exited, tClosed, tCloses, 
                          implLock, peer, ncErrsWait, ncDoneWait, ncDoneClosed, 
                          ncExited, closedOnce, panic, closeRet, rerr, n, 
                          force, sawExited, opEnd, gotErr >>

C_tclose == /\ pc["closer"] = "C_tclose"
            /\ IF ~force
                  THEN /\ implLock = "free"
                  ELSE /\ TRUE
            /\ tClosed' = TRUE
            /\ tCloses' = tCloses + 1
            /\ pc' = [pc EXCEPT !["closer"] = "C_ret"]
            /\ UNCHANGED << Feed, Closes, CloseUnblocks, Netconf, HasOp, 
                            errsClosed, errsWait, doneWait, doneClosed, 
                            helperLive, helperDone, exited, implLock, peer, 
                            ncErrsWait, ncDoneWait, ncDoneClosed, ncExited, 
                            closedOnce, panic, closeRet, rerr, n, force, 
                            sawExited, opEnd, gotErr >>

C_ret == /\ pc["closer"] = "C_ret"
         /\ n' = n + 1
         /\ closeRet' = closeRet + 1
         /\ pc' = [pc EXCEPT !["closer"] = "C_loop"]
         /\ UNCHANGED << Feed, Closes, CloseUnblocks, Netconf, HasOp, 
                         errsClosed, errsWait, doneWait, doneClosed, 
                         helperLive, helperDone, exited, tClosed, tCloses, 
                         implLock, peer, ncErrsWait, ncDoneWait, ncDoneClosed, 
                         ncExited, closedOnce, panic, rerr, force, sawExited, 
                         opEnd, gotErr >>

C_once == /\ pc["closer"] = "C_once"
          /\ IF closedOnce
                THEN /\ pc' = [pc EXCEPT !["closer"] = "C_ret"]
                     /\ UNCHANGED closedOnce
                ELSE /\ closedOnce' = TRUE
                     /\ pc' = [pc EXCEPT !["closer"] = "NC1_done"]
          /\ UNCHANGED << Feed, Closes, CloseUnblocks, Netconf, HasOp, 
                          errsClosed, errsWait, doneWait, doneClosed, 
                          helperLive, helperDone, exited, tClosed, tCloses, 
                          implLock, peer, ncErrsWait, ncDoneWait, ncDoneClosed, 
                          ncExited, panic, closeRet, rerr, n, force, sawExited, 
                          opEnd, gotErr >>

NC1_done == /\ pc["closer"] = "NC1_done"
            /\ IF Netconf
                  THEN /\ ncDoneClosed' = TRUE
                  ELSE /\ TRUE
                       /\ UNCHANGED ncDoneClosed
            /\ pc' = [pc EXCEPT !["closer"] = "C_done"]
            /\ UNCHANGED << Feed, Closes, CloseUnblocks, Netconf, HasOp, 
                            errsClosed, errsWait, doneWait, doneClosed, 
                            helperLive, helperDone, exited, tClosed, tCloses, 
                            implLock, peer, ncErrsWait, ncDoneWait, ncExited, 
                            closedOnce, panic, closeRet, rerr, n, force, 
                            sawExited, opEnd, gotErr >>

C_done == /\ pc["closer"] = "C_done"
          /\ doneClosed' = TRUE
          /\ pc' = [pc EXCEPT !["closer"] = "C1_wait"]
          /\ UNCHANGED << Feed, Closes, CloseUnblocks, Netconf, HasOp, 
                          errsClosed, errsWait, doneWait, helperLive, 
                          helperDone, exited, tClosed, tCloses, implLock, peer, 
                          ncErrsWait, ncDoneWait, ncDoneClosed, ncExited, 
                          closedOnce, panic, closeRet, rerr, n, force, 
                          sawExited, opEnd, gotErr >>

C1_wait == /\ pc["closer"] = "C1_wait"
           /\ \/ /\ exited
                 /\ force' = FALSE
              \/ /\ force' = TRUE
           /\ pc' = [pc EXCEPT !["closer"] = "C_tclose"]
           /\ UNCHANGED << Feed, Closes, CloseUnblocks, Netconf, HasOp, 
                           errsClosed, errsWait, doneWait, doneClosed, 
                           helperLive, helperDone, exited, tClosed, tCloses, 
                           implLock, peer, ncErrsWait, ncDoneWait, 
                           ncDoneClosed, ncExited, closedOnce, panic, closeRet, 
                           rerr, n, sawExited, opEnd, gotErr >>

C_errs == /\ pc["closer"] = "C_errs"
          /\ IF errsClosed
                THEN /\ panic' = "close: close of closed Errs"
                     /\ pc' = [pc EXCEPT !["closer"] = "C_dead"]
                     /\ UNCHANGED errsClosed
                ELSE /\ errsClosed' = TRUE
                     /\ pc' = [pc EXCEPT !["closer"] = "C_flag"]
                     /\ panic' = panic
          /\ UNCHANGED << Feed, Closes, CloseUnblocks, Netconf, HasOp, 
                          errsWait, doneWait, doneClosed, helperLive, 
                          helperDone, exited, tClosed, tCloses, implLock, peer, 
                          ncErrsWait, ncDoneWait, ncDoneClosed, ncExited, 
                          closedOnce, closeRet, rerr, n, force, sawExited, 
                          opEnd, gotErr >>

C_flag == /\ pc["closer"] = "C_flag"
          /\ sawExited' = exited
          /\ pc' = [pc EXCEPT !["closer"] = "C_help"]
          /\ UNCHANGED << Feed, Closes, CloseUnblocks, Netconf, HasOp, 
                          errsClosed, errsWait, doneWait, doneClosed, 
                          helperLive, helperDone, exited, tClosed, tCloses, 
                          implLock, peer, ncErrsWait, ncDoneWait, ncDoneClosed, 
                          ncExited, closedOnce, panic, closeRet, rerr, n, 
                          force, opEnd, gotErr >>

C_help == /\ pc["closer"] = "C_help"
          /\ IF ~sawExited
                THEN /\ helperLive' = TRUE
                     /\ helperDone' = FALSE
                ELSE /\ helperDone' = TRUE
                     /\ UNCHANGED helperLive
          /\ pc' = [pc EXCEPT !["closer"] = "C_wait"]
          /\ UNCHANGED << Feed, Closes, CloseUnblocks, Netconf, HasOp, 
                          errsClosed, errsWait, doneWait, doneClosed, exited, 
                          tClosed, tCloses, implLock, peer, ncErrsWait, 
                          ncDoneWait, ncDoneClosed, ncExited, closedOnce, 
                          panic, closeRet, rerr, n, force, sawExited, opEnd, 
                          gotErr >>

C_wait == /\ pc["closer"] = "C_wait"
          /\ \/ /\ helperDone
                /\ force' = FALSE
             \/ /\ force' = TRUE
          /\ pc' = [pc EXCEPT !["closer"] = "C_tclose"]
          /\ UNCHANGED << Feed, Closes, CloseUnblocks, Netconf, HasOp, 
                          errsClosed, errsWait, doneWait, doneClosed, 
                          helperLive, helperDone, exited, tClosed, tCloses, 
                          implLock, peer, ncErrsWait, ncDoneWait, ncDoneClosed, 
                          ncExited, closedOnce, panic, closeRet, rerr, n, 
                          sawExited, opEnd, gotErr >>

NC_done == /\ pc["closer"] = "NC_done"
           /\ ncDoneWait' = TRUE
           /\ pc' = [pc EXCEPT !["closer"] = "NC_wait"]
           /\ UNCHANGED << Feed, Closes, CloseUnblocks, Netconf, HasOp, 
                           errsClosed, errsWait, doneWait, doneClosed, 
                           helperLive, helperDone, exited, tClosed, tCloses, 
                           implLock, peer, ncErrsWait, ncDoneClosed, ncExited, 
                           closedOnce, panic, closeRet, rerr, n, force, 
                           sawExited, opEnd, gotErr >>

NC_wait == /\ pc["closer"] = "NC_wait"
           /\ ~ncDoneWait
           /\ pc' = [pc EXCEPT !["closer"] = "C_errs"]
           /\ UNCHANGED << Feed, Closes, CloseUnblocks, Netconf, HasOp, 
                           errsClosed, errsWait, doneWait, doneClosed, 
                           helperLive, helperDone, exited, tClosed, tCloses, 
                           implLock, peer, ncErrsWait, ncDoneWait, 
                           ncDoneClosed, ncExited, closedOnce, panic, closeRet, 
                           rerr, n, force, sawExited, opEnd, gotErr >>

C_dead == /\ pc["closer"] = "C_dead"
          /\ TRUE
          /\ pc' = [pc EXCEPT !["closer"] = "Done"]
          /\ UNCHANGED << Feed, Closes, CloseUnblocks, Netconf, HasOp, 
                          errsClosed, errsWait, doneWait, doneClosed, 
                          helperLive, helperDone, exited, tClosed, tCloses, 
                          implLock, peer, ncErrsWait, ncDoneWait, ncDoneClosed, 
                          ncExited, closedOnce, panic, closeRet, rerr, n, 
                          force, sawExited, opEnd, gotErr >>

Closer == C_loop \/ C_tclose \/ C_ret \/ C_once \/ NC1_done \/ C_done
             \/ C1_wait \/ C_errs \/ C_flag \/ C_help \/ C_wait \/ NC_done
             \/ NC_wait \/ C_dead

H_idle == /\ pc["helper"] = "H_idle"
          /\ helperLive \/ closeRet = Closes \/ panic # "" \/ V1
          /\ IF helperLive /\ ~V1
                THEN /\ pc' = [pc EXCEPT !["helper"] = "H_send"]
                ELSE /\ pc' = [pc EXCEPT !["helper"] = "Done"]
          /\ UNCHANGED << Feed, Closes, CloseUnblocks, Netconf, HasOp, 
                          errsClosed, errsWait, doneWait, doneClosed, 
                          helperLive, helperDone, exited, tClosed, tCloses, 
                          implLock, peer, ncErrsWait, ncDoneWait, ncDoneClosed, 
                          ncExited, closedOnce, panic, closeRet, rerr, n, 
                          force, sawExited, opEnd, gotErr >>

H_send == /\ pc["helper"] = "H_send"
          /\ doneWait' = TRUE
          /\ pc' = [pc EXCEPT !["helper"] = "H_wait"]
          /\ UNCHANGED << Feed, Closes, CloseUnblocks, Netconf, HasOp, 
                          errsClosed, errsWait, doneClosed, helperLive, 
                          helperDone, exited, tClosed, tCloses, implLock, peer, 
                          ncErrsWait, ncDoneWait, ncDoneClosed, ncExited, 
                          closedOnce, panic, closeRet, rerr, n, force, 
                          sawExited, opEnd, gotErr >>

H_wait == /\ pc["helper"] = "H_wait"
          /\ ~doneWait
          /\ pc' = [pc EXCEPT !["helper"] = "Done"]
          /\ UNCHANGED << Feed, Closes, CloseUnblocks, Netconf, HasOp, 
                          errsClosed, errsWait, doneWait, doneClosed, 
                          helperLive, helperDone, exited, tClosed, tCloses, 
                          implLock, peer, ncErrsWait, ncDoneWait, ncDoneClosed, 
                          ncExited, closedOnce, panic, closeRet, rerr, n, 
                          force, sawExited, opEnd, gotErr >>

Helper == H_idle \/ H_send \/ H_wait

O_loop == /\ pc["op"] = "O_loop"
          /\ IF HasOp /\ ~Netconf /\ ~opEnd
                THEN /\ pc' = [pc EXCEPT !["op"] = "O_errs"]
                ELSE /\ pc' = [pc EXCEPT !["op"] = "Done"]
          /\ UNCHANGED << Feed, Closes, CloseUnblocks, Netconf, HasOp, 
                          errsClosed, errsWait, doneWait, doneClosed, 
                          helperLive, helperDone, exited, tClosed, tCloses, 
                          implLock, peer, ncErrsWait, ncDoneWait, ncDoneClosed, 
                          ncExited, closedOnce, panic, closeRet, rerr, n, 
                          force, sawExited, opEnd, gotErr >>

O_errs == /\ pc["op"] = "O_errs"
          /\ IF errsWait
                THEN /\ errsWait' = FALSE
                     /\ opEnd' = TRUE
                ELSE /\ TRUE
                     /\ UNCHANGED << errsWait, opEnd >>
          /\ pc' = [pc EXCEPT !["op"] = "O_flag"]
          /\ UNCHANGED << Feed, Closes, CloseUnblocks, Netconf, HasOp, 
                          errsClosed, doneWait, doneClosed, helperLive, 
                          helperDone, exited, tClosed, tCloses, implLock, peer, 
                          ncErrsWait, ncDoneWait, ncDoneClosed, ncExited, 
                          closedOnce, panic, closeRet, rerr, n, force, 
                          sawExited, gotErr >>

O_flag == /\ pc["op"] = "O_flag"
          /\ IF ~opEnd /\ (exited \/ (V2 /\ doneClosed))
                THEN /\ opEnd' = TRUE
                ELSE /\ TRUE
                     /\ opEnd' = opEnd
          /\ pc' = [pc EXCEPT !["op"] = "O_loop"]
          /\ UNCHANGED << Feed, Closes, CloseUnblocks, Netconf, HasOp, 
                          errsClosed, errsWait, doneWait, doneClosed, 
                          helperLive, helperDone, exited, tClosed, tCloses, 
                          implLock, peer, ncErrsWait, ncDoneWait, ncDoneClosed, 
                          ncExited, closedOnce, panic, closeRet, rerr, n, 
                          force, sawExited, gotErr >>

Op == O_loop \/ O_errs \/ O_flag

NO_wait == /\ pc["ncop"] = "NO_wait"
           /\ ~(HasOp /\ Netconf) \/ ncErrsWait \/ (V2 /\ ncDoneClosed)
           /\ IF HasOp /\ Netconf /\ ncErrsWait
                 THEN /\ ncErrsWait' = FALSE
                 ELSE /\ TRUE
                      /\ UNCHANGED ncErrsWait
           /\ pc' = [pc EXCEPT !["ncop"] = "Done"]
           /\ UNCHANGED << Feed, Closes, CloseUnblocks, Netconf, HasOp, 
                           errsClosed, errsWait, doneWait, doneClosed, 
                           helperLive, helperDone, exited, tClosed, tCloses, 
                           implLock, peer, ncDoneWait, ncDoneClosed, ncExited, 
                           closedOnce, panic, closeRet, rerr, n, force, 
                           sawExited, opEnd, gotErr >>

NcOp == NO_wait

N_top == /\ pc["ncreader"] = "N_top"
         /\ IF Netconf
               THEN /\ IF V1 /\ ncDoneClosed
                          THEN /\ pc' = [pc EXCEPT !["ncreader"] = "N_exit"]
                               /\ UNCHANGED ncDoneWait
                          ELSE /\ IF ~V1 /\ ncDoneWait
                                     THEN /\ ncDoneWait' = FALSE
                                          /\ pc' = [pc EXCEPT !["ncreader"] = "N_exit"]
                                     ELSE /\ pc' = [pc EXCEPT !["ncreader"] = "N_read"]
                                          /\ UNCHANGED ncDoneWait
               ELSE /\ pc' = [pc EXCEPT !["ncreader"] = "N_exit"]
                    /\ UNCHANGED ncDoneWait
         /\ UNCHANGED << Feed, Closes, CloseUnblocks, Netconf, HasOp, 
                         errsClosed, errsWait, doneWait, doneClosed, 
                         helperLive, helperDone, exited, tClosed, tCloses, 
                         implLock, peer, ncErrsWait, ncDoneClosed, ncExited, 
                         closedOnce, panic, closeRet, rerr, n, force, 
                         sawExited, opEnd, gotErr >>

N_read == /\ pc["ncreader"] = "N_read"
          /\ IF errsWait
                THEN /\ errsWait' = FALSE
                     /\ gotErr' = TRUE
                ELSE /\ IF ~V1 /\ errsClosed
                           THEN /\ gotErr' = FALSE
                           ELSE /\ gotErr' = (exited \/ (V2 /\ doneClosed))
                     /\ UNCHANGED errsWait
          /\ pc' = [pc EXCEPT !["ncreader"] = "N_send"]
          /\ UNCHANGED << Feed, Closes, CloseUnblocks, Netconf, HasOp, 
                          errsClosed, doneWait, doneClosed, helperLive, 
                          helperDone, exited, tClosed, tCloses, implLock, peer, 
                          ncErrsWait, ncDoneWait, ncDoneClosed, ncExited, 
                          closedOnce, panic, closeRet, rerr, n, force, 
                          sawExited, opEnd >>

N_send == /\ pc["ncreader"] = "N_send"
          /\ IF gotErr
                THEN /\ ncErrsWait' = TRUE
                     /\ pc' = [pc EXCEPT !["ncreader"] = "N_sent"]
                ELSE /\ pc' = [pc EXCEPT !["ncreader"] = "N_top"]
                     /\ UNCHANGED ncErrsWait
          /\ UNCHANGED << Feed, Closes, CloseUnblocks, Netconf, HasOp, 
                          errsClosed, errsWait, doneWait, doneClosed, 
                          helperLive, helperDone, exited, tClosed, tCloses, 
                          implLock, peer, ncDoneWait, ncDoneClosed, ncExited, 
                          closedOnce, panic, closeRet, rerr, n, force, 
                          sawExited, opEnd, gotErr >>

N_sent == /\ pc["ncreader"] = "N_sent"
          /\ ~ncErrsWait \/ (V1 /\ ncDoneClosed)
          /\ IF ncErrsWait
                THEN /\ ncErrsWait' = FALSE
                     /\ pc' = [pc EXCEPT !["ncreader"] = "N_exit"]
                ELSE /\ pc' = [pc EXCEPT !["ncreader"] = "N_top"]
                     /\ UNCHANGED ncErrsWait
          /\ UNCHANGED << Feed, Closes, CloseUnblocks, Netconf, HasOp, 
                          errsClosed, errsWait, doneWait, doneClosed, 
                          helperLive, helperDone, exited, tClosed, tCloses, 
                          implLock, peer, ncDoneWait, ncDoneClosed, ncExited, 
                          closedOnce, panic, closeRet, rerr, n, force, 
                          sawExited, opEnd, gotErr >>

N_exit == /\ pc["ncreader"] = "N_exit"
          /\ ncExited' = TRUE
          /\ pc' = [pc EXCEPT !["ncreader"] = "Done"]
          /\ UNCHANGED << Feed, Closes, CloseUnblocks, Netconf, HasOp, 
                          errsClosed, errsWait, doneWait, doneClosed, 
                          helperLive, helperDone, exited, tClosed, tCloses, 
                          implLock, peer, ncErrsWait, ncDoneWait, ncDoneClosed, 
                          closedOnce, panic, closeRet, rerr, n, force, 
                          sawExited, opEnd, gotErr >>

NcReader == N_top \/ N_read \/ N_send \/ N_sent \/ N_exit

(* Allow infinite stuttering to prevent deadlock on termination. *)
Terminating == /\ \A self \in ProcSet: pc[self] = "Done"
               /\ UNCHANGED vars

Next == Reader \/ Closer \/ Helper \/ Op \/ NcOp \/ NcReader
           \/ Terminating

Spec == /\ Init /\ [][Next]_vars
        /\ WF_vars(Reader)
        /\ WF_vars(Closer)
        /\ WF_vars(Helper)
        /\ WF_vars(Op)
        /\ WF_vars(NcOp)
        /\ WF_vars(NcReader)

Termination == <>(\A self \in ProcSet: pc[self] = "Done")

\* END TRANSLATION

NoPanic == panic = ""
CloseReturns == <>(closeRet = Closes \/ panic # "")
\* once every Close has returned, every library goroutine ends (except a reader stuck in a foreign read that stays blocked)
ReaderGone == pc["reader"] \in {"Done"} \/ (CloseUnblocks = "stay" /\ pc["reader"] = "R_read")
NoLeak == <>[](closeRet = Closes => (/\ ReaderGone
                                      /\ pc["helper"] = "Done"
                                      /\ (Netconf => pc["ncreader"] = "Done")))
TransportClosed == [](closeRet = Closes => tClosed)
\* an operation that was in flight ends with the close (it does not live on until its own timer fires)
OpEnds == <>[](closeRet = Closes => (pc["op"] = "Done" /\ pc["ncop"] = "Done"))
=============================================================================
