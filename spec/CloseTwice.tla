----------------------------- MODULE CloseTwice -----------------------------
(* Two callers close the same channel at (nearly) the same moment - a watchdog that aborts a stuck operation and the deferred
   Close of the owner.  Lifecycle.tla has one closer that calls Close once or twice in a row; this module adds the overlap.
   The body of the shutdown is the one of channel.Channel.close at the granularity of Lifecycle's labels:
        C_done   close(done)  - closing a closed channel panics -  and the closed flag is set
        C_wait   wait for the read loop (it leaves once it has seen done)
        C_tclose close the transport
   and the guard in front of it is a constant:
        "once"            sync.Once (the code): the first caller runs the body, a caller that arrives while it runs waits
                          inside Once.Do until the body has finished, later callers return at once
        "cas"             an atomic test-and-set flag: the loser returns at once (a legitimate alternative)
        "check-then-act"  `if closed { return }; close()` with the flag set inside the body (the seeded change C07-11)
   NoPanic, TransportClosedOnce and BothReturn hold for "once" and "cas"; "check-then-act" is rejected (both callers pass the
   check before either has set the flag).  WaitsForShutdown - a caller that returns finds the transport closed - holds for
   "once" only; the property does not demand it, so it is reported, not required.
   Conformance: the C07 scenarios with `meet` hold both real callers at the yield point C_done (the entry of the body) until the
   other one is there too - the schedule of the counterexample - for every driver, state and close behaviour.            *)
EXTENDS Naturals, FiniteSets, TLC
CONSTANT Guard
VARIABLES pc, once, flag, doneClosed, readerGone, tCloses, panic
vars == <<pc, once, flag, doneClosed, readerGone, tCloses, panic>>
Callers == {1, 2}

Init == /\ pc = [c \in Callers |-> "call"] /\ once = "fresh" /\ flag = FALSE /\ doneClosed = FALSE /\ readerGone = FALSE
        /\ tCloses = 0 /\ panic = FALSE

\* ---- the guard
Enter(c) == /\ pc[c] = "call" /\ ~panic
            /\ CASE Guard = "once" ->
                      \/ /\ once = "fresh" /\ once' = "running" /\ pc' = [pc EXCEPT ![c] = "C_done"] /\ UNCHANGED flag
                      \/ /\ once = "done" /\ pc' = [pc EXCEPT ![c] = "ret"] /\ UNCHANGED <<once, flag>>
                      \* once = "running": not enabled - the caller is parked inside Once.Do
                 [] Guard = "cas" ->
                      IF flag THEN pc' = [pc EXCEPT ![c] = "ret"] /\ UNCHANGED <<once, flag>>
                              ELSE flag' = TRUE /\ pc' = [pc EXCEPT ![c] = "C_done"] /\ UNCHANGED once
                 [] Guard = "check-then-act" ->
                      IF flag THEN pc' = [pc EXCEPT ![c] = "ret"] /\ UNCHANGED <<once, flag>>
                              ELSE pc' = [pc EXCEPT ![c] = "C_done"] /\ UNCHANGED <<once, flag>>
            /\ UNCHANGED <<doneClosed, readerGone, tCloses, panic>>
\* ---- the body
CDone(c) == /\ pc[c] = "C_done" /\ ~panic
            /\ IF doneClosed THEN panic' = TRUE /\ UNCHANGED <<doneClosed, flag, pc>>
                             ELSE /\ doneClosed' = TRUE /\ flag' = TRUE /\ pc' = [pc EXCEPT ![c] = "C_wait"] /\ UNCHANGED panic
            /\ UNCHANGED <<once, readerGone, tCloses>>
ReaderLeaves == /\ doneClosed /\ ~readerGone /\ readerGone' = TRUE
                /\ UNCHANGED <<pc, once, flag, doneClosed, tCloses, panic>>
CWait(c) == /\ pc[c] = "C_wait" /\ readerGone /\ pc' = [pc EXCEPT ![c] = "C_tclose"]
            /\ UNCHANGED <<once, flag, doneClosed, readerGone, tCloses, panic>>
CTclose(c) == /\ pc[c] = "C_tclose" /\ tCloses' = tCloses + 1 /\ pc' = [pc EXCEPT ![c] = "ret"]
              /\ once' = IF Guard = "once" THEN "done" ELSE once
              /\ UNCHANGED <<flag, doneClosed, readerGone, panic>>
Next == \/ \E c \in Callers : Enter(c) \/ CDone(c) \/ CWait(c) \/ CTclose(c)
        \/ ReaderLeaves
Spec == Init /\ [][Next]_vars /\ WF_vars(Next)

NoPanic == ~panic
TransportClosedOnce == tCloses <= 1
BothReturn == <>(\A c \in Callers : pc[c] = "ret")
WaitsForShutdown == \A c \in Callers : pc[c] = "ret" => tCloses >= 1
=============================================================================
