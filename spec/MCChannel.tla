------------------------------ MODULE MCChannel ------------------------------
EXTENDS Channel
MCPrompt == <<"e", "#", "_">>
MCBanner == <<"f", "_", "N">>
MCCmds == { <<"a","b","_","c">>, <<"d">> }
MCOuts == { <<"a","_","_","R","N","E","!","b","#","c","_">>,      \* trailing blanks, CR, escape, # mid-line
            <<"c","N","N","d">>,                                    \* blank line inside
            <<>>,                                                   \* no output
            <<"N","a","N">> }                                       \* surrounding blank lines
MCCmdsQuick == { <<"a","b","_","c">> }
MCCmdsEarly == { <<"e","e">>, <<"a","b","_","c">> }
MCOutsTiny == { <<"c","N","N","d">> }
MCOutsQuick == { <<"a","_","_","R","N","E","!","b","#","c","_">>, <<"c","N","N","d">>, <<>> }
=============================================================================
