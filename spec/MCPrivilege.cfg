SPECIFICATION Spec
CONSTANTS Levels = {"a", "b", "c", "d"}
 Exact = TRUE
INVARIANTS Reached AlongPath InPlace NoError
PROPERTY Terminates
CHECK_DEADLOCK FALSE
