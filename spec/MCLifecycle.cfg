SPECIFICATION Spec
CONSTANTS Feeds <- MCFeeds
 OpReads = 2
 Protocol = "v2"
INVARIANT NoPanic
PROPERTIES CloseReturns NoLeak TransportClosed OpEnds
CHECK_DEADLOCK FALSE
