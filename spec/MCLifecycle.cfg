SPECIFICATION Spec
CONSTANTS Feeds <- MCFeeds
 OpReads = 2
 Protocol = "v1"
INVARIANT NoPanic
PROPERTIES CloseReturns NoLeak TransportClosed
CHECK_DEADLOCK FALSE
