SPECIFICATION Spec
CONSTANT N = 5
INVARIANTS NoDup NoInvent DepthRight
CONSTRAINT Emit
CHECK_DEADLOCK FALSE
