----------------------------- MODULE NcSession -----------------------------
(* C08: request / reply bookkeeping of one NETCONF session.  N calls are made one after the other; the server
   answers request j per policy[j]: "now" (reply follows the request), "late" (reply is released only after the
   client's timeout for that call - when the next request arrives, or at the end), "never".  An echoing
   transport additionally sends the client's own request back.  The client files every complete server
   message under the message-id it carries (echoes are dropped), each call polls the store for exactly its
   own id until it is there (Fetch, which deletes it) or its timer expires.
   Properties: ids are 101, 102, ... ; a call that returns a reply returns the reply to its own request;
   a reply the server sent before the call's deadline is never lost (NoLoss); late replies are never handed
   to a later call.  Terminal states are printed as scenarios with the predicted outcome of every call.    *)
EXTENDS Naturals, Sequences, FiniteSets, TLC, Json
CONSTANTS N
VARIABLES policy, echo, nextId, calls, cur, phase, wire, held, heldEcho, store, seenByServer
vars == <<policy, echo, nextId, calls, cur, phase, wire, held, heldEcho, store, seenByServer>>

\* at most one reply is held at a time (held from the previous call): a set of size <= 1 as a sequence of messages
SetToSeqOf(S) == IF S = {} THEN <<>> ELSE <<[kind |-> "reply", id |-> CHOOSE x \in S : TRUE]>>
\* "werr": the request reaches the server completely and is answered at once, but the client's write of the trailing
\* return fails, so the call ends with an error although its message-id has been used
\* "lateecho": like "late", and in addition the echo of this request is delayed past the call's timeout (a stalled
\* network): it reaches the client together with the echo of the next request (NcReadLoop.tla, PromptEcho = FALSE)
Policies == {"now", "late", "never", "werr", "lateecho"}
EchoSeqOf(S) == IF S = {} THEN <<>> ELSE <<[kind |-> "echo", id |-> CHOOSE x \in S : TRUE]>>
Init == /\ policy \in [1..N -> Policies] /\ echo \in BOOLEAN
        /\ nextId = 101 /\ calls = <<>> /\ cur = 1 /\ phase = "idle"
        /\ wire = <<>> /\ held = {} /\ heldEcho = {} /\ store = {} /\ seenByServer = <<>>
        /\ (\E j \in 1..N : policy[j] = "lateecho") => echo

\* the client builds and writes request cur; the server reacts at once (causal)
Send == /\ phase = "idle" /\ cur <= N
        /\ calls' = Append(calls, [id |-> nextId, out |-> "waiting", got |-> 0])
        /\ nextId' = nextId + 1
        /\ seenByServer' = Append(seenByServer, nextId)
        /\ LET lateMsgs == SetToSeqOf(held)
               own == IF policy[cur] \in {"now", "werr"} THEN <<[kind |-> "reply", id |-> nextId]>> ELSE <<>>
               ech == IF echo /\ policy[cur] # "lateecho" THEN <<[kind |-> "echo", id |-> nextId]>> ELSE <<>>
           IN wire' = wire \o EchoSeqOf(heldEcho) \o ech \o lateMsgs \o own
        /\ held' = IF policy[cur] \in {"late", "lateecho"} THEN {nextId} ELSE {}
        /\ heldEcho' = IF policy[cur] = "lateecho" THEN {nextId} ELSE {}
        /\ phase' = IF policy[cur] = "werr" THEN "failed" ELSE "waiting"
        /\ UNCHANGED <<policy, echo, cur, store>>
\* the write error ends the call at once
WriteFails == /\ phase = "failed"
              /\ calls' = [calls EXCEPT ![cur].out = "error"]
              /\ phase' = "idle" /\ cur' = cur + 1
              /\ UNCHANGED <<policy, echo, nextId, wire, held, heldEcho, store, seenByServer>>
\* the NETCONF read loop consumes one complete server message
Deliver == /\ wire # <<>>
           /\ store' = IF Head(wire).kind = "reply" THEN store \cup {Head(wire).id} ELSE store
           /\ wire' = Tail(wire)
           /\ UNCHANGED <<policy, echo, nextId, calls, cur, phase, held, heldEcho, seenByServer>>
Fetch == /\ phase = "waiting" /\ calls[cur].id \in store
         /\ calls' = [calls EXCEPT ![cur].out = "ok", ![cur].got = calls[cur].id]
         /\ store' = store \ {calls[cur].id}
         /\ phase' = "idle" /\ cur' = cur + 1
         /\ UNCHANGED <<policy, echo, nextId, wire, held, heldEcho, seenByServer>>
\* the deadline: only when the server is not going to answer in time (a reply sent "now" always beats it)
Expire == /\ phase = "waiting" /\ policy[cur] # "now"
          /\ calls' = [calls EXCEPT ![cur].out = "timeout"]
          /\ phase' = "idle" /\ cur' = cur + 1
          /\ UNCHANGED <<policy, echo, nextId, wire, held, heldEcho, store, seenByServer>>
\* after the last call the server finally releases what it held
Flush == /\ cur = N + 1 /\ (held # {} \/ heldEcho # {})
         /\ wire' = wire \o EchoSeqOf(heldEcho) \o SetToSeqOf(held) /\ held' = {} /\ heldEcho' = {}
         /\ UNCHANGED <<policy, echo, nextId, calls, cur, phase, store, seenByServer>>
Next == Send \/ WriteFails \/ Deliver \/ Fetch \/ Expire \/ Flush
Spec == Init /\ [][Next]_vars /\ WF_vars(Next)

IdsIncrease == \A j \in 1..Len(calls) : calls[j].id = 100 + j
OwnReply    == \A j \in 1..Len(calls) : calls[j].out = "ok" => calls[j].got = calls[j].id
NoLoss      == \A j \in 1..Len(calls) : (policy[j] = "now" /\ calls[j].out # "waiting") => calls[j].out = "ok"
ServerSawAll == seenByServer = [j \in 1..Len(calls) |-> 100 + j]
Done == <>(cur = N + 1)
Terminal == cur = N + 1 /\ wire = <<>> /\ held = {} /\ heldEcho = {}
Emit == Terminal => PrintT("SCN " \o ToJson([n |-> N, echo |-> echo, policy |-> policy,
                                             outcome |-> [j \in 1..N |-> calls[j].out], ids |-> [j \in 1..N |-> calls[j].id]]))
=============================================================================
